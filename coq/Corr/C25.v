From Verif Require Import Lib.Base Ecat.Addr.

Definition v_task (s : tstate) : V :=
  match s with
  | TKeep a => VL [VZ 0; VZ a] | TDraw => VL [VZ 1; VZ 0] | TProbe i => VL [VZ 2; VZ i]
  | TWrite i => VL [VZ 3; VZ i] | TDone i => VL [VZ 4; VZ i]
  end.

Fixpoint replay (lo hi : Z) (s : st) (es : list ev) (ok : bool) : st * bool :=
  match es with
  | [] => (s, ok)
  | e :: tl => replay lo hi (step lo hi s e) tl (ok && enabled s e)
  end.

Definition run (lo hi : Z) (pre : list Z) (es : list ev) : V :=
  let '(s, ok) := replay lo hi (init pre) es true in
  VL [VL (map v_task (tasks s)); VL (map VZ (rev (used s))); VL (map VZ (bus s)); VBool ok].
