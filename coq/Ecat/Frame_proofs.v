From Verif Require Import Lib.Struct_proofs Ecat.Frame.

Lemma pack_int_inv n s tl z vs out :
  pack (FInt n s :: tl) (SInt z :: vs) = Some out ->
  in_range n s z = true /\ exists o, pack tl vs = Some o /\ out = le_bytes n z ++ o.
Proof.
  cbn [pack]. destruct (in_range n s z); [|discriminate].
  destruct (pack tl vs) as [o|]; [|discriminate]. simpl. intros H; inversion H; eauto.
Qed.

Lemma pack_nil_inv out : pack [] [] = Some out -> out = [].
Proof. simpl. now inversion 1. Qed.

Ltac pack_inv H :=
  repeat match type of H with
  | pack (FInt _ _ :: _) (SInt _ :: _) = Some _ =>
      let R := fresh "R" in let o := fresh "o" in
      apply pack_int_inv in H; destruct H as (R & o & H & ->)
  | pack [] [] = Some ?x => apply pack_nil_inv in H; subst x
  end.

Lemma le_val_app a b : le_val (a ++ b) = le_val a + 256 ^ zlen a * le_val b.
Proof.
  induction a as [|x a IH]; cbn [app le_val].
  - unfold zlen. cbn [length]. change (256 ^ Z.of_nat 0) with 1. lia.
  - rewrite IH. unfold zlen. cbn [length].
    replace (Z.of_nat (S (length a))) with (Z.of_nat (length a) + 1) by lia.
    rewrite Z.pow_add_r by lia. ring.
Qed.

(* finite sweep over the 11-bit length: the length word decodes as intended *)
Definition lf_of (len : Z) (more : bool) : Z := Z.lor len (Z.shiftl (if more then 1 else 0) 15).
Definition lf_ok (len : Z) (more : bool) : bool :=
  let lf := lf_of len more in
  (0 <=? lf) && (lf <? 65536) && (lf mod 2048 =? len) && Bool.eqb (Z.testbit lf 15) more.
Lemma lf_sweep : forallb (fun n => lf_ok (Z.of_nat n) true && lf_ok (Z.of_nat n) false) (seq 0 2048) = true.
Proof. vm_compute. reflexivity. Qed.
Lemma lenfield_decode len more : 0 <= len < 2048 ->
  0 <= lf_of len more < 65536 /\ lf_of len more mod 2048 = len /\ Z.testbit (lf_of len more) 15 = more.
Proof.
  intros H. pose proof lf_sweep as S. rewrite forallb_forall in S.
  specialize (S (Z.to_nat len)). rewrite Z2Nat.id in S by lia.
  assert (I : In (Z.to_nat len) (seq 0 2048)) by (apply in_seq; lia).
  apply S in I. apply andb_prop in I. destruct I as [I1 I2].
  assert (K : lf_ok len more = true) by (destruct more; assumption).
  unfold lf_ok in K. repeat (apply andb_prop in K; destruct K as [K ?]).
  repeat split; try lia. now apply Bool.eqb_prop.
Qed.

Definition hdr_ok (n : Z) : bool :=
  let h := Z.lor n 4096 in (0 <=? h) && (h <? 65536) && (h mod 2048 =? n) && (h / 4096 =? 1).
Lemma hdr_sweep : forallb (fun n => hdr_ok (Z.of_nat n)) (seq 0 2048) = true.
Proof. vm_compute. reflexivity. Qed.
Lemma hdr_decode n : 0 <= n < 2048 ->
  let h := Z.lor n 4096 in 0 <= h < 65536 /\ h mod 2048 = n /\ h / 4096 = 1.
Proof.
  intros H. pose proof hdr_sweep as S. rewrite forallb_forall in S.
  specialize (S (Z.to_nat n)). rewrite Z2Nat.id in S by lia.
  assert (I : In (Z.to_nat n) (seq 0 2048)) by (apply in_seq; lia).
  apply S in I. unfold hdr_ok in I. repeat (apply andb_prop in I; destruct I as [I ?]). lia.
Qed.

(* --------------------------------------------------------------- append *)
Lemma append_inv p d p' a b : append p d = Some (p', (a, b)) ->
  p_size p' = p_size p + zlen (d_data d) + 12 /\ p_data p' = p_data p ++ [d] /\
  a = p_size p + 10 /\ b = a + zlen (d_data d) /\ p_size p' <= Packet_MAXSIZE /\
  zlen (p_data p) <= Packet_append_maxcount.
Proof.
  unfold append, Packet_DATAGRAM_HEADER, Packet_DATAGRAM_TAIL.
  destruct (Z.gtb_spec (p_size p + zlen (d_data d) + 10 + 2) Packet_MAXSIZE); [discriminate|].
  destruct (Z.gtb_spec (zlen (p_data p)) Packet_append_maxcount); [discriminate|].
  intros E; inversion E; subst; cbn [p_size p_data]. repeat split; try reflexivity; lia.
Qed.

(* rejection is exactly the size / count overflow, and leaves the packet alone
   (append returns no new packet) *)
Lemma append_rejects p d : append p d = None <->
  (p_size p + zlen (d_data d) + Packet_DATAGRAM_HEADER + Packet_DATAGRAM_TAIL > Packet_MAXSIZE \/
   zlen (p_data p) > Packet_append_maxcount).
Proof.
  unfold append.
  destruct (Z.gtb_spec (p_size p + zlen (d_data d) + Packet_DATAGRAM_HEADER + Packet_DATAGRAM_TAIL) Packet_MAXSIZE);
  destruct (Z.gtb_spec (zlen (p_data p)) Packet_append_maxcount); split; intros; try discriminate; try lia; auto.
Qed.

(* ---------------------------------------------------------- specification *)
Fixpoint specs (pos : Z) (ds : list dgram) : list pdgram :=
  match ds with
  | [] => []
  | d :: tl =>
      {| s_cmd := d_cmd d; s_idx := d_idx d; s_addr := addr32 d; s_len := zlen (d_data d);
         s_more := match tl with [] => false | _ => true end; s_irq := 0;
         s_data := d_data d; s_wkc := d_wkc d; s_datapos := pos + 10 |}
      :: specs (pos + 12 + zlen (d_data d)) tl
  end.

Definition dsize (ds : list dgram) : Z := fold_right (fun d acc => 12 + zlen (d_data d) + acc) 0 ds.

Lemma splitn_app a b : splitn (length a) (a ++ b) = Some (a, b).
Proof.
  unfold splitn. rewrite app_length.
  destruct (Nat.ltb_spec (length a + length b) (length a)); [lia|].
  rewrite firstn_app, Nat.sub_diag, firstn_all, skipn_app, Nat.sub_diag, skipn_all. simpl.
  now rewrite app_nil_r.
Qed.

Lemma byte1 z : in_range 1 false z = true -> le_bytes 1 z = [z].
Proof. unfold in_range. intros. cbn [le_bytes]. f_equal. change (2 ^ (8 * Z.of_nat 1)) with 256 in *. lia. Qed.

Lemma le_val_2 z : in_range 2 false z = true -> le_val (le_bytes 2 z) = z.
Proof. unfold in_range. intros. rewrite le_val_le_bytes. change (2 ^ (8 * Z.of_nat 2)) with 65536 in *.
  change (256 ^ Z.of_nat 2) with 65536. lia. Qed.

Lemma enc_dgram_shape more d e : enc_dgram more d = Some e -> zlen (d_data d) < 2048 ->
  exists a0 a1 a2 a3 l0 l1 w0 w1,
    e = d_cmd d :: d_idx d :: a0 :: a1 :: a2 :: a3 :: l0 :: l1 :: 0 :: 0 :: d_data d ++ [w0; w1] /\
    le_val [a0; a1; a2; a3] = addr32 d /\ le_val [l0; l1] = lf_of (zlen (d_data d)) more /\
    le_val [w0; w1] = d_wkc d.
Proof.
  unfold enc_dgram. fold (lf_of (zlen (d_data d)) more). intros H Hl.
  pose proof (lenfield_decode (zlen (d_data d)) more ltac:(pose proof (zlen_nonneg (d_data d)); lia)) as (LF & _ & _).
  destruct (d_addr d) as [|x [|y [|? ?]]] eqn:EA; try discriminate.
  - (* logical *)
    destruct (pack _ _) as [h|] eqn:Ph in H; [|discriminate].
    destruct (pack [u16] _) as [w|] eqn:Pw in H; [|discriminate].
    inversion H; subst e; clear H.
    unfold u8, u16, i32 in *. pack_inv Ph. pack_inv Pw.
    rewrite (byte1 _ R), (byte1 _ R0).
    exists (x mod 256), (x / 256 mod 256), (x / 256 / 256 mod 256), (x / 256 / 256 / 256 mod 256).
    exists (lf_of (zlen (d_data d)) more mod 256), (lf_of (zlen (d_data d)) more / 256 mod 256).
    exists (d_wkc d mod 256), (d_wkc d / 256 mod 256).
    split; [reflexivity|]. unfold addr32. rewrite EA.
    split; [change [x mod 256; x / 256 mod 256; x / 256 / 256 mod 256; x / 256 / 256 / 256 mod 256] with (le_bytes 4 x);
            rewrite le_val_le_bytes; reflexivity|].
    split; [apply (le_val_2 _ R2)|apply (le_val_2 _ R4)].
  - (* position / node addressing *)
    destruct (pack _ _) as [h|] eqn:Ph in H; [|discriminate].
    destruct (pack [u16] _) as [w|] eqn:Pw in H; [|discriminate].
    inversion H; subst e; clear H.
    unfold u8, u16, i16 in *. pack_inv Ph. pack_inv Pw.
    rewrite (byte1 _ R), (byte1 _ R0).
    exists (x mod 256), (x / 256 mod 256), (y mod 256), (y / 256 mod 256).
    exists (lf_of (zlen (d_data d)) more mod 256), (lf_of (zlen (d_data d)) more / 256 mod 256).
    exists (d_wkc d mod 256), (d_wkc d / 256 mod 256).
    split; [reflexivity|]. unfold addr32. rewrite EA.
    split.
    + change [x mod 256; x / 256 mod 256; y mod 256; y / 256 mod 256] with (le_bytes 2 x ++ le_bytes 2 y).
      rewrite le_val_app, (le_val_2 _ R2), le_val_le_bytes. unfold zlen. rewrite le_bytes_length. reflexivity.
    + split; [apply (le_val_2 _ R3)|apply (le_val_2 _ R5)].
Qed.

Lemma enc_dgram_length more d e : enc_dgram more d = Some e -> zlen e = 12 + zlen (d_data d).
Proof.
  unfold enc_dgram. intros H.
  destruct (d_addr d) as [|x [|y [|? ?]]]; try discriminate;
  destruct (pack _ _) as [h|] eqn:Ph in H; try discriminate;
  destruct (pack [u16] _) as [w|] eqn:Pw in H; try discriminate;
  inversion H; subst e; apply pack_length in Ph; apply pack_length in Pw;
  rewrite !zlen_app; unfold zlen; rewrite Ph, Pw; unfold u8, u16, i16, i32; cbn [calcsize isize Nat.add]; lia.
Qed.

Lemma parse_enc ds : forall b pos fuel, enc_dgrams ds = Some b -> ds <> [] ->
  Forall (fun d => zlen (d_data d) < 2048) ds -> (length ds <= fuel)%nat ->
  parse_dgrams fuel pos b = Some (specs pos ds).
Proof.
  induction ds as [|d tl IH]; intros b pos fuel He Hne Hl Hf; [congruence|].
  cbn [enc_dgrams] in He.
  destruct (enc_dgram _ d) as [e|] eqn:Ee; [|discriminate].
  destruct (enc_dgrams tl) as [r|] eqn:Er; [|discriminate].
  inversion He; subst b; clear He.
  inversion Hl as [|? ? Hd Htl]; subst.
  destruct (enc_dgram_shape _ _ _ Ee Hd) as (a0 & a1 & a2 & a3 & l0 & l1 & w0 & w1 & -> & EA & EL & EW).
  pose proof (lenfield_decode (zlen (d_data d)) (match tl with [] => false | _ => true end)
               ltac:(pose proof (zlen_nonneg (d_data d)); lia)) as (_ & LM & LB).
  destruct fuel as [|k]; [simpl in Hf; lia|].
  cbn [parse_dgrams app]. rewrite EL, LM, LB.
  unfold zlen at 1. rewrite Nat2Z.id. rewrite <- app_assoc, splitn_app. cbn [app].
  rewrite EA, EW. change (le_val [0; 0]) with 0.
  destruct tl as [|d2 tl2].
  - simpl in Er. inversion Er; subst r. reflexivity.
  - rewrite (IH r (pos + 12 + zlen (d_data d)) k eq_refl ltac:(discriminate) Htl ltac:(simpl in *; lia)).
    reflexivity.
Qed.

Lemma enc_dgrams_length ds : forall b, enc_dgrams ds = Some b -> zlen b = dsize ds.
Proof.
  induction ds as [|d tl IH]; intros b H; cbn [enc_dgrams dsize fold_right] in *.
  - inversion H. reflexivity.
  - destruct (enc_dgram _ d) as [e|] eqn:Ee; [|discriminate].
    destruct (enc_dgrams tl) as [r|] eqn:Er; [|discriminate].
    inversion H; subst. rewrite zlen_app, (enc_dgram_length _ _ _ Ee), (IH _ eq_refl). fold (dsize tl). lia.
Qed.

(* invariant of a sequence of accepted appends *)
Lemma appends_inv ds : forall p p' poss, appends p ds = Some (p', poss) ->
  p_size p' = p_size p + dsize ds /\ p_data p' = p_data p ++ ds /\ p_size p' <= Z.max (p_size p) Packet_MAXSIZE /\
  poss = map (fun s => (s_datapos s, s_datapos s + s_len s)) (specs (p_size p) ds) /\
  zlen (p_data p') <= Z.max (zlen (p_data p)) (Packet_append_maxcount + 1).
Proof.
  induction ds as [|d tl IH]; intros p p' poss H; cbn [appends] in H.
  - inversion H; subst. simpl. rewrite app_nil_r. repeat split; lia.
  - destruct (append p d) as [[p1 [a b]]|] eqn:Ea; [|discriminate].
    destruct (appends p1 tl) as [[p2 l]|] eqn:Et; [|discriminate].
    inversion H; subst; clear H.
    apply append_inv in Ea. destruct Ea as (S1 & D1 & A & B & M & C).
    destruct (IH _ _ _ Et) as (S2 & D2 & M2 & P2 & C2).
    cbn [dsize fold_right specs map s_datapos s_len]. fold (dsize tl).
    split; [lia|]. split; [rewrite D2, D1, <- app_assoc; reflexivity|]. split; [clear - M2 M; lia|]. split.
    + rewrite P2, S1. subst a b. f_equal. f_equal. f_equal. lia.
    + unfold zlen in *. rewrite D1, app_length in C2. simpl length in C2. lia.
Qed.

Lemma dsize_lens ds : 0 <= dsize ds /\ Forall (fun d => zlen (d_data d) <= dsize ds) ds.
Proof.
  induction ds as [|d tl [IH1 IH2]]; cbn [dsize fold_right]; [split; [lia|constructor]|].
  fold (dsize tl). pose proof (zlen_nonneg (d_data d)). split; [lia|].
  constructor; [lia|]. eapply Forall_impl; [|exact IH2]. intros a Ha; cbv beta in *; lia.
Qed.

Definition id_spec (index ethertype : Z) : pdgram :=
  {| s_cmd := 0; s_idx := 0; s_addr := index mod 4294967296; s_len := 2; s_more := true; s_irq := 0;
     s_data := le_bytes 2 ethertype; s_wkc := 0; s_datapos := 12 |}.

Definition id_bytes (index ethertype : Z) : list Z :=
  0 :: 0 :: le_bytes 4 index ++ le_bytes 2 32770 ++ le_bytes 2 0 ++ le_bytes 2 ethertype ++ le_bytes 2 0 ++ [].

Lemma id_bytes_length index ethertype : length (id_bytes index ethertype) = 14%nat.
Proof. reflexivity. Qed.

Lemma parse_id k index ethertype b :
  parse_dgrams (S k) 2 (id_bytes index ethertype ++ b) =
  option_map (cons (id_spec index ethertype)) (parse_dgrams k 16 b).
Proof.
  unfold id_bytes. cbn [le_bytes app parse_dgrams].
  change (le_val [32770 mod 256; 32770 / 256 mod 256]) with 32770.
  change (32770 mod 2048) with 2. change (Z.testbit 32770 15) with true.
  change (Z.to_nat 2) with 2%nat. cbn [splitn length Nat.ltb Nat.leb firstn skipn].
  change (le_val [0 mod 256; 0 / 256 mod 256]) with 0.
  change [index mod 256; index / 256 mod 256; index / 256 / 256 mod 256; index / 256 / 256 / 256 mod 256] with (le_bytes 4 index).
  rewrite le_val_le_bytes. reflexivity.
Qed.

Theorem frame_wellformed ds p poss index ethertype f :
  appends empty_packet ds = Some (p, poss) -> ds <> [] ->
  assemble p index ethertype = Some f ->
  parse_frame f = Some (p_size p - 2, id_spec index ethertype :: specs 16 ds,
                        repeat pad_byte (Z.to_nat (Packet_minpayload - p_size p))) /\
  zlen f = Z.max Packet_minpayload (p_size p) /\ p_size p <= Packet_MAXSIZE /\
  poss = map (fun s => (s_datapos s, s_datapos s + s_len s)) (specs 16 ds).
Proof.
  intros Ha Hne Hasm.
  destruct (appends_inv _ _ _ _ Ha) as (S & D & M & P & _).
  change (p_size empty_packet) with 16 in *. change (p_data empty_packet) with (@nil dgram) in D.
  simpl app in D.
  pose proof (dsize_lens ds) as [Dn Dl].
  assert (Hsz : 16 <= p_size p <= 1500) by (unfold Packet_MAXSIZE in M; lia).
  unfold assemble in Hasm.
  destruct (pack _ _) as [h|] eqn:Ph in Hasm; [|discriminate].
  destruct (enc_dgrams (p_data p)) as [b|] eqn:Eb; [|discriminate].
  assert (Ef : f = h ++ b ++ (if p_size p <? Packet_minpayload then repeat pad_byte (Z.to_nat (Packet_minpayload - p_size p)) else [])) by congruence.
  subst f; clear Hasm.
  rewrite D in Eb.
  pose proof (enc_dgrams_length _ _ Eb) as Lb.
  unfold u8, u16, i32 in Ph. pack_inv Ph.
  destruct (hdr_decode (p_size p - 2) ltac:(lia)) as (H1 & H2 & H3).
  rewrite !(byte1 _ R0).
  assert (E2 : forall z, le_bytes 2 z = [z mod 256; z / 256 mod 256]) by reflexivity.
  assert (E4 : forall z, le_bytes 4 z = [z mod 256; z / 256 mod 256; z / 256 / 256 mod 256; z / 256 / 256 / 256 mod 256]) by reflexivity.
  split; [|split; [|split; [unfold Packet_MAXSIZE; lia|exact P]]].
  - (* parse *)
    rewrite (E2 (Z.lor _ _)). cbn [app parse_frame]. rewrite <- (E2 (Z.lor _ _)).
    rewrite (le_val_2 _ R), H2, H3. change (negb (1 =? 1)) with false. cbv iota.
    set (pad := if p_size p <? Packet_minpayload then _ else _).
    assert (Lp : Z.to_nat (p_size p - 2) = length (id_bytes index ethertype ++ b)).
    { rewrite app_length, id_bytes_length. unfold zlen in Lb. lia. }
    change (0 :: 0 :: (le_bytes 4 index ++ le_bytes 2 32770 ++ le_bytes 2 0 ++ le_bytes 2 ethertype ++ le_bytes 2 0 ++ []) ++ b ++ pad)
      with (id_bytes index ethertype ++ b ++ pad).
    rewrite app_assoc, Lp, splitn_app. cbn [option_map].
    assert (Fu : length (id_bytes index ethertype ++ b) = Datatypes.S (13 + length b)%nat).
    { rewrite app_length, id_bytes_length. reflexivity. }
    rewrite Fu, parse_id.
    rewrite (parse_enc ds b 16 _ Eb Hne).
    + cbn [option_map]. subst pad. destruct (Z.ltb_spec (p_size p) Packet_minpayload).
      * reflexivity.
      * replace (Z.to_nat (Packet_minpayload - p_size p)) with O by lia. reflexivity.
    + eapply Forall_impl; [|exact Dl]. intros a0 Ha0; cbv beta in *; lia.
    + (* fuel *)
      assert (F : forall l : list dgram, Z.of_nat (length l) <= dsize l).
      { induction l as [|x l IHl]; cbn [dsize fold_right length]; [lia|]. fold (dsize l).
        pose proof (zlen_nonneg (d_data x)). lia. }
      specialize (F ds). unfold zlen in Lb. lia.
  - unfold zlen in *. rewrite !app_length, !le_bytes_length. cbn [length].
    destruct (Z.ltb_spec (p_size p) Packet_minpayload) as [Hlt|Hge].
    + rewrite repeat_length. unfold Packet_minpayload in *. lia.
    + cbn [length]. unfold Packet_minpayload in *. lia.
Qed.
