From Verif Require Import Lib.Base Sys.MapBuf.
Definition sizes (ncpu : Z) (l : list api) : V :=
  VL (map (fun a => VL [VZ (key_buffer a); VZ (value_buffer a); VZ (key_needed a ncpu); VZ (value_needed a ncpu)]) l).
