(* C15 Mailbox exchanges with a terminal are serialised and counted.
   Model: Sys/MbxLock.v.  Part A: an asyncio lock with FIFO hand-over guarding
   the exchange of tasks in one process (MailboxLock, and the in-process half
   of ParallelMailboxLock).  Part B: the byte-range lock and the counter byte
   of the shared lock file, any number of processes, any interleaving of the
   atomic file operations, including the creator's late initialisation. *)
From Verif Require Import Sys.MbxLock Sys.MbxLock_proofs.

(* A: for EVERY interleaving of acquire / send / release of any number of
   users, the log is a sequence of whole exchanges (no interleaving) and the
   counters sent are 0, then the successor in 1..7 of the previous one *)
Theorem C15_in_process : forall evs, let s := fold_left astep evs ast0 in
  bracketed None (log s) = true /\ chain None (sent_counters (log s)) = true.
Proof. exact in_process_serialised. Qed.
Print Assumptions C15_in_process.

(* B: for EVERY interleaving of the lock-file operations of n processes
   (lock attempt, read, message, write back, unlock, creator's initialisation):
   the counters of all messages of all processes form one chain, and only the
   holder of the byte-range lock is ever inside an exchange *)
Theorem C15_cross_process : forall n evs, let s := fold_left bstep evs (bst0 n) in
  chain None (map snd (btrace s)) = true /\
  (forall q, pget s q <> PIdle -> flock s = Some q).
Proof. exact cross_process_chain. Qed.
Print Assumptions C15_cross_process.

(* a participant that reads the counter while the file is still empty gets 0 *)
Theorem C15_open_during_create : forall s p, file s = None -> pget s p = PLocked ->
  pget (bstep s (BRead p)) p = PHave 0.
Proof. exact open_during_create. Qed.
Print Assumptions C15_open_during_create.

(* the successor function the code uses stays within 1..7 *)
Theorem C15_counter_cycle : forall c, 0 <= c -> 1 <= next_counter c <= 7.
Proof. intros c H. unfold next_counter. lia. Qed.

Example C15_nonvacuous :
  let s := fold_left bstep [BLock 1; BRead 1; BSend 1; BLock 0; BWrite 1; BUnlock 1; BInit; BLock 0; BRead 0; BSend 0; BSend 0] (bst0 2) in
  btrace s = [(1%nat, 0); (0%nat, 1); (0%nat, 2)] /\ file s = Some 1 /\
  log (fold_left astep [Acquire 0; Acquire 1; Send 0; Release 0; Send 1; Release 1] ast0)
  = [Granted 0; Sent 0 0; Released 0; Granted 1; Sent 1 1; Released 1].
Proof. vm_compute. repeat split. Qed.
