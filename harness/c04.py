"""C04: writing one variable never changes another: programs with a main program,
subprogram instances, locals of all sizes and array-map variables are built with
the real generator and executed in the Coq ISA model; the real variable layout is
compared with Gen/Layout.v."""
from .common import Check, Err, clist, cz, eval_terms
from . import dsl, exprs, ebpf_exec, isa_check, sim_kernel, sim_bpf

import struct

FMTS = ["B", "H", "I", "Q", "b", "h", "i", "q", "x"]
ARRAYS_LOCAL = ["4I", "2q", "16B", "2H"]          # power-of-two sized array formats
ARRAYS_MAP = ARRAYS_LOCAL + ["3B", "5H", "3I", "64I"]


def fsize(fmt):
    return 8 if fmt == "x" else struct.calcsize(fmt)


def is_array(fmt):
    return fmt[0].isdigit()


def k_alias(case, o):
    return bool(case.get("_alias"))


class C04(Check):
    pid = "C04"
    props_file = "Props/C04.v"
    corr_imports = ["Ebpf.Isa", "Corr.Exec", "Gen.Layout", "Gen.BitField", "Corr.C04", "Corr.C09"]
    technique = ("Coq theorems about the variable layout functions (locals, scratch, array-map variables pairwise disjoint for ANY declaration list) + the frame "
                 "property of stores + comparison of the REAL layout with the model + execution of real generated programs that write one variable and read all others")
    trusted = ["coq/Ebpf/Isa.v (kernel-validated)"]
    assumptions = ["packet variables are C07's; hash-map helper calls are served by coq/Corr/C09.v (validated against the kernel by harness/hash_check.py)"]
    known_classes = {"subprogram_locals_alias": k_alias}

    def make_case(self, rng):
        def decls(prefix, lo, hi, arr):
            return [(f"{prefix}{k}", rng.choice(FMTS * 3 + arr)) for k in range(rng.randint(lo, hi))]
        classes = [{"locals": decls("l", 0, 3, ARRAYS_LOCAL), "arrays": decls("g", 0, 2, ARRAYS_MAP)} for _ in range(rng.randint(0, 2))]
        insts = [rng.randrange(len(classes)) for _ in range(rng.randint(1, 2))] if classes else []
        case = {"main": {"locals": decls("a", 1, 5, ARRAYS_LOCAL), "arrays": decls("m", 0, 4, ARRAYS_MAP)}, "classes": classes, "insts": insts}
        owners = ["main"] + [f"s{i}" for i in range(len(insts))]
        allv = []
        for o in owners:
            spec = case["main"] if o == "main" else classes[insts[int(o[1:])]]
            for n, f in spec["locals"] + spec["arrays"]:
                allv.append((o, n, f))
        case["init"] = {f"{o}.{n}": (rng.randrange(1, 256) if is_array(f) else exprs.rand_value(rng, "q" if f == "x" else f)) for o, n, f in allv}
        stmts = []
        scal = [v for v in allv if not is_array(v[2])]
        for _ in range(rng.randint(1, 4) if scal else 0):
            allv_, allv = allv, scal
            o, n, f = rng.choice(allv)
            if rng.random() < 0.6:
                stmts.append(["setc", o, n, exprs.rand_value(rng, "i" if f == "x" else f)])
            else:
                o2, n2, f2 = rng.choice(allv)
                stmts.append(["sete", o, n, rng.choice(["+", "-", "*", "&", "|"]), o2, n2, rng.choice([1, 3, 255, 1000])])
            allv = allv_
        case["stmts"] = stmts
        return case

    def gen_cases(self):
        n = 300 if self.tier == "quick" else 4000
        import random
        rng = random.Random(self.seed + 4)       # its own stream: the cases above stay what they were
        return ([self.make_case(self.rng) for _ in range(n)] + [dict_case(self.rng) for _ in range(n // 3)]
                + [c for _ in range(n // 8) for c in bits_pair(rng)]
                + [twomaps_case(rng) for _ in range(n // 10)])

    def corpus(self):
        # the golden-pinned aliasing of two instances of one subprogram class
        return [{"main": {"locals": [("a0", "I")], "arrays": []}, "classes": [{"locals": [("l0", "I")], "arrays": []}], "insts": [0, 0],
                 "init": {"main.a0": 5, "s0.l0": 3, "s1.l0": 7}, "stmts": [["setc", "s0", "l0", 9]]},
                {"kind": "dict", "items": [["L", "l0", "I"], ["D", "t1", ["Q"], ["I"]], ["H", "h2", "q", 0], ["H", "h3", "I", 1], ["H", "h4", "I", 0], ["H", "h5", "B", 1]],
                 "order": [["L", "l0"], ["H", "h3"], ["K", "t1", 0], ["H", "h5"], ["V", "t1", 0], ["H", "h2"], ["H", "h4"]],
                 "vals": {"l0": 0x11111111, "t1.k0": 5, "t1.v0": 77, "h2": -9, "h3": 1000, "h4": 3, "h5": 9}, "update": True},
                {"kind": "dict", "items": [["D", "t0", ["I"], ["I"]]], "order": [["V", "t0", 0], ["K", "t0", 0]], "vals": {"t0.k0": 5, "t0.v0": 77}, "update": True}]

    def build(self, case):
        from ebpfcat.arraymap import ArrayMap
        from ebpfcat.ebpf import EBPF, SubProgram, LocalVar, AssembleError
        from ebpfcat.bpf import ProgType
        amap = ArrayMap()
        ns = {"amap": amap}
        for n, f in case["main"]["locals"]:
            ns[n] = LocalVar(f)
        for n, f in case["main"]["arrays"]:
            ns[n] = amap.globalVar(f)
        Main = type("Main", (EBPF,), ns)
        classes = []
        for k, c in enumerate(case["classes"]):
            ns = {}
            for n, f in c["locals"]:
                ns[n] = LocalVar(f)
            for n, f in c["arrays"]:
                ns[n] = amap.globalVar(f)
            ns["program"] = lambda self: None
            classes.append(type(f"Sub{k}", (SubProgram,), ns))
        subs = [classes[i]() for i in case["insts"]]
        res = {}
        # the same subprogram classes were used before, in another (shallower) program of this process: nothing of that
        # program may show in the one under test
        with sim_kernel.installed():
            Pre = type("Pre", (EBPF,), {"p0": LocalVar("B")})
            pre_subs = [classes[i]() for i in case["insts"]]
            pre = Pre(ProgType.XDP, "GPL", subprograms=pre_subs)
            for sp, i in zip(pre_subs, case["insts"]):
                for n, f in case["classes"][i]["locals"]:
                    if not is_array(f):
                        setattr(sp, n, 1)
            pre.r0 = 2
            pre.exit()
        with sim_kernel.installed() as kernel:
            e = Main(ProgType.XDP, "GPL", subprograms=subs)
            objs = {"main": e}
            objs.update({f"s{i}": s for i, s in enumerate(subs)})
            for s in case["stmts"]:
                tgt = objs[s[1]]
                if s[0] == "setc":
                    setattr(tgt, s[2], s[3])
                else:
                    src = getattr(objs[s[4]], s[5])
                    val = {"+": src + s[6], "-": src - s[6], "*": src * s[6], "&": src & s[6], "|": src | s[6]}[s[3]]
                    setattr(tgt, s[2], val)
            e.r0 = 2
            e.exit()
            with e.get_stack(4) as sc:
                res["scratch"] = sc
            fds = {fd: k for k, fd in enumerate(kernel.maps)}
            instrs = []
            for ins in e.opcodes:
                op, dst, src, off, imm = ins
                if op.value == 0x18 and src == 1:
                    imm = fds.get(imm, 0)
                instrs.append((op.value, dst, src, off, imm))
        layout = {}
        for o, obj in objs.items():
            spec = case["main"] if o == "main" else case["classes"][case["insts"][int(o[1:])]]
            cls = type(obj)
            for n, f in spec["locals"]:
                layout[f"{o}.{n}"] = ("local", f, cls.__dict__[n].fmt_addr(obj)[1])
            for n, f in spec["arrays"]:
                layout[f"{o}.{n}"] = ("array", f, obj.__dict__[n])
        res.update(instrs=instrs, layout=layout, map_size=getattr(amap, "size", 0) or 0, main_stack=Main.stack)
        return res

    def prepare(self, cases):
        terms, idx = [], []
        for i, c in enumerate(cases):
            c["_run"] = None
            if c.get("kind") == "twomaps":
                try:
                    c["_b"] = twomaps_build(c)
                except Exception as e:      # noqa
                    import traceback
                    c["_b"] = Err(6, f"{type(e).__name__}: {e} {traceback.format_exc()[-300:]}")
                    continue
                b = c["_b"]
                terms.append(f"(exec_vars {ebpf_exec.cprog(b['instrs'])} [] [{ebpf_exec.cbytes(bytes(b['sizes'][0]))}; {ebpf_exec.cbytes(bytes(b['sizes'][1]))}] [] {ebpf_exec.cbytes(bytes(256))})")
                idx.append(i)
                continue
            if c.get("kind") == "bits":
                b = dsl.build(bits_decls(c), bits_stmts(c), xdp_min=c["G"])
                b = dsl.build(bits_decls(c), bits_stmts(c), xdp_min=c["G"])      # the second program of the class is the one executed
                c["_b"] = b if b.error is None else Err(6, b.error)
                if b.error is None:
                    stack = bytearray(256)
                    for n, f, v in c["locals"]:
                        st, _, addr = b.layout[n]
                        stack[256 + addr:256 + addr + fsize(f)] = dsl.to_bytes(f, v)
                    c["_stack0"] = bytes(stack)
                    terms.append(f"(exec_vars {ebpf_exec.cprog(b.instrs)} {ebpf_exec.cbytes(bytes.fromhex(c['packet']))} [] [] {ebpf_exec.cbytes(stack)})")
                    idx.append(i)
                continue
            if c.get("kind") == "dict":
                try:
                    c["_b"] = dict_build(c)
                except Exception as e:      # noqa
                    import traceback
                    c["_b"] = Err(6, f"{type(e).__name__}: {e} {traceback.format_exc()[-300:]}")
                    continue
                terms.append(dict_term(c, c["_b"]))
                idx.append(i)
                continue
            for k in ("main",):
                c[k]["locals"] = [tuple(x) for x in c[k]["locals"]]
                c[k]["arrays"] = [tuple(x) for x in c[k]["arrays"]]
            for cl in c["classes"]:
                cl["locals"] = [tuple(x) for x in cl["locals"]]
                cl["arrays"] = [tuple(x) for x in cl["arrays"]]
            try:
                b = self.build(c)
            except Exception as e:      # noqa
                c["_b"] = Err(6, f"{type(e).__name__}: {e}")
                continue
            c["_b"] = b
            stack = bytearray(256)
            amap = bytearray(b["map_size"])
            # later entries first so that, where variables alias, the first declared value is what memory holds
            for name in reversed(list(b["layout"])):
                st, f, addr = b["layout"][name]
                data = bytes([c["init"][name]]) * fsize(f) if is_array(f) else dsl.to_bytes("q" if f == "x" else f, c["init"][name])
                if st == "local":
                    stack[256 + addr:256 + addr + len(data)] = data
                else:
                    amap[addr:addr + len(data)] = data
            if b["map_size"]:
                # ArrayMap.init clears a scratch word when the program starts, before any declared variable can hold a value
                stack[256 + b["scratch"]:256 + b["scratch"] + 4] = bytes(4)
            c["_mem"] = (bytes(stack), bytes(amap))
            c["_base"] = {n: self.read(b, stack, amap, n) for n in b["layout"]}
            ms = "[" + ebpf_exec.cbytes(amap) + "]" if b["map_size"] else "[]"
            terms.append(f"(exec_vars {ebpf_exec.cprog(b['instrs'])} [] {ms} [] {ebpf_exec.cbytes(stack)})")
            idx.append(i)
        vals, log = eval_terms(self.pid, self.corr_imports, terms, shard=100)
        for i, v in zip(idx, vals):
            cases[i]["_run"] = v
        return log

    def read(self, b, stack, amap, name):
        st, f, addr = b["layout"][name]
        n = fsize(f)
        data = bytes(stack[256 + addr:256 + addr + n]) if st == "local" else bytes(amap[addr:addr + n])
        if is_array(f):
            return int.from_bytes(data, "little")
        return dsl.from_bytes("q" if f == "x" else f, data)

    def run_impl(self, case):
        if case.get("kind") == "twomaps":
            return twomaps_run(case)
        if case.get("kind") == "bits":
            return bits_run(case)
        if case.get("kind") == "dict":
            return dict_run(case)
        b = case["_b"]
        if isinstance(b, Err):
            return b
        r = case["_run"]
        if r is None:
            return Err(9, "model evaluation failed")
        status, pkt, maps, stack, regs = r
        if status != [1]:
            return Err(7, f"program did not exit normally: status {status}")
        amap = maps[0] if maps else []
        o = {"values": {n: self.read(b, stack, amap, n) for n in b["layout"]},
             "layout": {n: [v[0], v[2]] for n, v in b["layout"].items()}, "scratch": b["scratch"], "main_stack": b["main_stack"]}
        case["_o"] = o
        return o

    # ---- layout tie
    def model_term(self, case):
        b = case["_b"]
        if isinstance(b, Err) or case.get("_o") is None:
            return None
        if case.get("kind") == "twomaps":
            return None      # decided by the oracle: every variable of either map holds the value stored into it
        if case.get("kind") == "bits":
            return bits_term(case)
        if case.get("kind") == "dict":
            its = [f"ILocal {cz(fsize(it[2]))}" if it[0] == "L" else f"IDict {cz(sum(fsize(f) for f in it[2]))} {cz(sum(fsize(f) for f in it[3]))}"
                   for it in case["items"] if it[0] != "H"]
            return f"(layout_items {clist(its)} 4)"
        sz = lambda l: clist([cz(fsize(f)) for _, f in l])
        subs = clist([sz(case["classes"][i]["locals"]) for i in case["insts"]])
        arr = list(case["main"]["arrays"])
        for i in case["insts"]:
            arr += case["classes"][i]["arrays"]
        return f"(layout {sz(case['main']['locals'])} {subs} {sz(arr)} 4)"

    def model_value(self, case, o):
        if case.get("kind") == "bits":
            return list(bytes.fromhex(o["pkt"]))
        if case.get("kind") == "dict":
            return [o["addrs"], o["scratch"]]
        lay = o["layout"]
        main = [lay[f"main.{n}"][1] for n, _ in case["main"]["locals"]]
        subs = [[lay[f"s{k}.{n}"][1] for n, _ in case["classes"][i]["locals"]] for k, i in enumerate(case["insts"])]
        arr = [lay[f"main.{n}"][1] for n, _ in case["main"]["arrays"]]
        for k, i in enumerate(case["insts"]):
            arr += [lay[f"s{k}.{n}"][1] for n, _ in case["classes"][i]["arrays"]]
        return [main, subs, arr, o["scratch"]]

    # ---- oracle
    def holds(self, case, o):
        if case.get("kind") == "twomaps":
            return twomaps_holds(case, o)
        if case.get("kind") == "bits":
            return bits_holds(case, o)
        if case.get("kind") == "dict":
            return dict_holds(case, o)
        if isinstance(o, Err):
            if o.code == 6:
                return True if ("no value" in o.what or "not enough registers" in o.what) else f"generator refused the program: {o.what}"
            return o.what
        b = case["_b"]
        rng_ = sorted((st, addr, addr + fsize(f), n) for n, (st, f, addr) in b["layout"].items() if not (n.startswith("s") and st == "local"))
        for (s0, a0, a1, n0), (s1, b0, b1, n1) in zip(rng_, rng_[1:]):
            if s0 == s1 and b0 < a1:
                return f"variables {n0} [{a0},{a1}) and {n1} [{b0},{b1}) share bytes; layout {b['layout']}"
        vals = dict(case["_base"])        # what memory holds when the program starts
        fm = {n: v[1] for n, v in b["layout"].items()}

        def wrap(f, v):
            f = "q" if f == "x" else f
            return dsl.from_bytes(f, dsl.to_bytes(f, v))
        for s in case["stmts"]:
            tgt = f"{s[1]}.{s[2]}"
            if s[0] == "setc":
                v = s[3] * (100000 if fm[tgt] == "x" else 1)
            else:
                vals[tgt] = None       # the value of an expression is C01's / C02's business: only non-interference is checked
                continue
            vals[tgt] = wrap(fm[tgt], v)
        bad = [(n, o["values"][n], v) for n, v in vals.items() if v is not None and o["values"][n] != v]
        if not bad:
            return True
        # Is the observed state what results when (only) subprogram locals share their bytes?  Replay the
        # statements on byte-level memory with the real layout.
        lay = o["layout"]
        stack, amap = bytearray(case["_mem"][0]), bytearray(case["_mem"][1])

        def rd(name):
            st, addr = lay[name]
            if is_array(fm[name]):
                n = fsize(fm[name])
                return int.from_bytes(bytes(stack[256 + addr:256 + addr + n]) if st == "local" else bytes(amap[addr:addr + n]), "little")
            f = "q" if fm[name] == "x" else fm[name]
            n = dsl.fmt_size(f)
            return dsl.from_bytes(f, bytes(stack[256 + addr:256 + addr + n]) if st == "local" else bytes(amap[addr:addr + n]))

        def wr(name, v):
            st, addr = lay[name]
            f = "q" if fm[name] == "x" else fm[name]
            data = dsl.to_bytes(f, v)
            if st == "local":
                stack[256 + addr:256 + addr + len(data)] = data
            else:
                amap[addr:addr + len(data)] = data
        unknown = set()
        for s in case["stmts"]:
            tgt = f"{s[1]}.{s[2]}"
            if s[0] == "setc":
                wr(tgt, s[3] * (100000 if fm[tgt] == "x" else 1))
            else:
                unknown.add(tgt)

        def overlaps(a, b_):
            (sa, pa), (sb, pb) = lay[a], lay[b_]
            return a != b_ and sa == sb and pa < pb + fsize(fm[b_]) and pb < pa + fsize(fm[a])
        names = list(lay)
        only_sub_alias = all(a.startswith("s") and b_.startswith("s") and lay[a][0] == "local" for a in names for b_ in names if overlaps(a, b_))
        touched_unknown = {n for n in names if n in unknown or any(overlaps(n, u) for u in unknown)}
        explained = all(n in touched_unknown or rd(n) == o["values"][n] for n in names)
        case["_alias"] = only_sub_alias and explained and any(overlaps(a, b_) for a in names for b_ in names)
        n, got, want = bad[0]
        return (f"variable {n} holds {got}, expected {want} (never written or last written value) after {case['stmts']}; layout {lay}")

    def nontrivial(self, case, o):
        return not isinstance(o, Err)

    def extra_checks(self):
        return [isa_check.check(self.seed + 7, 40 if self.tier == "quick" else 300)]

    def rule(self):
        return ("main program with 1-5 locals and 0-4 array-map variables of formats BHIQbhiqx, 0-2 subprogram classes (0-3 locals, 0-2 array variables) with 1-2 "
                "instances (possibly of the same class); all variables preset with distinct values; 1-4 statements writing a constant or an expression of "
                "another variable; afterwards every variable must hold its last written or its initial value; a further third of that number: programs declaring 1-2 Dict "
                "structures (1-3 key and value members) between 0-4 locals and hash-map variables (of two hash maps) in random declaration order, every local, member and hash variable "
                "written once in random order, optionally update(): every one must hold its value at the end and the map entry must be key -> value; a further quarter: XDP "
                "programs with 2-5 bit-field packet variables of 1-8 bits sharing bytes (plus whole-byte neighbours), 1-5 stores of constants (half of them not "
                "fitting the field: negative, 2**bits and above) or run-time values and loads, each run on a packet and on its complement")

    def distribution(self, cases, observed):
        d = {"with_subprograms": 0, "same_class_twice": 0, "array_vars": 0, "locals": 0, "build_errors": 0, "dict_programs": 0, "dict_updates": 0, "hash_vars": 0}
        for c, o in zip(cases, observed):
            if c.get("kind") == "twomaps":
                d["two_map_programs"] = d.get("two_map_programs", 0) + 1
                continue
            if c.get("kind") == "bits":
                d["bit_field_programs"] = d.get("bit_field_programs", 0) + 1
                d["bit_field_stores"] = d.get("bit_field_stores", 0) + sum(1 for s in c["stmts"] if s[0] != "read")
                d["build_errors"] += isinstance(o, Err)
                continue
            if c.get("kind") == "dict":
                d["dict_programs"] += 1
                d["dict_updates"] += bool(c["update"])
                d["hash_vars"] += sum(1 for it in c["items"] if it[0] == "H")
                d["build_errors"] += isinstance(o, Err)
                continue
            d["with_subprograms"] += bool(c["insts"])
            d["same_class_twice"] += len(c["insts"]) == 2 and c["insts"][0] == c["insts"][1]
            d["array_vars"] += len(c["main"]["arrays"])
            d["locals"] += len(c["main"]["locals"])
            d["build_errors"] += isinstance(o, Err)
        return d

    def describe(self, case):
        return {k: v for k, v in case.items() if not k.startswith("_")}


# ---------------------------------------------------------------- locals + Dict structures + hash-map variables
DFMTS = ["B", "H", "I", "Q", "b", "h", "i", "q"]


# ---- two array maps in one program: the stock ArrayMap and a subclass with another base register (the documented hook that
# PerCPUArrayMap uses too); every variable lives in the map that declared it
def twomaps_case(rng):
    mk = lambda p: [[f"{p}{k}", rng.choice(["B", "H", "I", "Q", "i", "q"])] for k in range(rng.randint(1, 3))]      # noqa
    first, second = mk("a"), mk("z")
    order = [v[0] for v in first + second]
    rng.shuffle(order)
    fm = dict(first + second)
    return {"kind": "twomaps", "first": first, "second": second, "base": rng.choice([6, 8]),
            "writes": [[n, exprs.rand_value(rng, fm[n])] for n in order if rng.random() < 0.8] or [[order[0], 1]]}


def twomaps_build(case):
    from ebpfcat.arraymap import ArrayMap
    from ebpfcat.ebpf import EBPF
    from ebpfcat.bpf import ProgType
    Second = type("SecondMap", (ArrayMap,), {"base_register": case["base"]})
    m1, m2 = ArrayMap(), Second()
    ns = {"m1": m1, "m2": m2}
    for n, f in case["first"]:
        ns[n] = m1.globalVar(f)
    for n, f in case["second"]:
        ns[n] = m2.globalVar(f)
    P = type("P", (EBPF,), ns)
    with sim_kernel.installed() as kernel:
        e = P(ProgType.XDP, "GPL")
        for n, v in case["writes"]:
            setattr(e, n, v)
        e.r0 = 2
        e.exit()
        fds = {fd: k for k, fd in enumerate(kernel.maps)}
        instrs = []
        for ins in e.opcodes:
            op, dst, src, off, imm = ins
            if op.value == 0x18 and src == 1:
                imm = fds.get(imm, 0)
            instrs.append((op.value, dst, src, off, imm))
        order = [fds[m.fd] if hasattr(m, "fd") and m.fd in fds else k for k, m in enumerate((m1, m2))]
    return {"instrs": instrs, "sizes": [m1.size, m2.size], "pos": {n: e.__dict__[n] for n, f in case["first"] + case["second"]}, "order": order}


def twomaps_run(case):
    b = case["_b"]
    if isinstance(b, Err):
        return b
    r = case["_run"]
    if r is None:
        return Err(9, "model evaluation failed")
    status, pkt, maps, stack, regs = r
    if status != [1]:
        return Err(7, f"program did not exit normally: status {status}")
    vals = {}
    for which, vs in ((0, case["first"]), (1, case["second"])):
        data = bytes(maps[b["order"][which]])
        for n, f in vs:
            vals[n] = dsl.from_bytes(f, data[b["pos"][n]:b["pos"][n] + fsize(f)])
    case["_o"] = vals
    return vals


def twomaps_holds(case, o):
    if isinstance(o, Err):
        if o.code == 6:
            return True if ("no value" in o.what or "not enough registers" in o.what) else f"generator refused a program with two array maps: {o.what}"
        return o.what
    want = {n: 0 for n, f in case["first"] + case["second"]}
    want.update({n: v for n, v in case["writes"]})
    for n, v in want.items():
        if o[n] != v:
            where = "first (stock ArrayMap)" if n[0] == "a" else f"second (ArrayMap subclass with base_register = {case['base']})"
            return (f"variable {n} of the {where} map holds {o[n]}, the program stored {v} into it (writes {case['writes']}): a store into one map's "
                    f"variable landed elsewhere")
    return True


# ---- bit-field variables: several declared variables share a byte of the packet
def bits_case(rng):
    G = rng.choice([8, 12, 16])
    fields, used = [], {}
    for k in range(rng.randint(2, 5)):
        addr = rng.choice([0, 1, G - 1, rng.randrange(G)])
        free = [p for p in range(8) if p not in used.setdefault(addr, set())]
        if not free:
            continue
        pos = rng.choice(free)
        maxbits = 1
        while pos + maxbits < 8 and pos + maxbits not in used[addr]:
            maxbits += 1
        bits = rng.choice([1, maxbits, rng.randint(1, maxbits), min(maxbits, rng.randint(2, 4)), min(maxbits, rng.randint(2, 4))])
        used[addr].update(range(pos, pos + bits))
        fields.append([f"f{k}", addr, pos, bits])
    whole = [[f"b{k}", a, "B"] for k, a in enumerate(sorted(set(range(G)) - set(used))[:rng.randint(0, 2)])]
    locs = [[f"l{k}", f, exprs.rand_value(rng, f)] for k, f in enumerate(rng.choice(["B", "H", "I", "b", "Q"]) for _ in range(rng.randint(1, 3)))]
    stmts = []
    for _ in range(rng.randint(1, 5)):
        name, addr, pos, bits = rng.choice(fields)
        r = rng.random()
        if r < 0.55:
            # constants that fit, and constants that do not: negative, 2**bits and above, all ones
            stmts.append(["setc", name, rng.choice([0, 1, (1 << bits) - 1, rng.randrange(1 << bits), rng.randrange(1 << bits), -1, -2, -(1 << bits), 1 << bits,
                                                    (1 << bits) + 1, (1 << bits) + rng.randrange(1 << bits), 0xff, 0x155, 13, 8])])
        elif r < 0.75:
            stmts.append(["setv", name, rng.choice(locs)[0]])
        elif r < 0.9:
            stmts.append(["read", rng.choice(locs)[0], name])
        elif whole:
            stmts.append(["setc", rng.choice(whole)[0], rng.randrange(256)])
    L = rng.choice([G + 1, G + 1, G + 4, 64])
    r = rng.random()
    packet = bytes(rng.choice([0, 0xff, 0xaa, 0x55]) if r < 0.4 else rng.randrange(256) for _ in range(L))
    return {"kind": "bits", "G": G, "fields": fields, "whole": whole, "locals": locs, "stmts": stmts, "packet": packet.hex()}


def bits_pair(rng):
    """the same program on a packet and on its complement: a store that sets or clears a bit outside its field shows in one of them"""
    c = bits_case(rng)
    c2 = dict(c, packet=bytes(x ^ 0xff for x in bytes.fromhex(c["packet"])).hex())
    return [c, c2]


def bits_decls(case):
    return ([(n, "local", f) for n, f, v in case["locals"]] + [(n, "packet", (a, (p, b))) for n, a, p, b in case["fields"]]
            + [(n, "packet", (a, f)) for n, a, f in case["whole"]])


def bits_stmts(case):
    out = []
    for s in case["stmts"]:
        if s[0] == "setc":
            out.append(["set", ["v", s[1]], ["c", s[2]]])
        elif s[0] == "setv":
            out.append(["set", ["v", s[1]], ["v", s[2]]])
        else:
            out.append(["set", ["v", s[1]], ["v", s[2]]])
    return out


def bits_run(case):
    b = case["_b"]
    if isinstance(b, Err):
        return b
    r = case["_run"]
    if r is None:
        return Err(9, "model evaluation failed")
    status, pkt, maps, stack, regs = r
    if status != [1]:
        return Err(7, f"program did not exit normally: status {status}")
    pkt = bytes(x for x, n in pkt for _ in range(n))
    o = {"pkt": pkt.hex(), "locals": {n: dsl.from_bytes(f, bytes(stack[256 + b.layout[n][2]:256 + b.layout[n][2] + fsize(f)])) for n, f, v in case["locals"]}}
    case["_o"] = o
    return o


def bits_walk(case):
    """the meaning: a store changes the bits of its field and nothing else (value modulo 2**bits; a one-bit field takes the truth
    value), a load reads the field.  Returns (packet, locals, the field stores as (addr, pos, bits, value-or-truth))"""
    pkt = bytearray(bytes.fromhex(case["packet"]))
    fld = {n: (a, p, b) for n, a, p, b in case["fields"]}
    whole = {n: a for n, a, f in case["whole"]}
    loc = {n: v for n, f, v in case["locals"]}
    lf = {n: f for n, f, v in case["locals"]}
    ops = []
    for s in case["stmts"]:
        if s[0] == "read":
            a, p, b = fld[s[2]]
            v = (pkt[a] >> p) & ((1 << b) - 1)
            loc[s[1]] = dsl.from_bytes(lf[s[1]], dsl.to_bytes(lf[s[1]], v))
            continue
        v = s[2] if s[0] == "setc" else loc[s[2]]
        if s[1] in whole:
            pkt[whole[s[1]]] = v % 256
            ops.append(("whole", whole[s[1]], v % 256))
            continue
        a, p, b = fld[s[1]]
        if b == 1:
            pkt[a] = (pkt[a] | (1 << p)) if v else (pkt[a] & ~(1 << p) & 0xff)
            ops.append(("flag", a, p, bool(v)))
        else:
            mask = ((1 << b) - 1) << p
            pkt[a] = (pkt[a] & ~mask & 0xff) | ((v << p) & mask)
            ops.append(("set", a, p, b, v))
    return bytes(pkt), loc, ops


def bits_term(case):
    _, _, ops = bits_walk(case)
    cops = []
    for o in ops:
        if o[0] == "flag":
            cops.append(f"BFlag {cz(o[1])} {cz(o[2])} {'true' if o[3] else 'false'}")
        elif o[0] == "set":
            cops.append(f"BSet {cz(o[1])} {cz(o[2])} {cz(o[3])} {cz(o[4])}")
        else:
            cops.append(f"BSet {cz(o[1])} 0 8 {cz(o[2])}")
    return f"(run_bits {ebpf_exec.czlist(bytes.fromhex(case['packet']))} {clist(cops)})"


def bits_holds(case, o):
    if isinstance(o, Err):
        if o.code == 6:
            return True if ("no value" in o.what or "not enough registers" in o.what) else f"generator refused a program with bit-field variables: {o.what}"
        return o.what
    pkt, loc, _ = bits_walk(case)
    got = bytes.fromhex(o["pkt"])
    if got != pkt:
        k = next(i for i in range(len(pkt)) if got[i] != pkt[i])
        others = [n for n, a, p, b in case["fields"] if a == k]
        return (f"packet byte {k} is {got[k]:#04x}, expected {pkt[k]:#04x} (was {bytes.fromhex(case['packet'])[k]:#04x}): a store into one of the variables "
                f"{others} sharing this byte changed bits outside its field; statements {case['stmts']}, fields {case['fields']}")
    for n, v in loc.items():
        if o["locals"][n] != v:
            return f"local {n} is {o['locals'][n]}, expected {v}; statements {case['stmts']}, fields {case['fields']}"
    return True


def dict_case(rng):
    def members():
        return sorted([rng.choice(DFMTS) for _ in range(rng.randint(1, 3))], key=lambda f: -fsize(f))

    def nz(f):
        while True:
            v = exprs.rand_value(rng, f) if rng.random() < 0.3 else rng.randrange(1, 1 << (8 * fsize(f) - 1))
            if v:
                return v
    items, nd = [], rng.randint(1, 2)
    kinds = ["D"] * nd + [rng.choice("LLLH") for _ in range(rng.randint(0, 4))]
    rng.shuffle(kinds)
    for k, kind in enumerate(kinds):
        if kind == "L":
            items.append(["L", f"l{k}", rng.choice(DFMTS)])
        elif kind == "H":
            items.append(["H", f"h{k}", rng.choice(DFMTS + ["x"]), rng.randrange(2)])      # which of two hash maps declares it
        else:
            items.append(["D", f"t{k}", members(), members()])
    targets, vals = [], {}
    for it in items:
        if it[0] == "L":
            targets.append(["L", it[1]])
            vals[it[1]] = nz(it[2])
        elif it[0] == "H":
            targets.append(["H", it[1]])
            vals[it[1]] = rng.choice([0.29, 2.5, 1.0]) if it[2] == "x" else nz(it[2])
        else:
            for i, f in enumerate(it[2]):
                targets.append(["K", it[1], i])
                vals[f"{it[1]}.k{i}"] = nz(f)
            for i, f in enumerate(it[3]):
                targets.append(["V", it[1], i])
                vals[f"{it[1]}.v{i}"] = nz(f)
    rng.shuffle(targets)
    return {"kind": "dict", "items": items, "order": targets, "vals": vals, "update": rng.random() < 0.6}


def dict_build(case):
    from ebpfcat.ebpf import EBPF, Structure, Member, LocalVar
    key_classes = {}
    from ebpfcat.hashmap import HashMap, Dict
    from ebpfcat.bpf import ProgType
    sim = sim_bpf.BpfSim()
    res = {"sim": sim}
    with sim_bpf.installed(sim):
        ns, hms, structs = {}, {}, {}
        for it in case["items"]:
            if it[0] == "L":
                ns[it[1]] = LocalVar(it[2])
            elif it[0] == "H":
                m = it[3] if len(it) > 3 else 0
                if m not in hms:
                    hms[m] = ns[f"hm{m}"] = HashMap()
                ns[it[1]] = hms[m].globalVar(it[2], default=0)
            else:
                # Dicts of one program whose keys have the same member formats share ONE Key class (as a program re-using a structure
                # for several tables does); each Dict still has a key area of its own
                Key = key_classes.get(tuple(it[2]))
                if Key is None:
                    Key = key_classes[tuple(it[2])] = type("Key", (Structure,), {f"k{i}": Member(f) for i, f in enumerate(it[2])})
                # every second Dict with two or more value members: the value structure EXTENDS a base structure holding the first
                # member (same members, same order - the layout must be the same as that of the flat structure)
                if len(it[3]) >= 2 and len(it[1]) % 2 == 0:
                    VBase = type("VBase", (Structure,), {"v0": Member(it[3][0])})
                    Value = type("Value", (VBase,), {f"v{i}": Member(f) for i, f in enumerate(it[3]) if i >= 1})
                else:
                    Value = type("Value", (Structure,), {f"v{i}": Member(f) for i, f in enumerate(it[3])})
                structs[it[1]] = (Key, Value)
                ns[it[1]] = Dict(key=Key, value=Value, size=4)
        P = type("P", (EBPF,), ns)
        e = P(ProgType.XDP, "GPL")
        for t in case["order"]:
            if t[0] in ("L", "H"):
                setattr(e, t[1], case["vals"][t[1]])
            elif t[0] == "K":
                setattr(getattr(e, t[1]).key, f"k{t[2]}", case["vals"][f"{t[1]}.k{t[2]}"])
            else:
                setattr(getattr(e, t[1]).value, f"v{t[2]}", case["vals"][f"{t[1]}.v{t[2]}"])
        if case["update"]:
            for it in case["items"]:
                if it[0] == "D":
                    getattr(e, it[1]).update()
        e.r0 = 2
        e.exit()
        with e.get_stack(4) as sc:
            res["scratch"] = sc
        e.load()
        addrs = []
        for it in case["items"]:
            if it[0] == "L":
                addrs.append(P.__dict__[it[1]].relative_addr)
            elif it[0] == "D":
                d = P.__dict__[it[1]]
                addrs += [d.key_offset, d.value_offset]
        fds = list(sim.maps)
        res["hash_ids"] = {100 + j: fd for j, fd in enumerate(fds)}
        fdmap = {fd: 100 + j for j, fd in enumerate(fds)}
        instrs = []
        for ins in e.opcodes:
            op, dst, src, off, imm = ins
            if op.value == 0x18 and src == 1:
                imm = fdmap.get(imm, 0)
            instrs.append((op.value, dst, src, off, imm))
        res.update(instrs=instrs, e=e, addrs=addrs, structs=structs)
    return res


def dict_term(case, b):
    tabs, regions = [], []
    for hid, fd in b["hash_ids"].items():
        m = b["sim"].maps[fd]
        ents = []
        for k, v in m["data"].items():
            ents.append(f"({ebpf_exec.cbytes(k)}, {len(regions)}%nat)")
            regions.append(v)
        tabs.append(f"{{| h_id := {cz(hid)}; h_key := {m['key']}%nat; h_value := {m['value']}%nat; h_max := {cz(m['max'])}; h_tab := {clist(ents)} |}}")
    ms = clist([ebpf_exec.cbytes(r) for r in regions])
    return f"(exec_hash {ebpf_exec.cprog(b['instrs'])} {ms} {clist(tabs)} {ebpf_exec.cbytes(bytes(256))})"


def dict_run(case):
    b = case["_b"]
    if isinstance(b, Err):
        return b
    r = case["_run"]
    if r is None:
        return Err(9, "model evaluation failed")
    status, regions, tabs, stack, r0 = r
    if status != [1]:
        return Err(7, f"the program did not exit normally (access outside the stack frame?): status {status}; {dict_describe(case)}")
    S = len(stack)
    vals, k = {}, 0
    for it in case["items"]:
        if it[0] == "L":
            a = b["addrs"][k]
            k += 1
            vals[it[1]] = dsl.from_bytes(it[2], bytes(stack[S + a:S + a + fsize(it[2])]))
        elif it[0] == "D":
            ka, va = b["addrs"][k], b["addrs"][k + 1]
            k += 2
            off = 0
            for i, f in enumerate(it[2]):
                vals[f"{it[1]}.k{i}"] = dsl.from_bytes(f, bytes(stack[S + ka + off:S + ka + off + fsize(f)]))
                off += fsize(f)
            off = 0
            for i, f in enumerate(it[3]):
                vals[f"{it[1]}.v{i}"] = dsl.from_bytes(f, bytes(stack[S + va + off:S + va + off + fsize(f)]))
                off += fsize(f)
    # ---- hand the maps back to the Python side
    sim = b["sim"]
    for hid, ents in tabs:
        sim.maps[b["hash_ids"][hid]]["data"] = {bytes(kk): bytes(regions[i]) for kk, i in ents}
    entries, errors = {}, []
    e = b["e"]
    with sim_bpf.installed(sim):
        for it in case["items"]:
            try:
                if it[0] == "H":
                    vals[it[1]] = getattr(e, it[1])
                elif it[0] == "D":
                    ent = {}
                    for kk in getattr(e, it[1]):
                        v = getattr(e, it[1])[kk]
                        ent[str([getattr(kk, f"k{i}") for i in range(len(it[2]))])] = [getattr(v, f"v{i}") for i in range(len(it[3]))]
                    entries[it[1]] = ent
            except Exception as ex:      # noqa
                errors.append(f"{it[1]}: {type(ex).__name__}: {ex}")
    o = {"values": vals, "entries": entries, "errors": errors, "addrs": b["addrs"], "scratch": b["scratch"]}
    case["_o"] = o
    return o


def dict_describe(case):
    return {k: v for k, v in case.items() if not k.startswith("_")}


def dict_holds(case, o):
    if isinstance(o, Err):
        if o.code == 6 and "not enough registers" in o.what:
            return True
        return o.what if o.code == 7 else f"{o.what}; {dict_describe(case)}"
    if o["errors"]:
        return f"{o['errors'][0]}; {dict_describe(case)}"
    for n, want in case["vals"].items():
        got = o["values"][n]
        if (abs(got - want) > 1e-9) if isinstance(want, float) else got != want:
            return (f"{n} holds {got} at the end, {want} was written and nothing else was assigned to it (write order {case['order']}, "
                    f"declarations {case['items']}, addresses {o['addrs']})")
    if case["update"]:
        for it in case["items"]:
            if it[0] == "D":
                key = str([case["vals"][f"{it[1]}.k{i}"] for i in range(len(it[2]))])
                val = [case["vals"][f"{it[1]}.v{i}"] for i in range(len(it[3]))]
                if o["entries"].get(it[1]) != {key: val}:
                    return f"update() of {it[1]} stored {o['entries'].get(it[1])}, the key and value members had been set to {key}: {val}; {dict_describe(case)}"
    return True


CHECK = C04
