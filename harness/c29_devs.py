"""Importable device classes for C29 (a spawned child process must be able to
unpickle the sync group and its devices)."""
from ebpfcat.ebpfcat import Device, DeviceVar


class DevA(Device):
    a_B = DeviceVar("B", write=True)
    a_q = DeviceVar("q", write=True)
    a_H = DeviceVar("H")
    a_i = DeviceVar("i", write=True)
    a_x = DeviceVar("x", write=True)


class DevB(Device):
    b_Q = DeviceVar("Q", write=True)
    b_b = DeviceVar("b")
    b_I = DeviceVar("I", write=True)
    b_h = DeviceVar("h", write=True)


class DevC(DevA):
    c_I = DeviceVar("I", write=True)
    a_H = DeviceVar("Q", write=True)       # redefined with a larger format
    c_x = DeviceVar("x")


class DevD(Device):
    # the remaining struct formats: C longs and size_t (8 bytes natively), floating point, bool, several members with padding
    d_B = DeviceVar("B", write=True)
    d_l = DeviceVar("l", write=True)
    d_h = DeviceVar("h", write=True)
    d_L = DeviceVar("L", write=True)
    d_f = DeviceVar("f", write=True)
    d_N = DeviceVar("N")
    d_t = DeviceVar("?", write=True)
    d_Bq = DeviceVar("Bq", write=True)
    d_I = DeviceVar("I", write=True)
    d_d = DeviceVar("d", write=True)
    d_HHI = DeviceVar("HHI")
    d_b = DeviceVar("b", write=True)


class DevE(Device):
    # formats whose size is not a power of two (several members / byte strings)
    e_3B = DeviceVar("3B", write=True)
    e_I = DeviceVar("I", write=True)
    e_3H = DeviceVar("3H", write=True)
    e_5s = DeviceVar("5s", write=True)
    e_HB = DeviceVar("=HB")
    e_B = DeviceVar("B", write=True)


CLASSES = {"A": DevA, "B": DevB, "C": DevC, "D": DevD, "E": DevE}


def variables(cls):
    out, seen = [], set()
    for c in cls.__mro__:
        for k, v in c.__dict__.items():
            if isinstance(v, DeviceVar) and k not in seen:
                seen.add(k)
                out.append((k, v.fmt))
    return out


class DummyEC:
    ethertype = 0x88a4


def child(sg, script, conn):
    """runs in the spawned process: reads and writes device variables of the unpickled sync group"""
    out = []
    try:
        for step in script:
            dev = sg.devices[step[1]]
            if step[0] == "r":
                out.append(getattr(dev, step[2]))
            else:
                setattr(dev, step[2], step[3])
        conn.send(("ok", out))
    except Exception as e:      # noqa
        conn.send(("error", f"{type(e).__name__}: {e}"))
    finally:
        conn.close()
