"""C19: process variables (bits and multi-byte values) of random terminals, linked
to a device, read and written (a) from Python in a slow SyncGroup and (b) by the
REAL generated program of a FastSyncGroup executed in the Coq ISA model, on the
same frame."""
import asyncio
import logging
import struct

from .common import Check, Err, clist, cz, cnat, cbool, eval_terms
from . import ebpf_exec, isa_check, sim_kernel

logging.disable(logging.CRITICAL)
FMTS = ["B", "H", "I", "b", "h", "i", "Q", "q"]
SIZE = {"B": 1, "H": 2, "I": 4, "b": 1, "h": 2, "i": 4, "Q": 8, "q": 8}


def rand_value(rng, fmt):
    n = SIZE[fmt]
    lo, hi = (-(1 << 8 * n - 1), (1 << 8 * n - 1) - 1) if fmt.islower() else (0, (1 << 8 * n) - 1)
    # and the ends of the signed 32-bit immediate field, where the generated code switches from an immediate to a loaded constant
    edges = [b for b in (2 ** 31, 2 ** 31 - 1, 2 ** 31 + 1, -2 ** 31, -2 ** 31 - 1, 2 ** 32 - 1, 2 ** 32) if lo <= b <= hi]
    if edges and rng.random() < 0.3:
        return rng.choice(edges)
    return rng.choice([lo, hi, 0, 1, rng.randint(lo, hi), rng.randint(max(lo, -200), min(hi, 200))])


class C19(Check):
    pid = "C19"
    props_file = "Props/C19.v"
    corr_imports = ["Ebpf.Isa", "Corr.Exec", "Ecat.ProcVar", "Corr.C19"]
    shard = 100
    technique = ("Coq theorems (bit set/clear touches exactly one bit of one byte; generated-code formulas = Python-path formulas; multi-byte codecs agree) + "
                 "execution of the REAL slow path (PacketVar.get/set on current_data) and the REAL generated FastSyncGroup program (in the Coq ISA model) on the same frames")
    trusted = ["coq/Ebpf/Isa.v (kernel-validated)", "harness/rig.py, sim_bus.py, sim_kernel.py (provide the objects the sync groups are built from)"]
    assumptions = ["little-endian host (the generated code uses native loads, the Python path '<' formats)"]
    known_classes = {}

    # case: terminals [{in, out, fmmu}], vars [{term, sm('in'/'out'), pos, size(fmt or bit int), struct_off}], stmts [("rd", var) | ("wr", var, value, via)]
    def make_case(self, rng):
        terms = [{"in": rng.randint(2, 12), "out": rng.randint(2, 12), "fmmu": rng.random() < 0.7} for _ in range(rng.randint(1, 2))]
        nv = rng.randint(1, 5)
        vars_, stmts = [], []
        for k in range(nv):
            t = rng.randrange(len(terms))
            sm = rng.choice(["in", "out"])
            size_avail = terms[t][sm]
            if rng.random() < 0.4:
                size = rng.randint(0, 7)
                pos = rng.randrange(size_avail)
            else:
                cands = [f for f in FMTS if SIZE[f] <= size_avail]
                size = rng.choice(cands)
                pos = rng.choice([0, size_avail - SIZE[size], rng.randint(0, size_avail - SIZE[size])])
            off = 0
            if rng.random() < 0.25:
                off = rng.randint(0, pos)
                pos -= off
            v = {"term": t, "sm": sm, "pos": pos, "size": size, "struct_off": off, "via_struct": off > 0 or rng.random() < 0.2,
                 "other_off": rng.choice([0, 0, 1, 4, 8]), "coe": rng.choice([0, 0, 0x10])}     # the Struct's offset for the other direction / for CoE indices
            if rng.random() < 0.4:
                # described by the terminal's PDO table (ProcessDesc), possibly with a size / bit override
                v["process"] = True
                v["override"] = rng.random() < 0.6
                v["pdo_size"] = rng.choice(["H", "B", 3, "I"]) if v["override"] else size
            vars_.append(v)
        # a Struct with TWO members on one PDO entry, of different sizes (a status word and one of its bits): the twin is a
        # further variable at the same place, reached as member m2 of the primary's Struct
        twins = {}
        for k in range(nv):
            v = vars_[k]
            if v.get("process") and v["via_struct"] and rng.random() < 0.6:
                start, avail = v["pos"] + v["struct_off"], terms[v["term"]][v["sm"]]
                if isinstance(v["size"], int):
                    cands = [f for f in ("B", "H", "b", "h", "I") if start + SIZE[f] <= avail]
                else:
                    cands = list(range(8))
                if cands:
                    v["override"] = True
                    v.setdefault("pdo_size", v["size"])
                    twins[k] = len(vars_)
                    vars_.append(dict(v, size=rng.choice(cands), twin_of=k))
        # two CHANNELS: a second instance of the same Struct class (another offset) on the same terminal, both linked to the one
        # device as whole structures and read through the same member
        chans = {}
        for k in range(nv):
            v = vars_[k]
            if v["via_struct"] and not v.get("process") and k not in twins and rng.random() < 0.4:
                need = 1 if isinstance(v["size"], int) else SIZE[v["size"]]
                offs = [o_ for o_ in range(0, terms[v["term"]][v["sm"]] - v["pos"] - need + 1) if o_ != v["struct_off"]]
                if offs:
                    v["chan"] = True
                    chans[k] = len(vars_)
                    vars_.append(dict(v, struct_off=rng.choice(offs), chan_of=k))
        for _ in range(rng.randint(1, 6)):
            k = rng.randrange(nv)
            if k in chans:
                order = [k, chans[k]] if rng.random() < 0.5 else [chans[k], k]
                stmts += [["rd", order[0]], ["rd", order[1]]]
                continue
            if k in twins:
                # both members are read, in either order
                order = [k, twins[k]] if rng.random() < 0.5 else [twins[k], k]
                stmts += [["rd", order[0]], ["rd", order[1]]]
                continue
            v = vars_[k]
            if v["sm"] == "in" or rng.random() < 0.4:
                stmts.append(["rd", k])
            else:
                if isinstance(v["size"], int):
                    val = rng.choice([0, 1, 1, 2, 256, True, False])
                else:
                    val = rand_value(rng, v["size"])
                stmts.append(["wr", k, val, rng.choice(["const", "var"])])
        return {"terms": terms, "vars": vars_, "stmts": stmts, "frameseed": rng.randrange(2 ** 30)}

    def edge_case(self, rng):
        """a constant at the ends of the 32-bit immediate field written to a 4- or 8-byte output variable (where the generated code
        switches between an immediate store and a loaded constant)"""
        fmt = rng.choice(["Q", "q", "Q", "q", "I", "i"])
        lo, hi = (-(1 << 8 * SIZE[fmt] - 1), (1 << 8 * SIZE[fmt] - 1) - 1) if fmt.islower() else (0, (1 << 8 * SIZE[fmt]) - 1)
        edges = [b for b in (2 ** 31, 2 ** 31 - 1, 2 ** 31 + 1, -2 ** 31, -2 ** 31 - 1, -2 ** 31 + 1, 2 ** 32 - 1, 2 ** 32, -2 ** 32, 2 ** 63 - 1, -1) if lo <= b <= hi]
        var = {"term": 0, "sm": "out", "pos": rng.choice([0, 12 - SIZE[fmt], rng.randint(0, 12 - SIZE[fmt])]), "size": fmt, "struct_off": 0, "via_struct": False,
               "other_off": 0, "coe": 0}
        stmts = [["wr", 0, rng.choice(edges), "const"]] + ([["wr", 0, rng.choice(edges), rng.choice(["const", "var"])]] if rng.random() < 0.4 else [])
        return {"terms": [{"in": 4, "out": 12, "fmmu": rng.random() < 0.5}], "vars": [var], "stmts": stmts, "frameseed": rng.randrange(2 ** 30)}

    def gen_cases(self):
        import random
        rng = random.Random(self.seed + 19)      # its own stream
        return ([self.make_case(self.rng) for _ in range(120 if self.tier == "quick" else 1500)]
                + [self.edge_case(rng) for _ in range(20 if self.tier == "quick" else 200)])

    # ---- build both sync groups for a case
    def build(self, case, kernel):
        import random
        from .rig import Rig
        from ebpfcat.ebpfcat import (FastEtherCat, FastSyncGroup, SyncGroup, Device, TerminalVar, DeviceVar, PacketDesc, ProcessDesc, Struct)
        from ebpfcat.ethercat import SyncManager
        SM = {"in": SyncManager.IN, "out": SyncManager.OUT}
        res = {}

        async def go():
            specs = [dict(pos=1001 + i, **{"in": t["in"], "out": t["out"]}, fmmu=t["fmmu"], rw=True) for i, t in enumerate(case["terms"])]
            rig = Rig(specs, ec_class=FastEtherCat)
            rig.connect()
            # terminal classes with the case's PacketDescs (directly or inside a Struct with offsets)
            struct_classes = {}
            for ti, t in enumerate(rig.terms):
                ns = {}
                for k, v in enumerate(case["vars"]):
                    if v["term"] != ti or v.get("twin_of") is not None:
                        continue
                    def offsets(v):
                        """(sm3, sm2): the Struct's position offsets for inputs and outputs"""
                        return (v["struct_off"], v.get("other_off", v["struct_off"])) if v["sm"] == "in" else (v.get("other_off", v["struct_off"]), v["struct_off"])
                    if v.get("process"):
                        index, coe = 0x6000 + 0x100 * k, (v.get("coe", 0x10) if v["via_struct"] else 0)
                        pd = ProcessDesc(index, 1, v["size"]) if v["override"] else ProcessDesc(index, 1)
                        pdos = t.__dict__.setdefault("pdos", {})
                        pdos[index + coe, 1] = (SM[v["sm"]], v["pos"] + v["struct_off"], v["pdo_size"])
                        for decoy in (4, 8, 0x10):       # other objects nearby: a wrong index offset finds something else
                            if decoy != coe:
                                pdos.setdefault((index + decoy, 1), (SM[v["sm"]], 0, "B"))
                        if v["via_struct"]:
                            members = {"m": pd}
                            for w in case["vars"]:
                                if w.get("twin_of") == k:
                                    members["m2"] = ProcessDesc(index, 1, w["size"])
                            ns[f"s{k}"] = type(f"S{k}", (Struct,), members)(v.get("other_off", 0), 0, coe)
                        else:
                            ns[f"p{k}"] = pd
                    elif v["via_struct"]:
                        if v.get("chan_of") is not None:
                            S = struct_classes[v["chan_of"]]
                        else:
                            S = struct_classes[k] = type(f"S{k}", (Struct,), {"m": PacketDesc(SM[v["sm"]], v["pos"], v["size"])})
                        ns[f"s{k}"] = S(*offsets(v))
                    else:
                        ns[f"p{k}"] = PacketDesc(SM[v["sm"]], v["pos"] + v["struct_off"], v["size"])
                t.__class__ = type(f"T{ti}", (type(t),), ns)

            def whole(k):
                if any(w.get("twin_of") == k for w in case["vars"]) or case["vars"][k].get("chan"):
                    return True
                return case["vars"][k]["via_struct"] and all(s[0] == "rd" for s in case["stmts"] if s[1] == k) and k % 2 == 0

            def devclass(fast):
                ns = {}
                for k, v in enumerate(case["vars"]):
                    if v.get("twin_of") is None:
                        ns[f"v{k}"] = TerminalVar()
                for j, s in enumerate(case["stmts"]):
                    v = case["vars"][s[1]]
                    if s[0] == "rd":
                        ns[f"r{j}"] = DeviceVar("I" if isinstance(v["size"], int) else ("q" if v["size"].islower() else "Q"))
                    elif s[3] == "var":
                        ns[f"w{j}"] = DeviceVar("I" if isinstance(v["size"], int) else v["size"], write=True)

                def body(self):
                    for j, s in enumerate(case["stmts"]):
                        k = s[1]
                        v = case["vars"][k]

                        def tv():
                            if v.get("twin_of") is not None:
                                return getattr(self, f"v{v['twin_of']}").m2
                            return getattr(self, f"v{k}").m if whole(k) else getattr(self, f"v{k}")
                        if s[0] == "rd":
                            setattr(self, f"r{j}", tv())
                        else:
                            val = getattr(self, f"w{j}") if s[3] == "var" else s[2]
                            setattr(self, f"v{k}", val)
                ns["program"] = body
                ns["update"] = body
                return type("Dev", (Device,), ns)

            def link(dev):
                for k, v in enumerate(case["vars"]):
                    if v.get("twin_of") is not None:
                        continue
                    t = rig.terms[v["term"]]
                    if v["via_struct"]:
                        # a whole Struct can be linked for reading its members; writes need the member itself
                        setattr(dev, f"v{k}", getattr(t, f"s{k}") if whole(k) else getattr(t, f"s{k}").m)
                    else:
                        setattr(dev, f"v{k}", getattr(t, f"p{k}"))
            fdev = devclass(True)()
            link(fdev)
            def other_group():
                """another sync group of this process over the same terminals in the OPPOSITE order (another frame layout),
                allocated later: it must not change where the groups under test find their variables"""
                ns = {f"t{i}": TerminalVar() for i in range(len(rig.terms))}
                ns["update"] = lambda self: None
                X = type("Other", (Device,), ns)
                x = X()
                for i, t in reversed(list(enumerate(rig.terms))):
                    setattr(x, f"t{i}", t.in_word if hasattr(t, "in_word") else None)
                og = SyncGroup(rig.ec, [x])
                og.allocate()
                return og
            fsg = FastSyncGroup(rig.ec, [fdev])
            fsg.allocate()
            if len(rig.terms) > 1:
                res["other1"] = other_group()
            fsg.assemble()
            fds = {fd: i for i, fd in enumerate(kernel.maps)}
            instrs = []
            for ins in fsg.opcodes:
                op, dst, src, off, imm = ins
                if op.value == 0x18 and src == 1:
                    imm = fds.get(imm, 0)
                instrs.append((op.value, dst, src, off, imm))
            frame = bytearray(fsg.packet.sterile(3, 0x88a4))
            rnd = random.Random(case["frameseed"])
            regions = []
            for ti, t in enumerate(rig.terms):
                for sm in ("in", "out"):
                    base = fsg.pdo_assign.get(t, {}).get(SM[sm])
                    if base is not None:
                        regions.append((ti, sm, base, case["terms"][ti][sm]))
                        for q in range(base, base + case["terms"][ti][sm]):
                            frame[q] = rnd.choice([0, 0xff, rnd.randrange(256)])
            res.update(instrs=instrs, frame=bytes(frame), regions=regions, map_size=FastSyncGroup.properties.size,
                       wkc_errors=fsg.__dict__["wkc_errors"], fvars={n: o for n, o in fdev.__dict__.items() if isinstance(o, int) and n[0] in "rw"},
                       on_the_fly=[(a, b, c.value) for a, b, c in fsg.packet.on_the_fly],
                       starts={k: fsg.pdo_assign[rig.terms[v["term"]]].get(SM[v["sm"]]) for k, v in enumerate(case["vars"])})
            # ---- slow path, same terminals
            sdev = devclass(False)()
            link(sdev)
            ssg = SyncGroup(rig.ec, [sdev])
            ssg.allocate()
            if len(rig.terms) > 1:
                res["other2"] = other_group()
            res["slow_same_layout"] = {k: ssg.pdo_assign[rig.terms[v["term"]]].get(SM[v["sm"]]) for k, v in enumerate(case["vars"])} == res["starts"]
            ssg.current_data = bytearray(frame)
            for j, s in enumerate(case["stmts"]):
                if s[0] == "wr" and s[3] == "var":
                    setattr(sdev, f"w{j}", s[2])
            try:
                sdev.update()
                res["slow"] = {"frame": bytes(ssg.current_data), "reads": [int(sdev.__dict__.get(f"r{j}", 0)) for j, s in enumerate(case["stmts"]) if s[0] == "rd"]}
            except Exception as e:      # noqa
                res["slow"] = Err(5, f"slow path raised {type(e).__name__}: {e}")
            # ---- the next cycle: the group's frame buffer is a NEW object (as after every received frame of a fast group or a restart)
            frame2 = bytearray(frame)
            for ti, sm, base, n in regions:
                for q in range(base, base + n):
                    frame2[q] = rnd.choice([0, 0xff, rnd.randrange(256)])
            res["frame2"] = bytes(frame2)
            if not isinstance(res["slow"], Err):
                ssg.current_data = bytearray(frame2)
                try:
                    sdev.update()
                    res["slow2"] = {"frame": bytes(ssg.current_data), "reads": [int(sdev.__dict__.get(f"r{j}", 0)) for j, s in enumerate(case["stmts"]) if s[0] == "rd"]}
                except Exception as e:      # noqa
                    res["slow2"] = Err(5, f"slow path, second frame, raised {type(e).__name__}: {e}")
            await rig.shutdown()
        asyncio.run(go())
        return res

    def prepare(self, cases):
        terms, idx = [], []
        for i, c in enumerate(cases):
            with sim_kernel.installed() as kernel:       # a fresh fake kernel per case: map numbering starts at 0
                c["_run"] = None
                try:
                    b = self.build(c, kernel)
                except Exception as e:      # noqa
                    import traceback
                    c["_b"] = Err(6, f"{type(e).__name__}: {e} {traceback.format_exc()[-400:]}")
                    continue
                c["_b"] = b
                amap = bytearray(b["map_size"])
                amap[b["wkc_errors"]] = 1
                for j, s in enumerate(c["stmts"]):
                    if s[0] == "wr" and s[3] == "var":
                        v = c["vars"][s[1]]
                        fmt = "I" if isinstance(v["size"], int) else v["size"]
                        struct.pack_into("<" + fmt, amap, b["fvars"][f"w{j}"], int(s[2]))
                c["_map"] = bytes(amap)
                terms.append(f"(exec_vars {ebpf_exec.cprog(b['instrs'])} {ebpf_exec.cbytes(bytes(14) + b['frame'])} [{ebpf_exec.cbytes(amap)}] [] [])")
                idx.append(i)
        vals, log = eval_terms(self.pid, self.corr_imports, terms, shard=40)
        for i, v in zip(idx, vals):
            cases[i]["_run"] = v
        return log

    def run_impl(self, case):
        b = case["_b"]
        if isinstance(b, Err):
            return b
        if isinstance(b["slow"], Err):
            return b["slow"]
        r = case["_run"]
        if r is None:
            return Err(9, "model evaluation failed")
        status, pkt, maps, stack, regs = r
        if status != [1]:
            return Err(7, f"the generated program did not exit normally: status {status}")
        pkt = bytes(x for x, n in pkt for _ in range(n))[14:]
        m = bytes(maps[0])
        reads = []
        for j, s in enumerate(case["stmts"]):
            if s[0] == "rd":
                v = case["vars"][s[1]]
                fmt = "I" if isinstance(v["size"], int) else ("q" if v["size"].islower() else "Q")
                reads.append(struct.unpack_from("<" + fmt, m, b["fvars"][f"r{j}"])[0])
        if isinstance(b.get("slow2"), Err):
            return b["slow2"]
        o = {"fast": {"frame": pkt, "reads": reads}, "slow": b["slow"], "slow2": b.get("slow2"), "same_layout": b["slow_same_layout"]}
        case["_o"] = o
        return o

    # ---- oracle: own bits / bytes only
    def activated(self, case):
        b = case["_b"]
        f = bytearray(b["frame"])
        for start, stop, cmd in b["on_the_fly"]:
            f[start] = cmd
            f[stop - 2] = f[stop - 1] = 0
        return bytes(f)

    def expected(self, case, frame):
        b = case["_b"]
        f = bytearray(frame)
        reads = []
        for s in case["stmts"]:
            v = case["vars"][s[1]]
            start = b["starts"][s[1]] + v["pos"] + v["struct_off"]
            if s[0] == "rd":
                if isinstance(v["size"], int):
                    reads.append((f[start] >> v["size"]) & 1)
                else:
                    reads.append(struct.unpack_from("<" + v["size"], f, start)[0])
            else:
                if isinstance(v["size"], int):
                    if s[2]:
                        f[start] |= 1 << v["size"]
                    else:
                        f[start] &= ~(1 << v["size"]) & 0xff
                else:
                    struct.pack_into("<" + v["size"], f, start, s[2])
        return bytes(f), reads

    def ops(self, case, shift):
        b = case["_b"]
        out = []
        for s in case["stmts"]:
            v = case["vars"][s[1]]
            start = b["starts"][s[1]] + v["pos"] + v["struct_off"] + shift
            if s[0] == "rd":
                out.append(f"(RdBit {cnat(start)} {cz(v['size'])})" if isinstance(v["size"], int) else f"(RdB {cz(start)} {cnat(SIZE[v['size']])} {cbool(v['size'].islower())})")
            else:
                out.append(f"(WrBit {cnat(start)} {cz(v['size'])} {cbool(bool(s[2]))})" if isinstance(v["size"], int)
                           else f"(WrB {cz(start)} {cnat(SIZE[v['size']])} {cz(s[2])})")
        return clist(out)

    def model_term(self, case):
        o = case.get("_o")
        if o is None or isinstance(case["_b"], Err):
            return None
        return (f"(VL [run_ops false {self.ops(case, 0)} {ebpf_exec.cbytes(case['_b']['frame'])} []; "
                f"run_ops true {self.ops(case, 0)} {ebpf_exec.cbytes(self.activated(case))} []])")

    def model_value(self, case, o):
        def rd(x):
            return [v % (1 << 64) if v < 0 else v for v in x]
        return [[list(o["slow"]["frame"]), o["slow"]["reads"]], [list(o["fast"]["frame"]), [self.signed(case, k, v) for k, v in enumerate(o["fast"]["reads"])]]]

    def signed(self, case, k, v):
        return v

    def holds(self, case, o):
        if isinstance(o, Err):
            return f"{o.what}; vars={case['vars']} stmts={case['stmts']}"
        if not o["same_layout"]:
            return "slow and fast sync groups place the terminal regions differently"
        b = case["_b"]
        sf, sr = self.expected(case, b["frame"])
        ff, fr = self.expected(case, self.activated(case))
        what = f"vars={case['vars']} stmts={case['stmts']} terms={case['terms']}"
        if o["slow"]["frame"] != sf:
            return f"slow path: frame differs from own-bytes-only expectation: got {o['slow']['frame'].hex()} want {sf.hex()} from {b['frame'].hex()}; {what}"
        if o["slow"]["reads"] != sr:
            return f"slow path: read {o['slow']['reads']}, the frame holds {sr}; {what}"
        if o.get("slow2") is not None:
            sf2, sr2 = self.expected(case, b["frame2"])
            if o["slow2"]["frame"] != sf2:
                return (f"slow path, next cycle with a new frame buffer: frame differs from own-bytes-only expectation: got {o['slow2']['frame'].hex()} want {sf2.hex()} "
                        f"from {b['frame2'].hex()}; {what}")
            if o["slow2"]["reads"] != sr2:
                return f"slow path, next cycle with a new frame buffer: read {o['slow2']['reads']}, the frame holds {sr2}; {what}"
        if o["fast"]["frame"] != ff:
            return f"fast path: frame differs from own-bytes-only expectation: got {o['fast']['frame'].hex()} want {ff.hex()} from {b['frame'].hex()}; {what}"
        if o["fast"]["reads"] != fr:
            return f"fast path: read {o['fast']['reads']}, the frame holds {fr}; {what}"
        return True

    def nontrivial(self, case, o):
        return not isinstance(o, Err)

    def extra_checks(self):
        return [isa_check.check(self.seed + 5, 40 if self.tier == "quick" else 300)]

    def rule(self):
        return ("1-2 terminals (2-12 input / output bytes, FMMU or direct), 1-5 process variables (40% single bits 0..7, else B H I Q b h i q at the start, the end "
                "or a random position; 25% inside a Struct with a position offset; Structs described by the PDO table often get a second member on the SAME entry with another size - a word and one of its bits - both read in either order), a device linking all of them, 1-6 statements (reads into DeviceVars, writes of "
                "constants or DeviceVar values, truthy values 2 / 256 for bits), frame regions filled with 0 / 0xff / random bytes; the slow path runs a second cycle on a NEW frame buffer with different contents; plus cases writing constants at the ends of the 32-bit immediate field (2**31 and neighbours, 2**32, -2**31 - 1 ...) to 4- and 8-byte output variables")

    def distribution(self, cases, observed):
        d = {"bit_vars": 0, "byte_vars": 0, "struct_vars": 0, "reads": 0, "writes": 0, "build_errors": 0}
        for c, o in zip(cases, observed):
            d["build_errors"] += isinstance(o, Err)
            for v in c["vars"]:
                d["bit_vars" if isinstance(v["size"], int) else "byte_vars"] += 1
                d["struct_vars"] += v["via_struct"]
            for s in c["stmts"]:
                d["reads" if s[0] == "rd" else "writes"] += 1
        return d

    def describe(self, case):
        return {k: v for k, v in case.items() if not k.startswith("_")}


CHECK = C19
