(* C02 Fixed-point arithmetic follows the per-100000 decimal semantics.
   Model (Gen/Fixed.v): `elab` - the integer expression the DSL builds for an
   expression mixing integer and fixed-point operands (which side is scaled by
   100000 or 100000^2, where the product is divided back), `to_dest` - the
   conversion at the assignment; evaluated by C01's operand model.  Validated on
   every run against the REAL generated code executed in the ISA model.
   Meaning: rationals (QArith); `rep v fixed` is the number a representation
   stands for, `drop fixed q` the representation of q dropped toward minus
   infinity. *)
From Verif Require Import Gen.Denote Gen.Denote_proofs Gen.Fixed Gen.Fixed_proofs.

(* sums, differences, products of ANY operand values, any mix of integer and
   fixed-point operands: the exact rational result in the result's representation *)
Theorem C02_ring_ops : forall op A fa B fb, op = FAdd \/ op = FSub \/ op = FMul ->
  op_value op A fa B fb = drop (op_fixed op fa fb) (qop op (rep A fa) (rep B fb)).
Proof. exact ring_op_spec. Qed.
Print Assumptions C02_ring_ops.

(* true division (always fixed-point) and floor division (always integer) *)
Theorem C02_divisions : forall op A fa B fb, op = FTrueDiv \/ op = FFloorDiv -> 0 < B ->
  op_value op A fa B fb = drop (op_fixed op fa fb) (qop op (rep A fa) (rep B fb)).
Proof. exact div_op_spec. Qed.
Print Assumptions C02_divisions.

Theorem C02_remainder : forall A fa B fb, 0 < B ->
  op_value FMod A fa B fb = drop (op_fixed FMod fa fb) (qop FMod (rep A fa) (rep B fb)).
Proof. exact mod_op_spec. Qed.

(* the elaborated expression computes op_value of its operands' exact values,
   at every node of every expression tree *)
Theorem C02_elaboration : forall op ea fa eb fb,
  exact (fst (elab_op op (ea, fa) (eb, fb))) = op_value op (exact ea) fa (exact eb) fb /\
  snd (elab_op op (ea, fa) (eb, fb)) = op_fixed op fa fb.
Proof. exact elab_op_exact. Qed.

(* assignment: integer <-> fixed-point conversion drops the fraction *)
Theorem C02_assignment : forall dest_fixed e f,
  exact (to_dest dest_fixed (e, f)) = drop dest_fixed (rep (exact e) f).
Proof. exact to_dest_spec. Qed.
Print Assumptions C02_assignment.

(* and the generated code stores that exact value (C01's theorem, instantiated) *)
Theorem C02_stored : forall fe dest_fixed n, In n [1; 2; 4; 8]%nat ->
  ok (to_dest dest_fixed (elab fe)) (Some (Nat.eqb n 8)) ->
  stored (to_dest dest_fixed (elab fe)) n = exact (to_dest dest_fixed (elab fe)) mod 256 ^ Z.of_nat n.
Proof. intros. apply stored_exact; assumption. Qed.
Print Assumptions C02_stored.

(* comparisons mixing integer and fixed-point operands compare the scaled
   integers (comparison() scales the integer side), which is comparing the
   rationals; that the jump tests this comparison of the two operand
   expressions is C03's theorem about cmp_impl *)
Theorem C02_comparisons : forall fa fb A B,
  let '(A', B') := cmp_scaled fa fb A B in (A' ?= B') = (rep A fa ?= rep B fb)%Q.
Proof. exact cmp_scaled_spec. Qed.
Print Assumptions C02_comparisons.

(* `ok` excludes negative operands of the (unsigned) divisions - recorded finding: *)
Theorem C02_refuted_negative : exists e,
  stored (to_dest false (e, true)) 8 <> exact (to_dest false (e, true)) mod 256 ^ 8 /\
  e = EVar (18446744073709551616 - 6500000) 8 true.
Proof. eexists. split; [|reflexivity]. vm_compute. discriminate. Qed.

(* non-vacuity: 1.0 + 0.29 (a decimal without exact binary representation) and 2.5 * 1.5 *)
Example C02_nonvacuous :
  stored (to_dest true (elab (FOp FAdd (FFix (EVar 100000 8 true)) (FConstF 29000)))) 8 = 129000 /\
  stored (to_dest true (elab (FOp FMul (FFix (EVar 250000 8 true)) (FConstF 150000)))) 8 = 375000 /\
  stored (to_dest false (elab (FOp FTrueDiv (FInt (EVar 7 4 false)) (FConstF 200000)))) 8 = 3.
Proof. vm_compute. auto. Qed.
