From Verif Require Import Lib.Base Ecat.StateMachine.
Definition v_ev (e : ev) : V := match e with W z => VL [VZ 0; VZ z] | R z => VL [VZ 1; VZ z] end.
Definition v_out (o : outcome) : V :=
  VZ match o with Returned => 0 | FellOff => 1 | Raised => 2 | Waiting => 3 | BadReply => 4 end.
Definition run (target : Z) (rs : list Z) : V :=
  let '(t, o) := to_operational target rs in VL [VL (map v_ev t); v_out o].
