From Verif Require Import Lib.Base Gen.Denote Gen.Fixed.
Definition run (fe : fexpr) (dest_fixed : bool) (n : nat) : V := VZ (stored (to_dest dest_fixed (elab fe)) n).
Definition run_cmp (op : cmpop) (a b : fexpr) : V := VZ (if cmp_fixed op a b then 1 else 0).
