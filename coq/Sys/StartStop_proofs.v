From Verif Require Import Sys.StartStop.

(* ---- decidable equality of states ---- *)
Definition pc_eqb (a b : pc) : bool := pc_code a =? pc_code b.
Lemma pc_eqb_eq a b : pc_eqb a b = true -> a = b.
Proof. unfold pc_eqb. intros H. apply Z.eqb_eq in H. destruct a, b; cbn in H; try reflexivity; discriminate. Qed.
Lemma list_eqb_eq a : forall b, list_eqb a b = true -> a = b.
Proof.
  induction a as [|x a IH]; intros [|y b] H; cbn in H; try discriminate; [reflexivity|].
  apply andb_true_iff in H as [H1 H2]. apply Z.eqb_eq in H1. f_equal; auto.
Qed.
Definition opt_eqb (a b : option Z) : bool :=
  match a, b with None, None => true | Some x, Some y => x =? y | _, _ => false end.
Lemma opt_eqb_eq a b : opt_eqb a b = true -> a = b.
Proof. destruct a, b; cbn; intros H; try discriminate; [apply Z.eqb_eq in H; subst|]; reflexivity. Qed.
Definition proc_eqb (a b : proc) : bool := pc_eqb (p_pc a) (p_pc b) && (p_eth a =? p_eth b) && (p_table a =? p_table b).
Lemma proc_eqb_eq a b : proc_eqb a b = true -> a = b.
Proof.
  destruct a, b. unfold proc_eqb. cbn. intros H. apply andb_true_iff in H as [H H3]. apply andb_true_iff in H as [H1 H2].
  apply pc_eqb_eq in H1. apply Z.eqb_eq in H2. apply Z.eqb_eq in H3. subst. reflexivity.
Qed.
Fixpoint procs_eqb (a b : list proc) : bool :=
  match a, b with [], [] => true | x :: a', y :: b' => proc_eqb x y && procs_eqb a' b' | _, _ => false end.
Lemma procs_eqb_eq a : forall b, procs_eqb a b = true -> a = b.
Proof.
  induction a as [|x a IH]; intros [|y b] H; cbn in H; try discriminate; [reflexivity|].
  apply andb_true_iff in H as [H1 H2]. apply proc_eqb_eq in H1. f_equal; auto.
Qed.
Definition st_eqb (a b : st) : bool :=
  match lockdir a, lockdir b with None, None => true | Some x, Some y => list_eqb x y | _, _ => false end
  && opt_eqb (pin a) (pin b) && opt_eqb (att a) (att b) && procs_eqb (procs a) (procs b).
Lemma st_eqb_eq a b : st_eqb a b = true -> a = b.
Proof.
  destruct a as [la pa aa ra], b as [lb pb ab rb]. unfold st_eqb. cbn. intros H.
  apply andb_true_iff in H as [H H4]. apply andb_true_iff in H as [H H3]. apply andb_true_iff in H as [H1 H2].
  apply opt_eqb_eq in H2. apply opt_eqb_eq in H3. apply procs_eqb_eq in H4. subst.
  destruct la, lb; try discriminate; [apply list_eqb_eq in H1; subst|]; reflexivity.
Qed.

(* ---- closure of a finite set of states under all steps of all processes ---- *)
Definition closed (choices : list Z) (R : list st) : bool :=
  forallb (fun s => forallb (fun s' => existsb (st_eqb s') R) (successors choices s)) R.

Lemma existsb_in s R : existsb (st_eqb s) R = true -> In s R.
Proof. intros H. apply existsb_exists in H as (r & Hr & E). apply st_eqb_eq in E. subst. exact Hr. Qed.

Lemma step_in_successors choices s k c s' : nth_error (step_proc choices s k) c = Some s' -> In s' (successors choices s).
Proof.
  intros H. unfold successors. apply in_concat. exists (step_proc choices s k). split; [|eapply nth_error_In; eauto].
  apply in_map. apply in_seq. split; [lia|]. cbn.
  unfold step_proc in H. destruct (nth_error (procs s) k) eqn:E; [|destruct c; discriminate].
  apply nth_error_Some. congruence.
Qed.

(* every schedule - every interleaving of the participants' steps and every outcome of the random ethertype draws -
   leads to a state of a closed set containing the initial state *)
Theorem closed_sound choices R s0 : closed choices R = true -> In s0 R ->
  forall sched, In (run_sched choices s0 sched) R.
Proof.
  intros HC. intros H0 sched. revert s0 H0. induction sched as [|[k c] tl IH]; intros s0 H0; cbn [run_sched]; [exact H0|].
  destruct (nth_error (step_proc choices s0 k) c) as [s'|] eqn:E; [|apply IH; exact H0].
  apply IH. unfold closed in HC. rewrite forallb_forall in HC. specialize (HC s0 H0). rewrite forallb_forall in HC.
  apply existsb_in. apply HC. eapply step_in_successors; eauto.
Qed.

(* two participants, all interleavings: at most one installs the dispatcher at a time, running participants have
   distinct ethertypes *)
Definition R2 := reach 2 [1; 2].
Lemma R2_closed : closed [1; 2] R2 = true. Proof. vm_compute. reflexivity. Qed.
Lemma R2_init : In (init 2) R2. Proof. apply existsb_in. vm_compute. reflexivity. Qed.
Lemma R2_inv : forallb (fun s => p1 s && p3 s) R2 = true. Proof. vm_compute. reflexivity. Qed.

Theorem two_participants_safe : forall sched,
  let s := run_sched [1; 2] (init 2) sched in p1 s = true /\ p3 s = true.
Proof.
  intros sched s. pose proof (closed_sound [1; 2] R2 (init 2) R2_closed R2_init sched) as H.
  pose proof R2_inv as I. rewrite forallb_forall in I. specialize (I _ H). apply andb_true_iff in I. exact I.
Qed.

(* the dispatcher does NOT stay installed: a leaver that found the lock directory empty still detaches and removes the
   pin after a fresh starter has installed its own (recorded finding) *)
Definition race : list (nat * nat) :=
  [(0, 0); (0, 0); (0, 0); (0, 0); (0, 0);          (* participant 0 starts: rename, remove old pin, attach, pin -> running *)
   (0, 0); (0, 0); (0, 0);                           (* 0 leaves: removes its lock file, rmdir succeeds (it was the last) *)
   (1, 0); (1, 0); (1, 0); (1, 0); (1, 0);           (* participant 1 starts meanwhile and becomes first: attaches, pins -> running *)
   (0, 0); (0, 0)]%nat.                              (* 0 finishes leaving: detaches the dispatcher and removes the pin *)
Theorem p2_refuted : let s := run_sched [1; 2] (init 2) race in
  p2 s = false /\ map (fun p => pc_code (p_pc p)) (procs s) = [15; 10] /\ att s = None /\ pin s = None.
Proof. vm_compute. auto. Qed.

(* ---------------- three participants: a structural closure proof ----------------
   The reachable set is large (25860 states); membership of a successor is looked up through an index
   (code of the state -> position in a two-level list).  The index is NOT trusted: the state found at that
   position is compared structurally (st_eqb), and being at a position of the list is what puts it in the set. *)
From Coq Require Import FSets.FMapPositive.

Fixpoint chunks (fuel size : nat) (l : list st) : list (list st) :=
  match fuel with
  | O => [l]
  | S f => match l with [] => [] | _ => firstn size l :: chunks f size (skipn size l) end
  end.

Definition index_of (R2 : list (list st)) : PositiveMap.t (nat * nat) :=
  fst (fold_left (fun acc row =>
         let '(m, i) := acc in
         (fst (fold_left (fun acc' s => let '(m', j) := acc' in (PositiveMap.add (Z.to_pos (code s)) (i, j) m', S j)) row (m, 0%nat)), S i))
       R2 (PositiveMap.empty _, 0%nat)).

Definition member (R2 : list (list st)) (idx : PositiveMap.t (nat * nat)) (s : st) : bool :=
  match PositiveMap.find (Z.to_pos (code s)) idx with
  | Some (i, j) => match nth_error R2 i with
                   | Some row => match nth_error row j with Some r => st_eqb s r | None => false end
                   | None => false
                   end
  | None => false
  end.

Lemma member_in R2 idx s : member R2 idx s = true -> In s (concat R2).
Proof.
  unfold member. destruct (PositiveMap.find _ idx) as [[i j]|]; [|discriminate].
  destruct (nth_error R2 i) as [row|] eqn:Ei; [|discriminate].
  destruct (nth_error row j) as [r|] eqn:Ej; [|discriminate].
  intros H. apply st_eqb_eq in H. subst r. apply in_concat. exists row. split; eapply nth_error_In; eauto.
Qed.

Definition closed2 (choices : list Z) (R2 : list (list st)) (idx : PositiveMap.t (nat * nat)) : bool :=
  forallb (fun row => forallb (fun s => forallb (member R2 idx) (successors choices s)) row) R2.

Theorem closed2_sound choices R2 idx s0 : closed2 choices R2 idx = true -> In s0 (concat R2) ->
  forall sched, In (run_sched choices s0 sched) (concat R2).
Proof.
  intros HC H0 sched. revert s0 H0. induction sched as [|[k c] tl IH]; intros s0 H0; cbn [run_sched]; [exact H0|].
  destruct (nth_error (step_proc choices s0 k) c) as [s'|] eqn:E; [|apply IH; exact H0].
  apply IH. apply in_concat in H0 as (row & Hrow & Hs). unfold closed2 in HC. rewrite forallb_forall in HC.
  specialize (HC row Hrow). rewrite forallb_forall in HC. specialize (HC s0 Hs). rewrite forallb_forall in HC.
  apply (member_in R2 idx). apply HC. eapply step_in_successors; eauto.
Qed.


Definition R3 : list (list st) := chunks 400 160 (reach 3 [1; 2]).
Definition I3 := index_of R3.
Lemma R3_closed : closed2 [1; 2] R3 I3 = true. Proof. vm_compute. reflexivity. Qed.
Lemma R3_member : member R3 I3 (init 3) = true. Proof. vm_compute. reflexivity. Qed.
Lemma R3_init : In (init 3) (concat R3). Proof. exact (member_in R3 I3 (init 3) R3_member). Qed.
Lemma R3_inv : forallb (fun row => forallb (fun s => p1 s && p3 s) row) R3 = true. Proof. vm_compute. reflexivity. Qed.
#[global] Opaque R3 I3.
Theorem three_participants_safe : forall sched,
  p1 (run_sched [1; 2] (init 3) sched) = true /\ p3 (run_sched [1; 2] (init 3) sched) = true.
Proof.
  intros sched.
  assert (H := closed2_sound [1; 2] R3 I3 (init 3) R3_closed R3_init sched).
  destruct (proj1 (in_concat R3 _) H) as (row & Hrow & Hs).
  assert (I := proj1 (forallb_forall _ R3) R3_inv row Hrow).
  cbv beta in I.
  assert (J := proj1 (forallb_forall _ row) I _ Hs).
  cbv beta in J.
  apply andb_true_iff in J. exact J.
Qed.
