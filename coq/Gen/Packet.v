(* Packet variables (ebpfcat/xdp.py PacketVar, ebpfcat/ebpf.py Memory.calculate /
   Memory._set with byte order, XDP.program's minimum-size guard).
   Instruction semantics are those of Ebpf/Isa.v (read_bytes / write_bytes /
   bswap); this file says which of them the generator composes. *)
From Verif Require Export Gen.Denote.

(* byte order of a format: 0 native ("H"), 1 "<", 2 ">" or "!" *)
Record pfmt := { pf_n : nat; pf_signed : bool; pf_order : Z }.

(* ---- the spec: Python's struct ---- *)
Definition unpack_u (f : pfmt) (bs : list Z) : Z := if pf_order f =? 2 then le_val (rev bs) else le_val bs.
Definition unpack (f : pfmt) (bs : list Z) : Z := if pf_signed f then sx (pf_n f) (unpack_u f bs) else unpack_u f bs.
Definition pack (f : pfmt) (v : Z) : list Z :=
  if pf_order f =? 2 then rev (le_bytes (pf_n f) v) else le_bytes (pf_n f) v.

(* ---- the code ---- *)
Definition swaps (f : pfmt) : bool := negb (pf_order f =? 0) && negb (Nat.eqb (pf_n f) 1).

(* END instruction (Isa.step): truncation to n bytes; "to big endian" swaps *)
Definition end_insn (f : pfmt) (v : Z) : Z :=
  let t := v mod 256 ^ Z.of_nat (pf_n f) in
  if pf_order f =? 2 then bswap (pf_n f) t else t.

(* read: LDX of the unsigned format (little-endian, zero-extending), byte
   swap when the format has an explicit order and more than one byte; the sign
   is extended afterwards (EVar of Gen/Denote.v) *)
Definition code_load (f : pfmt) (bs : list Z) : Z :=
  let v := le_val bs in if swaps f then end_insn f v else v.
Definition read_expr (f : pfmt) (bs : list Z) : expr := EVar (code_load f bs) (pf_n f) (pf_signed f).

(* write: the value register, byte-swapped if needed, stored with STX of n bytes *)
Definition code_store_bytes (f : pfmt) (v : Z) : list Z :=
  le_bytes (pf_n f) ((if swaps f then end_insn f v else v) mod 256 ^ Z.of_nat (pf_n f)).

(* packet-level operations (None = access outside the packet = Isa fault) *)
Definition pkt_read (f : pfmt) (pk : list Z) (p : Z) : option Z :=
  option_map (code_load f) (read_bytes pk p (pf_n f)).
Definition pkt_write (f : pfmt) (pk : list Z) (p : Z) (v : Z) : option (list Z) :=
  write_bytes pk p (code_store_bytes f v).

(* XDP.program: r9 = data; r0 = data_end; r2 = data + G; if r0 <= r2 skip the body *)
Definition guard_passes (G len : Z) : bool := negb (len <=? G).
