(* modular arithmetic facts for the generator proofs *)
From Verif Require Import Lib.Base.

Definition cong (w a b : Z) : Prop := a mod w = b mod w.

Lemma cong_refl w a : cong w a a. Proof. reflexivity. Qed.
Lemma cong_sym w a b : cong w a b -> cong w b a. Proof. unfold cong; congruence. Qed.
Lemma cong_trans w a b c : cong w a b -> cong w b c -> cong w a c. Proof. unfold cong; congruence. Qed.
Lemma cong_mod w a : 0 < w -> cong w (a mod w) a.
Proof. intros. unfold cong. apply Z.mod_mod. lia. Qed.

Lemma cong_add w a a' b b' : 0 < w -> cong w a a' -> cong w b b' -> cong w (a + b) (a' + b').
Proof. unfold cong. intros Hw H1 H2. rewrite (Z.add_mod a b), (Z.add_mod a' b'), H1, H2 by lia. reflexivity. Qed.
Lemma cong_sub w a a' b b' : 0 < w -> cong w a a' -> cong w b b' -> cong w (a - b) (a' - b').
Proof. unfold cong. intros Hw H1 H2. rewrite (Zminus_mod a b), (Zminus_mod a' b'), H1, H2. reflexivity. Qed.
Lemma cong_mul w a a' b b' : 0 < w -> cong w a a' -> cong w b b' -> cong w (a * b) (a' * b').
Proof. unfold cong. intros Hw H1 H2. rewrite (Z.mul_mod a b), (Z.mul_mod a' b'), H1, H2 by lia. reflexivity. Qed.
Lemma cong_opp w a a' : 0 < w -> cong w a a' -> cong w (- a) (- a').
Proof. intros Hw H. replace (- a) with (0 - a) by lia. replace (- a') with (0 - a') by lia. apply cong_sub; [assumption|reflexivity|assumption]. Qed.

(* congruence modulo a multiple implies congruence modulo a divisor *)
Lemma mod_mod_mult a w k : 0 < w -> 0 < k -> (a mod (w * k)) mod w = a mod w.
Proof.
  intros Hw Hk. rewrite Z.rem_mul_r by lia.
  rewrite Z.add_mod, Z.mod_mod, (Z.mul_comm w), Z.mod_mul by lia. rewrite Z.add_0_r. apply Z.mod_mod. lia.
Qed.

Lemma cong_divide w k a b : 0 < w -> 0 < k -> cong (w * k) a b -> cong w a b.
Proof.
  unfold cong. intros Hw Hk H.
  rewrite <- (mod_mod_mult a w k), <- (mod_mod_mult b w k), H by lia. reflexivity.
Qed.

(* ---- bitwise operations modulo a power of two ---- *)
Lemma mod_pow2_land a k : 0 <= k -> a mod 2 ^ k = Z.land a (Z.ones k).
Proof. intros. symmetry. apply Z.land_ones. assumption. Qed.

Lemma land_mod_pow2 a b k : 0 <= k -> (Z.land a b) mod 2 ^ k = Z.land (a mod 2 ^ k) (b mod 2 ^ k).
Proof.
  intros H. rewrite !mod_pow2_land by assumption. apply Z.bits_inj'. intros n Hn.
  rewrite !Z.land_spec. destruct (Z.testbit a n), (Z.testbit b n), (Z.testbit (Z.ones k) n); reflexivity.
Qed.
Lemma lor_mod_pow2 a b k : 0 <= k -> (Z.lor a b) mod 2 ^ k = Z.lor (a mod 2 ^ k) (b mod 2 ^ k).
Proof.
  intros H. rewrite !mod_pow2_land by assumption. apply Z.bits_inj'. intros n Hn.
  rewrite !Z.land_spec, !Z.lor_spec, !Z.land_spec. destruct (Z.testbit a n), (Z.testbit b n), (Z.testbit (Z.ones k) n); reflexivity.
Qed.
Lemma lxor_mod_pow2 a b k : 0 <= k -> (Z.lxor a b) mod 2 ^ k = Z.lxor (a mod 2 ^ k) (b mod 2 ^ k).
Proof.
  intros H. rewrite !mod_pow2_land by assumption. apply Z.bits_inj'. intros n Hn.
  rewrite !Z.land_spec, !Z.lxor_spec, !Z.land_spec. destruct (Z.testbit a n), (Z.testbit b n), (Z.testbit (Z.ones k) n); reflexivity.
Qed.

Lemma cong_land k a a' b b' : 0 <= k -> cong (2 ^ k) a a' -> cong (2 ^ k) b b' -> cong (2 ^ k) (Z.land a b) (Z.land a' b').
Proof. unfold cong. intros H H1 H2. rewrite !land_mod_pow2, H1, H2 by assumption. reflexivity. Qed.
Lemma cong_lor k a a' b b' : 0 <= k -> cong (2 ^ k) a a' -> cong (2 ^ k) b b' -> cong (2 ^ k) (Z.lor a b) (Z.lor a' b').
Proof. unfold cong. intros H H1 H2. rewrite !lor_mod_pow2, H1, H2 by assumption. reflexivity. Qed.
Lemma cong_lxor k a a' b b' : 0 <= k -> cong (2 ^ k) a a' -> cong (2 ^ k) b b' -> cong (2 ^ k) (Z.lxor a b) (Z.lxor a' b').
Proof. unfold cong. intros H H1 H2. rewrite !lxor_mod_pow2, H1, H2 by assumption. reflexivity. Qed.

(* bitwise operations of values below 2^k stay below 2^k *)
Lemma land_range a b k : 0 <= k -> 0 <= a < 2 ^ k -> 0 <= b < 2 ^ k -> 0 <= Z.land a b < 2 ^ k.
Proof.
  intros Hk Ha Hb. pose proof (land_mod_pow2 a b k Hk) as E. rewrite (Z.mod_small a), (Z.mod_small b) in E by lia.
  rewrite <- E. apply Z.mod_pos_bound. apply Z.pow_pos_nonneg; lia.
Qed.
Lemma lor_range a b k : 0 <= k -> 0 <= a < 2 ^ k -> 0 <= b < 2 ^ k -> 0 <= Z.lor a b < 2 ^ k.
Proof.
  intros Hk Ha Hb. pose proof (lor_mod_pow2 a b k Hk) as E. rewrite (Z.mod_small a), (Z.mod_small b) in E by lia.
  rewrite <- E. apply Z.mod_pos_bound. apply Z.pow_pos_nonneg; lia.
Qed.
Lemma lxor_range a b k : 0 <= k -> 0 <= a < 2 ^ k -> 0 <= b < 2 ^ k -> 0 <= Z.lxor a b < 2 ^ k.
Proof.
  intros Hk Ha Hb. pose proof (lxor_mod_pow2 a b k Hk) as E. rewrite (Z.mod_small a), (Z.mod_small b) in E by lia.
  rewrite <- E. apply Z.mod_pos_bound. apply Z.pow_pos_nonneg; lia.
Qed.
