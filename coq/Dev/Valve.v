(* ebpfcat/devices.py: Valve.update / Valve.reset (slow path). *)
From Verif Require Export Lib.Base.

Record valve := { coil : bool; target : bool; error : bool; lastGood : Z }.

(* one call of update(): the switches read, and the single monotonic() value *)
Definition update (safe : bool) (moving : Z) (v : valve) (op cl : bool) (now : Z) : valve :=
  let inPosition := negb (Bool.eqb op cl) in
  let isCorrect := if Bool.eqb (coil v) safe then cl || negb op else op || negb cl in
  if inPosition && isCorrect then
    {| coil := target v; target := target v; error := error v; lastGood := now |}
  else if now - lastGood v <? moving then
    {| coil := target v; target := target v; error := error v; lastGood := lastGood v |}
  else
    {| coil := safe; target := safe; error := true; lastGood := lastGood v |}.

Definition reset (v : valve) (now : Z) : valve :=
  {| coil := coil v; target := target v; error := false; lastGood := now |}.

Inductive event :=
| EReset (now : Z)
| ESetTarget (t : bool)
| EUpdate (op cl : bool) (now : Z).

Definition step (safe : bool) (moving : Z) (v : valve) (e : event) : valve :=
  match e with
  | EReset now => reset v now
  | ESetTarget t => {| coil := coil v; target := t; error := error v; lastGood := lastGood v |}
  | EUpdate op cl now => update safe moving v op cl now
  end.

(* specification vocabulary *)
(* the switches confirm the position the coil commands (default safe state:
   coil off = closed) *)
Definition confirms (c op cl : bool) : bool := if c then op && negb cl else cl && negb op.
