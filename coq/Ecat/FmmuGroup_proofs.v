From Verif Require Import Lib.ListX Ecat.Fmmu Ecat.Fmmu_proofs Ecat.FmmuGroup.

Lemma set_at_set_at {A} (l : list A) : forall n v w, set_at n w (set_at n v l) = set_at n w l.
Proof. induction l as [|x l IH]; intros [|n] v w; cbn [set_at]; [reflexivity | reflexivity | reflexivity | f_equal; apply IH]. Qed.

Lemma set_at_id {A} (l : list A) : forall n v, nth_error l n = Some v -> set_at n v l = l.
Proof.
  induction l as [|x l IH]; intros [|n] v H; cbn [set_at nth_error] in *; try discriminate.
  - inversion H. reflexivity.
  - f_equal. apply IH. exact H.
Qed.

Lemma notin_ne i k (sl : list Z) : 0 <= i -> In i sl -> ~ In (Z.of_nat k) sl -> Z.to_nat i <> k.
Proof. intros Hi Hin Hk E. apply Hk. rewrite <- E, Z2Nat.id by lia. exact Hin. Qed.

(* leaving a mapping that has just been entered gives back exactly the table it found *)
Lemma exit_after_enter u w lg i u1 : map_enter u w lg = Some (i, u1) -> map_exit u1 i = Some u.
Proof.
  intros H. destruct (enter_takes_free _ _ _ _ _ H) as [R [F ->]].
  unfold map_exit, py_set. unfold zlen in *. rewrite set_at_length.
  destruct (Z.ltb_spec i 0); [lia|]. destruct (Z.leb_spec 0 i); [|lia]. destruct (Z.ltb_spec i (Z.of_nat (length u))); [|lia].
  cbn [andb]. f_equal. rewrite set_at_set_at. apply set_at_id. exact F.
Qed.

(* a group that is refused leaves the terminal's bookings exactly as it found them - also when its output image had already
   been mapped when the input image was refused *)
Theorem group_refused_restores u out_ inp : group_enter u out_ (Some inp) = None -> unwind u out_ inp = Some u.
Proof.
  unfold group_enter, unwind. destruct out_ as [lg|].
  - destruct (map_enter u true lg) as [[i u1]|] eqn:E1; cbn [option_map fst snd]; [|reflexivity].
    destruct (map_enter u1 false inp) as [[j u2]|] eqn:E2; [discriminate|]. intros _.
    eapply exit_after_enter. exact E1.
  - destruct (map_enter u false inp) as [[j u2]|]; [discriminate | reflexivity].
Qed.

(* the group-level steps are sequences of terminal-level steps: every slot a group is given was free, and the table after the
   group holds its addresses there and is unchanged elsewhere *)
Theorem group_enter_spec u out_ inp sl u' : group_enter u out_ inp = Some (sl, u') ->
  length u' = length u /\
  (forall i, In i sl -> 0 <= i < zlen u /\ free u (Z.to_nat i)) /\
  (forall j, ~ In (Z.of_nat j) sl -> nth_error u' j = nth_error u j) /\
  NoDup sl.
Proof.
  unfold group_enter. destruct out_ as [lg|].
  - destruct (map_enter u true lg) as [[i u1]|] eqn:E1; cbn [option_map fst snd]; [|discriminate].
    destruct (enter_takes_free _ _ _ _ _ E1) as [R1 [F1 ->]].
    destruct inp as [lg2|].
    + destruct (map_enter (set_at (Z.to_nat i) (Some lg) u) false lg2) as [[j u2]|] eqn:E2; [|discriminate].
      destruct (enter_takes_free _ _ _ _ _ E2) as [R2 [F2 ->]]. intros H; inversion H; subst; clear H.
      unfold zlen in R2. rewrite set_at_length in R2.
      assert (Hij : i <> j).
      { intros ->. unfold free in F2. rewrite set_at_same in F2 by (unfold zlen in R1; lia). discriminate. }
      assert (Fj : free u (Z.to_nat j)).
      { unfold free in *. rewrite set_at_other in F2 by lia. exact F2. }
      split; [rewrite !set_at_length; reflexivity|]. split.
      * intros k [<-|[<-|[]]]; unfold zlen; split; try assumption; unfold zlen in R1; lia.
      * split.
        -- intros k Hk. rewrite !set_at_other; [reflexivity | |]; eapply notin_ne; try exact Hk; try lia; cbn [In app]; auto.
        -- constructor; [intros [E|[]]; congruence | constructor; [intros [] | constructor]].
    + intros H; inversion H; subst; clear H. split; [apply set_at_length|]. split.
      * intros k [<-|[]]. split; assumption.
      * split.
        -- intros k Hk. rewrite set_at_other; [reflexivity|]. eapply notin_ne; try exact Hk; try lia; cbn [In]; auto.
        -- constructor; [intros [] | constructor].
  - destruct inp as [lg2|].
    + destruct (map_enter u false lg2) as [[j u2]|] eqn:E2; [|discriminate].
      destruct (enter_takes_free _ _ _ _ _ E2) as [R2 [F2 ->]]. intros H; inversion H; subst; clear H.
      split; [apply set_at_length|]. split.
      * intros k [<-|[]]. split; assumption.
      * split.
        -- intros k Hk. rewrite set_at_other; [reflexivity|]. eapply notin_ne; try exact Hk; try lia; cbn [In]; auto.
        -- constructor; [intros [] | constructor].
    + intros H; inversion H; subst. split; [reflexivity|]. split; [intros k []|]. split; [reflexivity | constructor].
Qed.
