(* The user-space half of a fast sync group (ebpfcat/ebpfcat.py):
   FastSyncGroup.run primes the loop with two copies of asm_packet (the sterile frame), then SyncGroupBase.run sends
   `data` (initially asm_packet) and, for ever: a response f arrives -> data := update_devices(f), send data; no response
   within 20 ms -> send data again.  FastSyncGroup.update_devices keeps an ACTIVE response (odd loop index) as
   current_data for the devices to read, and always returns asm_packet.
   Frames carry 14 bytes of Ethernet header here, like everywhere in Dispatch.v. *)
From Verif Require Export Ecat.Dispatch.

Inductive uev := URecv (f : list Z) | UTimeout.
Record ust := { u_data : list Z;                 (* what the loop sends next (and sent last) *)
                u_cur : option (list Z);         (* current_data *)
                u_sent : list (list Z) }.        (* ghost: every cyclic frame handed to the socket, oldest first *)

Definition active (f : list Z) : bool := Z.odd (byte_at f INDEX0).
Definition update_devices (asm : list Z) (cur : option (list Z)) (f : list Z) : option (list Z) * list Z :=
  ((if active f then Some f else cur), asm).

Definition ustep (asm : list Z) (s : ust) (e : uev) : ust :=
  match e with
  | URecv f => let '(cur', d) := update_devices asm (u_cur s) f in
               {| u_data := d; u_cur := cur'; u_sent := u_sent s ++ [d] |}
  | UTimeout => {| u_data := u_data s; u_cur := u_cur s; u_sent := u_sent s ++ [u_data s] |}
  end.
Definition uinit (asm : list Z) : ust := {| u_data := asm; u_cur := None; u_sent := [asm; asm; asm] |}.
Definition uloop (asm : list Z) (evs : list uev) : ust := fold_left (ustep asm) evs (uinit asm).
