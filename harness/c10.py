"""C10: every user-space map call of the library's Python API is issued against a
stand-in for the bpf() system call that knows the length of every Python buffer
whose address it is given (harness/sim_bpf.py); the sizes are compared with
Sys/MapBuf.v and with what the kernel would access."""
import struct

from .common import Check, Err, clist, cz
from . import sim_bpf

FMTS = ["B", "H", "I", "Q", "b", "h", "i", "q"]
SZ = {"B": 1, "H": 2, "I": 4, "Q": 8, "b": 1, "h": 2, "i": 4, "q": 8, "x": 8}


def rand_val(rng, f):
    n = SZ[f]
    lo, hi = (-(1 << 8 * n - 1), (1 << 8 * n - 1) - 1) if f.islower() else (0, (1 << 8 * n) - 1)
    return rng.choice([lo, hi, 0, 1, rng.randint(lo, hi)])


class C10(Check):
    pid = "C10"
    props_file = "Props/C10.v"
    corr_imports = ["Sys.MapBuf", "Corr.C10"]
    technique = ("Coq theorem (for every API operation, every declared map and every number of possible CPUs the buffers passed are at least what the kernel "
                 "accesses) + every map call of the real Python API against a stand-in for bpf() that checks the real buffer lengths before touching memory")
    trusted = ["harness/sim_bpf.py: stand-in for the bpf() system call (sizes the kernel reads / writes per command as in the kernel's map_lookup_elem / "
               "map_update_elem / map_get_next_key: key_size, value_size, round_up(value_size, 8) * num_possible_cpus for per-CPU maps)",
               "the buffer registry: lengths of bytearrays / bytes whose addresses the library takes through ebpfcat.bpf.addrof and c_char.from_buffer"]
    assumptions = ["the number of possible CPUs is read from /sys/devices/system/cpu/possible"]
    known_classes = {}

    def make_case(self, rng):
        def members(lo, hi):
            fs = [rng.choice(FMTS) for _ in range(rng.randint(lo, hi))]
            return sorted(fs, key=lambda f: -SZ[f])          # structures must be packed
        case = {"hashvars": [[rng.choice(FMTS + ["x"]), None] for _ in range(rng.randint(0, 4))],
                "percpu": [rng.choice(FMTS + ["x"]) for _ in range(rng.randint(0, 3))],
                "online": rng.choice([1, 2, 4, 16, 16]),
                # the kernel's mask of possible CPUs as /sys/devices/system/cpu/possible shows it (None: this machine's)
                "mask": rng.choice([None, None, "0", "0-7", "0-3,8-11", "0,2-3", "0,2,4,6", "0-1,4-5,8", "0-2,4"]),
                "key": members(1, 3), "value": members(1, 4), "ops": []}
        if rng.random() < 0.06:
            # a hash map with as many variables as its one-byte key allows, and more (more may be refused, never mis-sized)
            n = rng.choice([255, 255, 256, 257, 300])
            case["hashvars"] = [[rng.choice(["B", "I", "q"]), None] for _ in range(n)]
        if len(case["value"]) >= 2 and rng.random() < 0.3:
            case["inherit"] = rng.randint(1, len(case["value"]) - 1)
        for hv in case["hashvars"]:
            hv[1] = rng.choice([0.29, 2.5, 0]) if hv[0] == "x" else rand_val(rng, hv[0])
        keys = [[rand_val(rng, f) for f in case["key"]] for _ in range(3)]
        for _ in range(rng.randint(3, 12)):
            op = rng.choice(["set", "set", "get", "pop", "popd", "del", "iter", "in", "hget", "hset", "pread"])
            k = rng.choice(keys)
            case["ops"].append([op, k, [rand_val(rng, f) for f in case["value"]], rng.randrange(8), rng.randint(-5, 5)])
        # a third of the Dicts are declared lru=True (another map type in the kernel, the same buffers)
        case["lru"] = len(case["ops"]) % 3 == 0
        return case

    def gen_cases(self):
        return [self.make_case(self.rng) for _ in range(150 if self.tier == "quick" else 2000)]

    def corpus(self):
        return [{"hashvars": [["I", 7], ["B", 3]], "percpu": ["I", "Q"], "online": 4, "mask": "0-3,8-11", "key": ["I"], "value": ["q", "B"],
                 "ops": [["hget", [0], [0, 0], 0, 0], ["hget", [0], [0, 0], 1, 0], ["pread", [0], [0, 0], 0, 0], ["set", [5], [7, 1], 0, 0], ["pop", [5], [0, 0], 0, 0]]}]

    def run_impl(self, case):
        import ebpfcat.arraymap as arraymap
        from ebpfcat.arraymap import PerCPUArrayMap
        from ebpfcat.ebpf import EBPF, Structure, Member
        from ebpfcat.hashmap import HashMap, Dict
        from ebpfcat.bpf import ProgType
        mask = case.get("mask")
        ncpu = None
        pinned = None
        if mask is None and len(case["ops"]) % 4 == 1:
            # the kernel's list of possible CPUs cannot be read (no /sys in a container) AND this process is pinned to one CPU: all the
            # library can fall back on is the machine's CPU count - not the number of CPUs this process may run on
            import builtins
            import os

            def fake_open(path, *a, **kw):      # noqa
                if str(path) == "/sys/devices/system/cpu/possible":
                    raise FileNotFoundError(path)
                return builtins.open(path, *a, **kw)
            arraymap.open = fake_open
            mask = "unreadable"
            ncpu = os.cpu_count()
            pinned = os.sched_getaffinity(0)
            os.sched_setaffinity(0, {min(pinned)})
        elif mask:
            import builtins
            import io
            ncpu = sum(int(r.partition("-")[2] or r.partition("-")[0]) - int(r.partition("-")[0]) + 1 for r in mask.split(","))

            def fake_open(path, *a, **kw):
                if str(path) == "/sys/devices/system/cpu/possible":
                    return io.StringIO(mask + "\n")
                return builtins.open(path, *a, **kw)
            arraymap.open = fake_open
        sim = sim_bpf.BpfSim(ncpu)
        tags, results = [], []
        saved = getattr(arraymap, "cpu_count", None)
        if mask != "unreadable":
            arraymap.cpu_count = lambda: case["online"]       # a machine with fewer online than possible CPUs
        try:
            with sim_bpf.installed(sim):
                Key = type("Key", (Structure,), {f"k{i}": Member(f) for i, f in enumerate(case["key"])})
                k = case.get("inherit") or 0
                if k:
                    # the value structure extends a base structure, which another Dict (declared first) uses by itself
                    VBase = type("VBase", (Structure,), {f"v{i}": Member(f) for i, f in enumerate(case["value"][:k])})
                    Value = type("Value", (VBase,), {f"v{i}": Member(f) for i, f in enumerate(case["value"]) if i >= k})
                else:
                    Value = type("Value", (Structure,), {f"v{i}": Member(f) for i, f in enumerate(case["value"])})
                hm, pc = HashMap(), PerCPUArrayMap()
                ns = {"table0": Dict(key=Key, value=VBase, size=8)} if k else {}
                ns["table"] = Dict(key=Key, value=Value, size=8, lru=True) if case.get("lru") else Dict(key=Key, value=Value, size=8)
                if case["hashvars"]:
                    ns["hm"] = hm
                    for i, (f, d) in enumerate(case["hashvars"]):
                        ns[f"h{i}"] = hm.globalVar(f, default=d)
                if case["percpu"]:
                    ns["pc"] = pc
                    for i, f in enumerate(case["percpu"]):
                        ns[f"p{i}"] = pc.globalVar(f)
                P = type("P", (EBPF,), ns)
                e = P(ProgType.XDP, "GPL")
                e.r0 = 2
                e.exit()
                n0 = len(sim.calls)
                try:
                    e.load()
                except OSError as ex:
                    results.append(("load", f"OSError {ex.errno}"))
                except Exception as ex:      # noqa
                    results.append(("load", f"{type(ex).__name__}: {ex}"))
                tags += [("HashVarSet",)] * (len(sim.calls) - n0)

                def mk(cls, vals, pre):
                    o = cls()
                    for i, v in enumerate(vals):
                        setattr(o, f"{pre}{i}", v)
                    return o
                K, V = sum(SZ[f] for f in case["key"]), sum(SZ[f] for f in case["value"])
                total = sum(SZ[f] for f in case["percpu"])
                for op, k, v, idx, amount in case["ops"]:
                    n0 = len(sim.calls)
                    tag = None
                    try:
                        if op == "set" and case.get("inherit") and idx % 3 == 0:
                            # an object of the BASE structure (fewer members, a shorter buffer) is offered as the value: it must be
                            # refused before any system call - never handed to the kernel
                            kb = case["inherit"]
                            try:
                                e.table[mk(Key, k, "k")] = mk(VBase, v[:kb], "v")
                                refused = False
                            except (AssertionError, TypeError, ValueError):
                                refused = True
                            if not refused and len(sim.calls) > n0:
                                sim.overruns.append(("update", "value of the base structure accepted", V, sum(SZ[f] for f in case["value"][:kb])))
                            results.append((op, "ok"))
                            tags += [("DictSet", K, V)] * (len(sim.calls) - n0)
                            continue
                        if op == "set":
                            e.table[mk(Key, k, "k")] = mk(Value, v, "v")
                            tag = ("DictSet", K, V)
                        elif op in ("get", "in"):
                            tag = ("DictGet", K, V)
                            _ = e.table[mk(Key, k, "k")]
                        elif op == "pop":
                            tag = ("DictPop", K, V)
                            e.table.pop(mk(Key, k, "k"))
                        elif op == "popd":
                            tag = ("DictPop", K, V)
                            e.table.pop(mk(Key, k, "k"), None)
                        elif op == "del":
                            tag = ("DictDel", K, V)
                            del e.table[mk(Key, k, "k")]
                        elif op == "iter":
                            tag = ("DictIter", K, V)
                            list(e.table)
                        elif op == "hget" and case["hashvars"]:
                            tag = ("HashVarGet",)
                            getattr(e, f"h{idx % len(case['hashvars'])}")
                        elif op == "hset" and case["hashvars"]:
                            tag = ("HashVarSet",)
                            i = idx % len(case["hashvars"])
                            f = case["hashvars"][i][0]
                            # also values the variable's format cannot hold (negative into unsigned, too large): they may be
                            # refused with struct.error, but never written through a buffer shorter than the map's value
                            v = 1.5 if f == "x" else amount * (1 if idx % 3 else 1 << (8 * SZ[f] - 1))
                            fits = f == "x" or (-(1 << 8 * SZ[f] - 1) <= v < (1 << 8 * SZ[f] - 1) if f.islower() else 0 <= v < (1 << 8 * SZ[f]))
                            try:
                                setattr(e, f"h{i}", v)
                            except struct.error:
                                if fits:
                                    raise
                                results.append((op, "ok"))      # refused: fine
                                new = len(sim.calls) - n0
                                tags += [tag] * new
                                continue
                        elif op == "pread" and case["percpu"]:
                            tag = ("PerCpuRead", total, sim.ncpu)
                            e.pc.read()
                            _ = [list(getattr(e, f"p{i}")) for i in range(len(case["percpu"]))]
                        results.append((op, "ok"))
                    except KeyError:
                        results.append((op, "KeyError"))
                    except OSError as ex:
                        results.append((op, f"OSError {ex.errno}"))
                    except Exception as ex:      # noqa
                        results.append((op, f"{type(ex).__name__}: {ex}"))
                    new = len(sim.calls) - n0
                    if tag and tag[0] == "DictIter":
                        tags += [("DictIterFirst", K, V)] + [("DictIterNext", K, V)] * (new - 1) if new else []
                    else:
                        tags += [tag] * new
        finally:
            if saved is not None:
                arraymap.cpu_count = saved
            if mask:
                del arraymap.open
            if pinned is not None:
                os.sched_setaffinity(0, pinned)
        o = {"calls": [list(c) for c in sim.calls], "tags": tags, "overruns": [list(x) for x in sim.overruns], "results": results, "ncpu": sim.ncpu}
        case["_o"] = o
        return o

    def model_term(self, case):
        o = case.get("_o")
        if o is None or isinstance(o, Err):
            return None
        if len(o["tags"]) != len(o["calls"]) or any(t is None for t in o["tags"]):
            return None
        return f"(sizes {cz(o['ncpu'])} {clist(['(' + ' '.join([t[0]] + [cz(x) for x in t[1:]]) + ')' for t in o['tags']])})"

    def model_value(self, case, o):
        return [[c[2], c[3], c[4], c[5]] for c in o["calls"]]

    def holds(self, case, o):
        if isinstance(o, Err):
            return o.what
        if o["overruns"]:
            op, what, need, have = o["overruns"][0]
            return (f"{op}: the kernel accesses {need} bytes through the {what} pointer, the Python buffer has {have} "
                    f"(maps: hash vars {case['hashvars']}, per-CPU {case['percpu']} with {case['online']} online / {o['ncpu']} possible CPUs, "
                    f"Dict {case['key']} -> {case['value']}); results {o['results']}")
        for c in o["calls"]:
            if c[2] < c[4] or c[3] < c[5]:
                return f"call {c}: buffer smaller than the kernel's access"
        bad = [r for r in o["results"] if r[1] not in ("ok", "KeyError")]
        if len(case["hashvars"]) > 255:
            # more variables than a one-byte key can number: a refusal (struct.error) is fine, undersized buffers are not
            bad = [r for r in bad if "format requires" not in str(r[1]) and "struct.error" not in str(r[1]) and not str(r[1]).startswith("error")]
        if bad:
            return f"API call failed: {bad[0]}; ops {case['ops']}"
        return True

    def nontrivial(self, case, o):
        return not isinstance(o, Err) and len(o["calls"]) > 0

    def rule(self):
        return ("programs declaring 0-4 hash-map variables (all formats incl. x, with defaults; 6%: 255, 256, 257 or 300 of them), 0-3 per-CPU array variables on a machine with 1/2/4/16 online CPUs "
                "whose mask of possible CPUs is this machine's or one of 0, 0-7, 0-3,8-11, 0,2-3, 0,2,4,6, 0-1,4-5,8, 0-2,4 (served for /sys/devices/system/cpu/possible; a quarter of the cases without a mask: the file cannot be read and the process is pinned to one CPU), a Dict (a third of them lru=True) with 1-3 key and 1-4 value members of all sizes (30%: the value structure extends a base structure that an earlier Dict uses by itself); load() and 3-12 API operations: Dict set / get / in / pop / pop "
                "with default / del / iteration, hash variable get / set, per-CPU read and indexing")

    def distribution(self, cases, observed):
        d = {}
        for o in observed:
            if isinstance(o, Err):
                continue
            for c in o["calls"]:
                d[c[0]] = d.get(c[0], 0) + 1
        return d

    def describe(self, case):
        return {k: v for k, v in case.items() if not k.startswith("_")}


CHECK = C10
