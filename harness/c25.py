"""C25: EtherCat.find_free_address / assigned_address / scan_serial_numbers under
concurrent initialisation, on the simulated bus, against Ecat/Addr.v"""
import asyncio
import logging
import random
import struct

from .common import Check, Err, clist, cnat, cz, czlist
from .sim_bus import SimBus, SimTerminal, attach


logging.disable(logging.CRITICAL)      # injected bus faults make the master log tracebacks


class C25(Check):
    pid = "C25"
    props_file = "Props/C25.v"
    corr_imports = ["Ecat.Addr", "Corr.C25"]
    technique = "Coq invariant proof over all interleavings of the atomic steps (between awaits) and all random draws + differential correspondence: recorded real traces replayed in the model"
    trusted = ["harness/sim_bus.py", "random.randint replaced by a scripted PRNG; response delays from the same PRNG",
               "atomicity of code between two awaits (asyncio)"]
    assumptions = ["pre-assigned station addresses do not change while the master assigns addresses"]

    # case: {"pre": [station address or 0 per terminal], "range": (lo, hi), "seed": int, "mode": "gather"|"scan"}
    def corpus(self):
        return [{"pre": [0, 0, 0, 0], "range": (1000, 1004), "seed": 0, "mode": "gather"},
                {"pre": [0, 0, 0, 0, 0, 0], "range": (1000, 1007), "seed": 3, "mode": "gather"},
                {"pre": [1001, 0, 1003, 0, 0], "range": (1000, 1005), "seed": 1, "mode": "gather"},
                {"pre": [0, 0, 0, 0, 0], "range": (1000, 1006), "seed": 2, "mode": "scan"},
                {"pre": [0, 1001], "range": (1000, 1003), "seed": 4, "mode": "reserve"},
                {"pre": [0, 0], "range": (1000, 1004), "seed": 5, "mode": "reserve"},
                {"pre": [0, 0, 0], "range": (1000, 1006), "seed": 6, "mode": "reconnect"}]

    def gen_cases(self):
        rng = self.rng
        out = []
        for k in range(150 if self.tier == "quick" else 2000):
            n = rng.randint(1, 8)
            lo = 1000
            hi = lo + n + rng.randint(0, 3)
            pre = [rng.choice([0, 0, 0, rng.randint(lo, hi), rng.randint(lo, hi + 50)]) for _ in range(n)]
            # pre-assigned addresses are distinct on a sane bus
            seen = set()
            for i, a in enumerate(pre):
                if a in seen:
                    pre[i] = 0
                seen.add(a)
            mode = rng.choice(["gather", "gather", "scan", "reserve", "reconnect"])
            if mode in ("reserve", "reconnect"):
                hi += 2          # room for the addresses reserved ahead of time
            case = {"pre": pre, "range": (lo, hi), "seed": rng.randrange(1 << 30), "mode": mode}
            if mode == "gather" and rng.random() < 0.3:
                # a bus fault: the k-th response frame comes back cut short.  The requests in it may fail, but no address may be
                # handed out on the strength of a damaged answer
                case["damage"] = rng.choice([rng.randint(1, 3 * n + 2), "probe", "probe"])
            out.append(case)
        rng = random.Random(self.seed + 25)      # its own stream: the cases above stay what they were
        for k in range(12 if self.tier == "quick" else 150):
            # more terminals than datagrams fit into one frame (15): the concurrent probes spill over into further frames
            n = rng.randint(16, 34)
            lo = 1000
            hi = lo + n + rng.randint(0, 3)
            pre = [rng.choice([0, 0, rng.randint(lo, hi), rng.randint(lo, hi + 50)]) for _ in range(n)]
            seen = set()
            for i, a in enumerate(pre):
                if a in seen:
                    pre[i] = 0
                seen.add(a)
            out.append({"pre": pre, "range": (lo, hi), "seed": rng.randrange(1 << 30), "mode": rng.choice(["gather", "gather", "scan"])})
        for k in range(25 if self.tier == "quick" else 300):
            n = rng.randint(3, 9)
            h = rng.randint(1, n - 1)
            lo = 1000
            hi = lo + n + rng.randint(0, 2)
            # the hot-plugged front part: unaddressed terminals first, then terminals that still carry an address of the range
            front = [0] * rng.randint(1, h) + [rng.randint(lo, hi) for _ in range(h)]
            pre = front[:h] + [rng.choice([0, 0, rng.randint(lo, hi)]) for _ in range(n - h)]
            seen = set()
            for i, a in enumerate(pre):
                if a in seen:
                    pre[i] = 0
                seen.add(a)
            out.append({"pre": pre, "range": (lo, hi), "seed": rng.randrange(1 << 30), "mode": "rescan", "hidden": h})
        return out

    def run_impl(self, case):
        import ebpfcat.ethercat as ethercat
        from ebpfcat.ebpfcat import SimpleEtherCat
        rng = random.Random(case["seed"])
        events = []
        saved = ethercat.randint

        def fake_randint(a, b):
            i = rng.randint(a, b)
            if (a, b) == tuple(case["range"]):     # not the frame-index draws of roundtrip_packet
                events.append(("draw", asyncio.current_task().get_name(), i))
            return i

        async def go():
            ec = SimpleEtherCat("verif0")
            ec.terminal_addr_range = tuple(case["range"])
            sims = [SimTerminal(station=a, eeprom=bytes(28) + struct.pack("<I", 100 + i) + bytes(200)) for i, a in enumerate(case["pre"])]
            bus = SimBus(sims)
            tr = attach(ec, bus)
            nframes = [0, 0]
            real_sendto = tr.sendto

            def delayed_sendto(frame, addr=None):
                # response after a random short delay: varies which task runs first
                frame = bytes(frame)
                tr.sent.append(frame)
                resp = bus.process(frame)
                nframes[0] += 1
                hit = False
                if case.get("damage") == "probe":
                    # the frame that carries a probe of an address at which a terminal DOES answer
                    try:
                        from .c11 import parse_frame
                        stations = {x.station for x in sims if x.station}
                        hit = nframes[0] > 0 and not nframes[1] and any(d["cmd"] == 4 and (d["addr"] >> 16) == 0x10 and (d["addr"] & 0xffff) in stations
                                                                       for d in parse_frame(frame)[1][1:])
                    except Exception:      # noqa
                        hit = False
                if nframes[0] == case.get("damage") or hit:
                    nframes[1] = 1
                    resp = resp[:max(16, len(resp) // 2)]
                asyncio.get_event_loop().call_later(rng.choice([0, 0, 0.0003, 0.0008]), ec.datagram_received, resp, addr)
            tr.sendto = delayed_sendto
            real_rt = ec.roundtrip

            async def rec_rt(cmd, pos, offset, *args, **kw):
                name = asyncio.current_task().get_name()
                try:
                    ret = await real_rt(cmd, pos, offset, *args, **kw)
                except ethercat.EtherCatError:
                    if cmd is ethercat.ECCmd.FPRD and offset == 0x10:
                        events.append(("probed", name, pos, False))
                    raise
                if cmd is ethercat.ECCmd.FPRD and offset == 0x10:
                    events.append(("probed", name, pos, True))
                if cmd is ethercat.ECCmd.APWR and offset == 0x10:
                    events.append(("wrote", name, args[1]))
                return ret
            ec.roundtrip = rec_rt
            n = len(case["pre"])
            if case["seed"] % 4 == 0 and not case.get("damage"):
                # a request too long for any frame was made (and refused) on this connection just before: nothing of it may linger
                try:
                    await real_rt(ethercat.ECCmd.FPRD, tuple(case["range"])[0], 0x1000, data=2000)
                    events.append(("oversized request accepted",))
                except OverflowError:
                    pass
            try:
                if case["mode"] == "gather":
                    tasks = [asyncio.ensure_future(ec.assigned_address(-i)) for i in range(n)]
                    for i, t in enumerate(tasks):
                        t.set_name(f"T{i}")
                    res = await asyncio.wait_for(asyncio.gather(*tasks, return_exceptions=bool(case.get("damage"))), 120)
                    res = [None if isinstance(r, BaseException) else r for r in res]      # a request in the damaged frame failed: no address
                elif case["mode"] in ("reserve", "reconnect"):
                    # addresses are reserved ahead of time (an address once returned "will never be handed out again"),
                    # a scan assigns the unaddressed terminals, then the rest of the range is reserved
                    held = [await asyncio.wait_for(ec.find_free_address(), 120)]
                    if case["mode"] == "reconnect":
                        # the master object connects a second time (as FastEtherCat.connect() followed by run() does): what it
                        # handed out before stays handed out
                        class FakeSock:
                            def bind(self, *a):
                                pass
                        tr._sock = FakeSock()
                        loop = asyncio.get_event_loop()

                        async def fake_endpoint(factory, **kw):
                            proto = factory()
                            proto.connection_made(tr)
                            return tr, proto
                        old_task = ec._sendloop_task
                        loop.create_datagram_endpoint = fake_endpoint
                        try:
                            await ec.connect()
                        finally:
                            del loop.create_datagram_endpoint
                        old_task.cancel()
                    d = await asyncio.wait_for(ec.scan_serial_numbers(), 120)
                    res = [d.get(100 + i) for i in range(n)]
                    free_left = (case["range"][1] - case["range"][0] + 1) - len(set(r for r in res if r and case["range"][0] <= r <= case["range"][1])) - 1
                    for _ in range(min(2, max(0, free_left))):
                        held.append(await asyncio.wait_for(ec.find_free_address(), 120))
                    res = res + held
                elif case["mode"] == "rescan":
                    # hot-plug: the first scan sees only the rear part of the bus; then further terminals appear IN FRONT (some still
                    # carrying a station address from an earlier life, unaddressed ones before them) and the bus is scanned again
                    h = case["hidden"]
                    bus.terminals = sims[h:]
                    await asyncio.wait_for(ec.scan_serial_numbers(), 120)
                    # the addresses the newcomers carry are addresses of the range that nobody has at this moment (a terminal coming
                    # with an address that the master has just given to another one is a conflict no master can avoid)
                    lo_, hi_ = case["range"]
                    free = [a for a in range(lo_, hi_ + 1) if a not in ec.used_addresses and a not in {x.station for x in sims[h:]}]
                    for x in sims[:h]:
                        if x.station:
                            x.station = free.pop(rng.randrange(len(free))) if free else 0
                    pre_eff = [x.station for x in sims[:h]] + list(case["pre"][h:])
                    bus.terminals = sims
                    d = await asyncio.wait_for(ec.scan_serial_numbers(), 120)
                    res = [d.get(100 + i) for i in range(n)]
                else:
                    d = await asyncio.wait_for(ec.scan_serial_numbers(), 120)
                    res = [d.get(100 + i) for i in range(n)]
            finally:
                ec._sendloop_task.cancel()
            return {"res": res, "events": events, "used": sorted(ec.used_addresses), "bus": [s.station for s in sims],
                    **({"pre_eff": pre_eff} if case["mode"] == "rescan" else {})}
        ethercat.randint = fake_randint
        try:
            return asyncio.run(go())
        except asyncio.TimeoutError:
            return Err(8, "did not terminate")
        finally:
            ethercat.randint = saved

    # --- correspondence: only for the 'gather' mode, where every event is attributable to a task
    def model_term(self, case):
        o = case["_o"]
        if isinstance(o, Err) or case["mode"] != "gather" or case.get("damage"):
            return "(VZ 0)"
        evs = []
        for e in o["events"]:
            t = int(e[1][1:])
            if e[0] == "draw":
                evs.append(f"Draw {cnat(t)} {cz(e[2])}")
            elif e[0] == "probed":
                evs.append(f"Probed {cnat(t)}")
            else:
                evs.append(f"Wrote {cnat(t)}")
        lo, hi = case["range"]
        return f"(run {cz(lo)} {cz(hi)} {czlist(case['pre'])} {clist(evs)})"

    def model_value(self, case, o):
        if isinstance(o, Err) or case["mode"] != "gather" or case.get("damage"):
            return 0
        tasks = [[0, a] if a else [4, r] for a, r in zip(case["pre"], o["res"])]
        # used_addresses in insertion order is not observable from the set: compare as the model's order
        # (the model inserts in draw order, which the recorded events determine)
        order = []
        for e in o["events"]:
            if e[0] == "draw" and e[2] not in order and case["range"][0] <= e[2] <= case["range"][1]:
                order.append(e[2])
        if sorted(order) != o["used"]:
            order = o["used"] + [-1]     # force a mismatch: the set differs from the draws
        return [tasks, order, o["bus"], True]

    def holds(self, case, o):
        if isinstance(o, Err):
            return f"failed: {o.what}"
        lo, hi = case["range"]
        pre = o.get("pre_eff", case["pre"])
        res = o["res"]
        given = [r for a, r in zip(pre, res) if not a] + list(res[len(pre):])      # the latter: addresses reserved with find_free_address
        if case.get("damage"):
            given = [r for r in given if r is not None]        # requests that failed with the damaged frame got no address
        for a, r in zip(pre, res):
            if case.get("damage") and r is None:
                continue
            if a and r != a:
                return f"terminal that answered with {a} was reported at {r}"
        for r in given:
            if r is None or not lo <= r <= hi:
                return f"assigned address {r} outside the configured range {lo}..{hi}"
            if r in [a for a in pre if a]:
                return f"assigned address {r} equals an address at which a terminal already answered"
        if len(set(given)) != len(given):
            return f"an address was handed out twice: {sorted(given)}"
        stations = [x for x in o["bus"] if x != 0] if case.get("damage") else o["bus"]      # after a fault terminals may stay unaddressed
        if len(set(stations)) != len(stations):
            return f"two terminals share a station address: {o['bus']}"
        # each probe answer must reflect the bus
        return True

    def nontrivial(self, case, o):
        return not isinstance(o, Err) and sum(1 for a in case["pre"] if not a) >= 2

    def search_cases(self):
        return [{"pre": [0] * n, "range": (1000, 1000 + n), "seed": s, "mode": m}
                for n in (2, 3, 5, 8) for s in range(25) for m in ("gather", "scan")]

    def rule(self):
        return ("buses of 1-8 terminals (and some of 16-34: more concurrent probes than the 15 datagrams of a frame), each unaddressed or pre-assigned (inside or outside the range), address range only 0-3 larger than the terminal count so that "
                "draws collide, concurrent assigned_address tasks (or scan_serial_numbers, also after addresses were reserved ahead and after a second connect() of the same master object), scripted randint and random response delays; plus rescans after a hot-plug (the first scan sees the rear part of the bus, then terminals appear in front - unaddressed ones before ones that carry an address - and the bus is scanned again); a quarter of the cases after a refused over-long request on the same connection; 30% of the concurrent cases with one response frame cut short (requests in it may fail, addresses handed out are still checked); non-trivial = at least two unaddressed terminals")

    def distribution(self, cases, observed):
        d = {"draws": 0, "collisions": 0, "probes_answered": 0, "scan_mode": 0}
        for c, o in zip(cases, observed):
            d["scan_mode"] += c["mode"] == "scan"
            if isinstance(o, Err):
                continue
            seen = set()
            for e in o["events"]:
                if e[0] == "draw":
                    d["draws"] += 1
                    d["collisions"] += e[2] in seen
                    seen.add(e[2])
                elif e[0] == "probed":
                    d["probes_answered"] += e[3]
        return d

    def describe(self, case):
        return {"pre": case["pre"], "range": list(case["range"]), "seed": case["seed"], "mode": case["mode"], **({"damage": case["damage"]} if case.get("damage") else {}),
                **({"hidden": case["hidden"]} if "hidden" in case else {})}

    def case_from_json(self, w):
        return {"pre": w["pre"], "range": tuple(w["range"]), "seed": w["seed"], "mode": w["mode"], **({"damage": w["damage"]} if w.get("damage") else {}),
                **({"hidden": w["hidden"]} if "hidden" in w else {})}


_orig = C25.run_impl


def _wrapped(self, case):
    o = _orig(self, case)
    case["_o"] = o
    return o


C25.run_impl = _wrapped
CHECK = C25
