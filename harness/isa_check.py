"""Validation of the Coq ISA model (coq/Ebpf/Isa.v) against the running kernel:
random scalar programs are executed by BPF_PROG_TEST_RUN and by the model and
must leave the same packet and return value.  Used by the eBPF checks as an
extra tie; skipped (and reported as such) when bpf() is not permitted."""
import ctypes
import os
import random
import struct

from .common import run_cases
from .ebpf_exec import assemble, exec_term, kernel_available

ALU = {"add": 0x00, "sub": 0x10, "mul": 0x20, "div": 0x30, "or": 0x40, "and": 0x50, "lsh": 0x60, "rsh": 0x70,
       "neg": 0x80, "mod": 0x90, "xor": 0xa0, "mov": 0xb0, "arsh": 0xc0}
JMP = [0x10, 0x20, 0x30, 0x40, 0x50, 0x60, 0x70, 0xa0, 0xb0, 0xc0, 0xd0]


def raw_test_run(code, pkt):
    from ebpfcat import bpf
    fd, _ = bpf.prog_load(bpf.ProgType.XDP, code, "GPL")
    try:
        din = ctypes.create_string_buffer(bytes(pkt), len(pkt))
        dout = ctypes.create_string_buffer(len(pkt) + 256)
        ret, vals = bpf.bpf(10, "IIIIQQII20x", fd, 0, len(pkt), len(pkt) + 256,
                            ctypes.addressof(din), ctypes.addressof(dout), 1, 0)
        retval, size_out = vals[1], vals[3]
        return retval, dout.raw[:size_out]
    finally:
        os.close(fd)


def rand_imm(rng):
    return rng.choice([0, 1, -1, 2, 7, 31, 32, 63, 0x7fffffff, -0x80000000, rng.randrange(-2 ** 31, 2 ** 31)])


def rand_program(rng):
    I = []
    I += [(0x61, 6, 1, 0, 0), (0x61, 7, 1, 4, 0), (0xbf, 8, 6, 0, 0), (0x07, 8, 0, 0, 48),
          (0x2d, 8, 7, 0, 0)]          # if r8 > r7 goto <exit>: patched below
    guard = len(I) - 1
    I += [(0x79, 2, 6, 0, 0), (0x79, 3, 6, 8, 0), (0xb7, 4, 0, 0, rand_imm(rng)), (0x18, 5, 0, 0, rng.randrange(2 ** 32)),
          (0x00, 0, 0, 0, rng.randrange(2 ** 32))]
    regs = [2, 3, 4, 5]
    for _ in range(rng.randint(3, 14)):
        kind = rng.random()
        if kind < 0.6:
            name = rng.choice(list(ALU))
            code = ALU[name]
            cls = rng.choice([7, 4])
            d = rng.choice(regs)
            if name == "neg":
                I.append((code | cls, d, 0, 0, 0))
            elif rng.random() < 0.5:
                I.append((code | cls | 8, d, rng.choice(regs), 0, 0))
            else:
                imm = rand_imm(rng)
                if name in ("div", "mod") and imm == 0:
                    imm = 3
                if name in ("lsh", "rsh", "arsh"):
                    imm = rng.randrange(0, 64 if cls == 7 else 32)
                I.append((code | cls, d, 0, 0, imm))
        elif kind < 0.7:
            d = rng.choice(regs)
            I.append((rng.choice([0xd4, 0xdc]), d, 0, 0, rng.choice([16, 32, 64])))
        elif kind < 0.85:
            # conditional jump over one MOV
            cls = rng.choice([5, 6])
            d, s = rng.choice(regs), rng.choice(regs)
            code = rng.choice(JMP)
            if rng.random() < 0.5:
                I.append((code | cls | 8, d, s, 1, 0))
            else:
                I.append((code | cls, d, 0, 1, rand_imm(rng)))
            I.append((0xb7, rng.choice(regs), 0, 0, rand_imm(rng)))
        else:
            # store to the stack with one size, load back with another
            sz_st, sz_ld = rng.choice([0x18, 0x00, 0x08, 0x10]), rng.choice([0x18, 0x00, 0x08, 0x10])
            I.append((0x7b, 10, rng.choice(regs), -8, 0))           # full init of the slot
            I.append((0x63 & ~0x18 | sz_st, 10, rng.choice(regs), -8, 0))
            I.append((0x61 & ~0x18 | sz_ld, rng.choice(regs), 10, -8, 0))
    I += [(0x7b, 6, 2, 16, 0), (0x7b, 6, 3, 24, 0), (0x7b, 6, 4, 32, 0), (0x7b, 6, 5, 40, 0),
          (0xb7, 0, 0, 0, 2), (0x95, 0, 0, 0, 0)]
    exit_at = len(I)
    I += [(0xb7, 0, 0, 0, 1), (0x95, 0, 0, 0, 0)]
    op, d, s, _, imm = I[guard]
    I[guard] = (op, d, s, exit_at - guard - 1, imm)
    return I


def check(seed, n=120):
    """returns (name, ok, detail)"""
    if not kernel_available():
        return ("isa-vs-kernel", True, "skipped: bpf() not permitted here")
    rng = random.Random(seed)
    pairs, rejected = [], 0
    for _ in range(n):
        prog = rand_program(rng)
        pkt = bytes(rng.choice([0, 0xff, rng.randrange(256)]) for _ in range(rng.choice([48, 48, 60, 20])))
        try:
            retval, out = raw_test_run(assemble(prog), pkt)
        except OSError:
            rejected += 1
            continue
        from .common import RLE
        pairs.append((exec_term(prog, pkt), [[1], retval, RLE(out), []]))
    bad, log = run_cases("isa", ["Ebpf.Isa", "Corr.Exec"], pairs, shard=40)
    ok = not bad and len(pairs) >= n // 2
    return ("isa-vs-kernel", ok, f"{len(pairs)} random programs executed by the kernel and by the Coq ISA model, {len(bad)} differ, "
            f"{rejected} rejected by the verifier {log[:300]}")


if __name__ == "__main__":
    import sys
    print(check(int(sys.argv[1]) if len(sys.argv) > 1 else 1, 200))
