From Verif Require Import Lib.ListX Ecat.Dispatch Ecat.Dispatch_proofs Ecat.UserLoop.

(* sterile() writes NOP over the command byte of every write datagram and nothing else *)
Lemma sterile_length l : forall f, length (sterile l f) = length f.
Proof. induction l as [|[[[st w] c] e] tl IH]; intros f; cbn [sterile]; [reflexivity|]. rewrite IH, set_byte_length. reflexivity. Qed.

Lemma sterile_other l : forall f j, (forall st w c e, In (st, w, c, e) l -> (st + 14)%nat <> j) -> byte_at (sterile l f) j = byte_at f j.
Proof.
  induction l as [|[[[st w] c] e] tl IH]; intros f j H; cbn [sterile]; [reflexivity|].
  rewrite IH by (intros; eapply H; right; eassumption).
  apply byte_set_other. intros ->. eapply H; [left; reflexivity | reflexivity].
Qed.

Lemma sterile_nop l : forall f st w c e, In (st, w, c, e) l -> (st + 14 < length f)%nat -> byte_at (sterile l f) (st + 14) = 0.
Proof.
  induction l as [|[[[st' w'] c'] e'] tl IH]; intros f st w c e Hin Hlen; [destruct Hin|].
  cbn [sterile]. destruct (in_dec (fun a b : otf => ltac:(repeat decide equality)) (st, w, c, e) tl) as [Ht | Ht].
  - eapply IH; [exact Ht | rewrite set_byte_length; exact Hlen].
  - destruct Hin as [Heq | Hin]; [| contradiction]. inversion Heq; subst.
    destruct (existsb (fun o : otf => let '(s, _, _, _) := o in Nat.eqb (s + 14) (st + 14)) tl) eqn:Ex.
    + apply existsb_exists in Ex. destruct Ex as [[[[s2 w2] c2] e2] [Hin2 Heq2]]. apply Nat.eqb_eq in Heq2.
      replace (st + 14)%nat with (s2 + 14)%nat by exact Heq2.
      eapply IH; [exact Hin2 | rewrite set_byte_length; lia].
    + rewrite sterile_other.
      * rewrite byte_set_same by exact Hlen. reflexivity.
      * intros s2 w2 c2 e2 Hin2 Heq2.
        assert (existsb (fun o : otf => let '(s, _, _, _) := o in Nat.eqb (s + 14) (st + 14)) tl = true).
        { apply existsb_exists. exists (s2, w2, c2, e2). split; [exact Hin2 | apply Nat.eqb_eq; exact Heq2]. }
        congruence.
Qed.

(* the loop never hands anything but asm_packet to the socket - whatever arrives, whenever the timeout strikes *)
Definition uinv (asm : list Z) (s : ust) : Prop := u_data s = asm /\ Forall (eq asm) (u_sent s).

Lemma uinv_init asm : uinv asm (uinit asm).
Proof. split; [reflexivity | repeat constructor]. Qed.

Lemma uinv_step asm s e : uinv asm s -> uinv asm (ustep asm s e).
Proof.
  intros [Hd Hs]. destruct e as [f |]; cbn [ustep update_devices u_data u_sent]; split; try reflexivity; try assumption;
    apply Forall_app; split; try assumption; constructor; auto.
Qed.

Theorem uloop_sends_asm asm evs : uinv asm (uloop asm evs).
Proof.
  unfold uloop. generalize (uinv_init asm). generalize (uinit asm).
  induction evs as [|e evs IH]; intros s Hs; cbn [fold_left]; [exact Hs|]. apply IH. apply uinv_step. exact Hs.
Qed.

(* hence: no cyclic frame leaves user space with an enabled write datagram *)
Theorem user_space_frames_disabled l full evs f st w c e :
  In f (u_sent (uloop (sterile l full) evs)) -> In (st, w, c, e) l -> (st + 14 < length full)%nat ->
  byte_at f (st + 14) = 0.
Proof.
  intros Hf Hin Hlen. destruct (uloop_sends_asm (sterile l full) evs) as [_ Hs].
  rewrite Forall_forall in Hs. rewrite <- (Hs f Hf). eapply sterile_nop; eassumption.
Qed.

(* what the devices read (current_data) is only ever an ACTIVE response *)
Theorem current_data_is_active asm evs f : u_cur (uloop asm evs) = Some f -> active f = true.
Proof.
  unfold uloop. assert (G : forall evs s, (forall g, u_cur s = Some g -> active g = true) -> forall f, u_cur (fold_left (ustep asm) evs s) = Some f -> active f = true).
  { clear. induction evs as [|e evs IH]; intros s Hs f; cbn [fold_left]; [apply Hs|]. apply IH.
    intros g. destruct e as [r |]; cbn [ustep update_devices u_cur]; [| apply Hs].
    destruct (active r) eqn:Ea; [intros Hg; inversion Hg; subst; exact Ea | apply Hs]. }
  apply G. cbn. discriminate.
Qed.
