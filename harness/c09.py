"""C09: hash-map variables and Dict entries: values / entries written on the Python
side (through the real API against the bpf() stand-in) are read by the REAL
generated program (executed in the Coq ISA model extended with hash maps,
Corr/C09.v) and vice versa."""
import struct

from .common import Check, Err, clist, cz, cnat, eval_terms
from . import sim_bpf, ebpf_exec, exprs

FMTS = ["B", "H", "I", "Q", "b", "h", "i", "q"]
SZ = {"B": 1, "H": 2, "I": 4, "Q": 8, "b": 1, "h": 2, "i": 4, "q": 8, "x": 8}
FB = 100000


def rv(rng, f):
    return exprs.rand_value(rng, f)


class C09(Check):
    pid = "C09"
    props_file = "Props/C09.v"
    corr_imports = ["Ebpf.Isa", "Corr.Exec", "Sys.HashMapSpec", "Corr.C09"]
    technique = ("Coq theorems (table laws: what is stored under a key is found under it, other keys are independent cells, delete removes; structure members "
                 "are pairwise disjoint) + the real Python API against a bpf() stand-in and the REAL generated program in the Coq ISA model with hash maps, "
                 "exchanging the map contents in both directions")
    trusted = ["coq/Ebpf/Isa.v (kernel-validated) + coq/Corr/C09.v (hash-map helper calls 1/2/3 as a wrapper around it; validated against the running kernel on every run by harness/hash_check.py when bpf() is permitted; an update of an existing key installs a new element as the kernel does - a pointer kept across it writes to the old one)",
               "harness/sim_bpf.py (the user-space side of the same maps)"]
    assumptions = ["little-endian host"]
    known_classes = {}

    def make_case(self, rng):
        def members(lo, hi):
            return sorted([rng.choice(FMTS) for _ in range(rng.randint(lo, hi))], key=lambda f: -SZ[f])
        case = {"hashvars": [[rng.choice(FMTS + ["x"]), None, None] for _ in range(rng.randint(0, 4))],
                "key": members(1, 3), "value": members(1, 3), "entries": [], "ops": [], "size": rng.choice([2, 4, 31])}
        for hv in case["hashvars"]:
            hv[1] = rng.choice([0.29, 2.5, 0]) if hv[0] == "x" else rv(rng, hv[0])        # declared default (rand_value favours the ends of the range)
            hv[2] = None if rng.random() < 0.4 else (rng.choice([1.15, 0.57, 7.0]) if hv[0] == "x" else rv(rng, hv[0]))   # written from Python
        case["table_last"] = rng.random() < 0.5
        case["second_instance"] = rng.random() < 0.4
        case["rewrite"] = [i for i in range(len(case["hashvars"])) if rng.random() < 0.4]
        keys = [[rv(rng, f) for f in case["key"]] for _ in range(3)]
        for k in keys[:rng.randint(0, 2)]:
            case["entries"].append([k, [rv(rng, f) for f in case["value"]]])
        for _ in range(rng.randint(1, 5)):
            r = rng.random()
            if r < 0.25 and case["hashvars"]:
                case["ops"].append(["hread", rng.randrange(len(case["hashvars"]))])
            elif r < 0.35 and case["hashvars"]:
                i = rng.randrange(len(case["hashvars"]))
                f = case["hashvars"][i][0]
                case["ops"].append(["hwrite", i, rng.choice([0.29, 3.5]) if f == "x" else rv(rng, f)])
            elif r < 0.5 and case["hashvars"]:
                # arithmetic on the variable itself: the result may leave the format's range (the cell has 64 bits)
                i = rng.randrange(len(case["hashvars"]))
                if case["hashvars"][i][0] != "x":
                    case["ops"].append(["hinc", i, rng.choice([1, 10, -10, 255, 65536, -1])])
            elif r < 0.75:
                j = rng.randrange(len(case["value"]))
                case["ops"].append(["dlookup", rng.choice(keys), j, rng.choice(["read", "write"]), rv(rng, case["value"][j])])
                same = [(a, b) for a in range(len(case["hashvars"])) for b in range(len(case["hashvars"]))
                        if a != b and case["hashvars"][a][0] == case["hashvars"][b][0]]
                if same and rng.random() < 0.5:
                    # inside the lookup block, before the found entry is used, one hash-map variable is copied to another
                    # (two more helper calls while r0 points to the entry)
                    case["ops"][-1].append(list(rng.choice(same)))
            else:
                # optionally a hash variable is read between filling table.value and update() (its temporaries
                # must not share stack bytes with the key / value areas)
                mid = rng.randrange(len(case["hashvars"])) if case["hashvars"] and rng.random() < 0.5 else None
                case["ops"].append(["dupdate", rng.choice(keys), [rv(rng, f) for f in case["value"]], mid])
        return case

    def gen_cases(self):
        return [self.make_case(self.rng) for _ in range(150 if self.tier == "quick" else 2000)]

    def corpus(self):
        return [{"hashvars": [["I", 7, None], ["q", -3, 11]], "key": ["I", "B"], "value": ["q", "I", "B"], "size": 2,
                 "entries": [[[1, 8], [5, 6, 7]]],
                 "ops": [["hread", 0], ["hread", 1], ["hwrite", 0, 99], ["dlookup", [1, 8], 1, "write", 77], ["dlookup", [2, 2], 0, "read", 0],
                         ["dupdate", [3, 3], [1, 2, 3]]]},
                {"hashvars": [["I", 7, None], ["B", 3, None]], "key": ["I"], "value": ["I"], "size": 4, "entries": [], "table_last": True,
                 "ops": [["dupdate", [5], [77], 0], ["dupdate", [6], [78], 1]]}]

    def prepare(self, cases):
        terms, idx = [], []
        for i, c in enumerate(cases):
            c["_run"] = None
            try:
                c["_b"] = self.build(c)
            except Exception as e:      # noqa
                import traceback
                c["_b"] = Err(6, f"{type(e).__name__}: {e} {traceback.format_exc()[-500:]}")
                continue
            b = c["_b"]
            tabs = []
            regions = []
            for hid, fd in b["hash_ids"].items():
                m = b["sim"].maps[fd]
                ents = []
                for k, v in m["data"].items():
                    ents.append(f"({ebpf_exec.cbytes(k)}, {cnat(len(regions))})")
                    regions.append(v)
                tabs.append(f"{{| h_id := {cz(hid)}; h_key := {cnat(m['key'])}; h_value := {cnat(m['value'])}; h_max := {cz(m['max'])}; h_tab := {clist(ents)} |}}")
            ms = clist([ebpf_exec.cbytes(r) for r in regions])
            terms.append(f"(exec_hash {ebpf_exec.cprog(b['instrs'])} {ms} {clist(tabs)} {ebpf_exec.cbytes(bytes(256))})")
            idx.append(i)
        vals, log = eval_terms(self.pid, self.corr_imports, terms, shard=50)
        for i, v in zip(idx, vals):
            cases[i]["_run"] = v
        return log

    def build(self, case):
        from ebpfcat.ebpf import EBPF, Structure, Member, LocalVar
        from ebpfcat.hashmap import HashMap, Dict
        from ebpfcat.bpf import ProgType
        sim = sim_bpf.BpfSim()
        res = {"sim": sim, "py_errors": []}
        with sim_bpf.installed(sim):
            Key = type("Key", (Structure,), {f"k{i}": Member(f) for i, f in enumerate(case["key"])})
            Value = type("Value", (Structure,), {f"v{i}": Member(f) for i, f in enumerate(case["value"])})
            hm = HashMap()
            ns = {"table": Dict(key=Key, value=Value, size=case["size"])}
            if case["hashvars"]:
                ns["hm"] = hm
                for i, (f, d, w) in enumerate(case["hashvars"]):
                    ns[f"h{i}"] = hm.globalVar(f, default=d)
            for j, op in enumerate(case["ops"]):
                if op[0] == "hread":
                    f = case["hashvars"][op[1]][0]
                    ns[f"mir{j}"] = LocalVar("x" if f == "x" else ("q" if f.islower() else "Q"))
                elif op[0] == "dlookup":
                    f = case["value"][op[2]]
                    ns[f"mir{j}"] = LocalVar("q" if f.islower() else "Q")
                    ns[f"mark{j}"] = LocalVar("B")
                elif op[0] == "dupdate":
                    ns[f"ret{j}"] = LocalVar("q")
                    if len(op) > 3 and op[3] is not None:
                        f = case["hashvars"][op[3]][0]
                        ns[f"mid{j}"] = LocalVar("x" if f == "x" else ("q" if f.islower() else "Q"))
            if case.get("table_last", False):
                # declaration order decides the stack layout: the Dict is the last declaration, so the
                # program's temporaries are allocated right below its value area
                ns["table"] = ns.pop("table")
            P = type("P", (EBPF,), ns)
            e = P(ProgType.XDP, "GPL")
            for j, op in enumerate(case["ops"]):
                if op[0] == "hread":
                    setattr(e, f"mir{j}", getattr(e, f"h{op[1]}"))
                elif op[0] == "hwrite":
                    setattr(e, f"h{op[1]}", op[2])
                elif op[0] == "hinc":
                    setattr(e, f"h{op[1]}", getattr(e, f"h{op[1]}") + op[2])
                elif op[0] == "dlookup":
                    for i, kv in enumerate(op[1]):
                        setattr(e.table.key, f"k{i}", kv)
                    with e.table.lookup() as (value, Else):
                        setattr(e, f"mark{j}", 1)
                        if len(op) > 5:
                            setattr(e, f"h{op[5][0]}", getattr(e, f"h{op[5][1]}"))
                        if op[3] == "read":
                            setattr(e, f"mir{j}", getattr(value, f"v{op[2]}"))
                        else:
                            setattr(value, f"v{op[2]}", op[4])
                    with Else:
                        setattr(e, f"mark{j}", 2)
                else:
                    for i, kv in enumerate(op[1]):
                        setattr(e.table.key, f"k{i}", kv)
                    for i, vv in enumerate(op[2]):
                        setattr(e.table.value, f"v{i}", vv)
                    if len(op) > 3 and op[3] is not None:
                        setattr(e, f"mid{j}", getattr(e, f"h{op[3]}"))
                    e.table.update()
                    setattr(e, f"ret{j}", e.r0)
            e.r0 = 2
            e.exit()
            e.load()
            if case.get("second_instance", False):
                # another instance of the SAME program class in this process, with maps of its own (its variables hold
                # other values): everything below still concerns the first one
                e2 = P(ProgType.XDP, "GPL")
                e2.r0 = 2
                e2.exit()
                e2.load()
                for i, (f, d, w) in enumerate(case["hashvars"]):
                    try:
                        setattr(e2, f"h{i}", 1.0 if f == "x" else 1)
                    except Exception:      # noqa
                        pass
                res["e2"] = e2
            # ---- Python side before the program runs
            res["defaults"] = []
            for i, (f, d, w) in enumerate(case["hashvars"]):
                try:
                    res["defaults"].append(getattr(e, f"h{i}"))
                except Exception as ex:      # noqa
                    res["defaults"].append(f"{type(ex).__name__}: {ex}")
            for i, (f, d, w) in enumerate(case["hashvars"]):
                if w is not None:
                    setattr(e, f"h{i}", w)

            def mk(cls, vals, pre):
                o = cls()
                for i, v in enumerate(vals):
                    setattr(o, f"{pre}{i}", v)
                return o
            for k, v in case["entries"]:
                e.table[mk(Key, k, "k")] = mk(Value, v, "v")
            fds = list(sim.maps)
            res["hash_ids"] = {100 + j: fd for j, fd in enumerate(fds)}
            fdmap = {fd: 100 + j for j, fd in enumerate(fds)}
            instrs = []
            for ins in e.opcodes:
                op, dst, src, off, imm = ins
                if op.value == 0x18 and src == 1:
                    imm = fdmap.get(imm, 0)
                instrs.append((op.value, dst, src, off, imm))
            res.update(instrs=instrs, e=e, Key=Key, Value=Value, mk=mk, stack=P.stack,
                       addrs={n: P.__dict__[n].relative_addr for n in ns if n.startswith(("mir", "mark", "ret"))})
        return res

    def run_impl(self, case):
        b = case["_b"]
        if isinstance(b, Err):
            return b
        r = case["_run"]
        if r is None:
            return Err(9, "model evaluation failed")
        status, regions, tabs, stack, r0 = r
        if status != [1]:
            return Err(7, f"the program did not exit normally: status {status}")
        S = len(stack)
        loc = {}
        for n, a in b["addrs"].items():
            size = 1 if n.startswith("mark") else 8
            loc[n] = int.from_bytes(bytes(stack[S + a:S + a + size]), "little", signed=True)
        # ---- hand the maps back to the Python side
        sim = b["sim"]
        for hid, ents in tabs:
            fd = b["hash_ids"][hid]
            sim.maps[fd]["data"] = {bytes(k): bytes(regions[i]) for k, i in ents}
        out = {"locals": loc, "defaults": b["defaults"], "hash": [], "dict": {}, "errors": []}
        e = b["e"]
        # after the program has run, Python assigns some variables the SAME value it assigned (or the default it loaded) before:
        # that must overwrite whatever the program stored meanwhile
        with sim_bpf.installed(sim):
            for i in case.get("rewrite", []):
                if i < len(case["hashvars"]):
                    f, d, w = case["hashvars"][i]
                    try:
                        setattr(e, f"h{i}", d if w is None else w)
                    except Exception as ex:      # noqa
                        out["errors"].append(f"rewriting h{i}: {type(ex).__name__}: {ex}")
        with sim_bpf.installed(sim):
            for i in range(len(case["hashvars"])):
                try:
                    out["hash"].append(getattr(e, f"h{i}"))
                except Exception as ex:      # noqa
                    out["hash"].append(f"{type(ex).__name__}: {ex}")
            try:
                for k in e.table:
                    kv = tuple(getattr(k, f"k{i}") for i in range(len(case["key"])))
                    v = e.table[k]
                    out["dict"][str(list(kv))] = [getattr(v, f"v{i}") for i in range(len(case["value"]))]
            except Exception as ex:      # noqa
                out["errors"].append(f"reading the Dict from Python: {type(ex).__name__}: {ex}")
        case["_o"] = out
        return out

    def model_term(self, case):
        return None

    def holds(self, case, o):
        if isinstance(o, Err):
            if o.code == 6 and "not enough registers" in o.what:
                return True
            return f"{o.what}; {self.describe(case)}"
        what = f"; case {self.describe(case)}"
        if o["errors"]:
            return o["errors"][0] + what
        hv = []
        for i, (f, d, w) in enumerate(case["hashvars"]):
            got = o["defaults"][i]
            if (abs(got - d) > 1e-9) if isinstance(got, float) else got != d:
                return f"hash variable h{i}:{f} holds {got} after loading, its declared default is {d}" + what
            hv.append(d if w is None else w)
        table = {str(list(k)): list(v) for k, v in case["entries"]}

        def wrap(f, v):
            n = SZ[f]
            return int.from_bytes((v % (1 << 8 * n)).to_bytes(n, "little"), "little", signed=f.islower())
        for j, op in enumerate(case["ops"]):
            if op[0] == "hread":
                f = case["hashvars"][op[1]][0]
                want = round(hv[op[1]] * FB) if f == "x" else hv[op[1]]
                got = o["locals"][f"mir{j}"] if f.islower() or f == "x" else o["locals"][f"mir{j}"] % (1 << 64)
                if got != want:
                    return f"the program read h{op[1]}:{f} = {got}, Python had stored {hv[op[1]]}" + what
            elif op[0] == "hwrite":
                hv[op[1]] = op[2]
            elif op[0] == "hinc":
                hv[op[1]] = wrap(case["hashvars"][op[1]][0], hv[op[1]] + op[2])     # both sides see the variable in its declared format
            elif op[0] == "dlookup":
                key = str(list(op[1]))
                present = key in table
                if o["locals"][f"mark{j}"] != (1 if present else 2):
                    return f"lookup of {'present' if present else 'absent'} key {key} took the {'body' if o['locals'][f'mark{j}'] == 1 else 'Else'} branch" + what
                if present:
                    if len(op) > 5:
                        hv[op[5][0]] = hv[op[5][1]]
                    f = case["value"][op[2]]
                    if op[3] == "read":
                        got = o["locals"][f"mir{j}"] if f.islower() else o["locals"][f"mir{j}"] % (1 << 64)
                        if got != table[key][op[2]]:
                            return f"the program read member v{op[2]} of entry {key} as {got}, the entry holds {table[key]}" + what
                    else:
                        table[key][op[2]] = wrap(f, op[4])
            else:
                key = str(list(op[1]))
                if key in table or len(table) < case["size"]:
                    table[key] = list(op[2])
                    if o["locals"][f"ret{j}"] != 0:
                        return f"update of {key} returned {o['locals'][f'ret{j}']}" + what
                elif o["locals"][f"ret{j}"] == 0:
                    return f"update of a full Dict returned 0" + what
        for i in case.get("rewrite", []):
            if i < len(case["hashvars"]):
                f, d, w = case["hashvars"][i]
                hv[i] = d if w is None else w
        for i, (f, d, w) in enumerate(case["hashvars"]):
            got = o["hash"][i]
            if (not isinstance(got, (int, float))) or ((abs(got - hv[i]) > 1e-9) if f == "x" else got != hv[i]):
                return f"Python reads h{i}:{f} = {got}, expected {hv[i]}" + what
        if o["dict"] != table:
            return f"Python sees the Dict as {o['dict']}, expected {table}" + what
        return True

    def nontrivial(self, case, o):
        return not isinstance(o, Err)

    def extra_checks(self):
        from . import hash_check, isa_check
        return [isa_check.check(self.seed + 5, 40 if self.tier == "quick" else 300), hash_check.check(self.seed + 6, 60 if self.tier == "quick" else 600)]

    def rule(self):
        return ("0-4 hash-map variables (all formats incl. x) with declared defaults, 60% rewritten from Python; a Dict (1-3 key and value members of all sizes, "
                "capacity 2/4/31) with 0-2 entries inserted from Python; program: 1-5 operations out of read / write a hash variable, look up a present or absent "
                "key and read or modify a member (Else branch marks absence), update (insert / overwrite / full); 40%: a second instance of the same program class (maps of its own) is created and loaded in between; afterwards Python re-assigns 40% of the hash variables the value it had given them before the run and reads everything back")

    def distribution(self, cases, observed):
        d = {"hread": 0, "hwrite": 0, "hinc": 0, "dlookup": 0, "dupdate": 0, "errors": 0}
        for c, o in zip(cases, observed):
            d["errors"] += isinstance(o, Err)
            for op in c["ops"]:
                d[op[0]] += 1
        return d

    def describe(self, case):
        return {k: v for k, v in case.items() if not k.startswith("_")}


CHECK = C09
