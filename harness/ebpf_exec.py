"""Running eBPF programs: in the Coq ISA model (terms for the Cases files) and,
when bpf() is permitted, in the running kernel through BPF_PROG_TEST_RUN."""
import struct

from .common import clist, cnat, cz, czlist


def norm(ins):
    """(opcode value, dst, src, off, imm) as EBPF.assemble() encodes them (signed off / imm)"""
    op, dst, src, off, imm = ins
    op = op.value if hasattr(op, "value") else int(op)
    off = int(off) % 0x10000
    imm = int(imm) % 0x100000000
    if off >= 0x8000:
        off -= 0x10000
    if imm >= 0x80000000:
        imm -= 0x100000000
    return (op, int(dst), int(src), off, imm)


def cinstr(ins):
    op, dst, src, off, imm = norm(ins)
    return f"mk {op} {cnat(dst)} {cnat(src)} {cz(off)} {cz(imm)}"


def cprog(instrs):
    return clist([cinstr(i) for i in instrs])


def cbytes(b):
    """byte list with long runs compressed"""
    parts, i, b = [], 0, bytes(b)
    while i < len(b):
        j = i
        while j < len(b) and b[j] == b[i]:
            j += 1
        if j - i >= 12:
            parts.append(f"repeat {b[i]} {j - i}%nat")
            i = j
        else:
            k = i
            while k < len(b):
                m = k
                while m < len(b) and b[m] == b[k]:
                    m += 1
                if m - k >= 12:
                    break
                k = m
            parts.append(czlist(b[i:k]))
            i = k
    return "(" + " ++ ".join(parts or ["[]"]) + ")"


def exec_term(instrs, pkt, maps=(), oracle=(), stack_bytes=None):
    ms = clist([cbytes(m) for m in maps])
    if stack_bytes is None:
        return f"(exec {cprog(instrs)} {cbytes(pkt)} {ms} {czlist(oracle)})"
    return f"(exec_stack {cprog(instrs)} {cbytes(pkt)} {ms} {czlist(oracle)} {cnat(stack_bytes)})"


def assemble(instrs):
    out = b""
    for ins in instrs:
        op, dst, src, off, imm = norm(ins)
        out += struct.pack("<BBhi", op, dst | src << 4, off, imm)
    return out


_kernel_ok = None


def kernel_available():
    global _kernel_ok
    if _kernel_ok is None:
        try:
            from ebpfcat import bpf
            code = assemble([(0xb7, 0, 0, 0, 2), (0x95, 0, 0, 0, 0)])
            fd, _ = bpf.prog_load(bpf.ProgType.XDP, code, "GPL")
            import os
            os.close(fd)
            _kernel_ok = True
        except Exception:
            _kernel_ok = False
    return _kernel_ok


def kernel_run(instrs, pkt):
    """returns (retval, packet out) or raises OSError (verifier rejection)"""
    import os
    from ebpfcat import bpf
    fd, _ = bpf.prog_load(bpf.ProgType.XDP, assemble(instrs), "GPL")
    try:
        ret, retval, dur, data_out, ctx_out = bpf.prog_test_run(fd, bytes(pkt), len(pkt) + 64, 0, 0)
    finally:
        os.close(fd)
    return retval, None
