From Verif Require Import Dev.Valve.

Lemma position_check_default v op cl now moving :
  let v' := update false moving v op cl now in
  confirms (coil v) op cl = true -> v' = {| coil := target v; target := target v; error := error v; lastGood := now |}.
Proof. unfold update, confirms. destruct (coil v), op, cl; simpl; intros; try discriminate; reflexivity. Qed.

Lemma follow safe moving v op cl now :
  let inPosition := negb (Bool.eqb op cl) in
  let isCorrect := if Bool.eqb (coil v) safe then cl || negb op else op || negb cl in
  (inPosition && isCorrect = true \/ now - lastGood v < moving) ->
  let v' := update safe moving v op cl now in
  coil v' = target v /\ target v' = target v /\ error v' = error v.
Proof.
  intros ip ic H v'. subst v'. unfold update. fold ip ic.
  destruct (ip && ic) eqn:E; [simpl; auto|].
  destruct H as [H|H]; [discriminate|].
  destruct (Z.ltb_spec (now - lastGood v) moving); [simpl; auto|lia].
Qed.

Lemma follow_default moving v op cl now :
  (confirms (coil v) op cl = true \/ now - lastGood v < moving) ->
  let v' := update false moving v op cl now in
  coil v' = target v /\ target v' = target v /\ error v' = error v.
Proof.
  intros H. apply follow. destruct H as [H|H]; [left|right; exact H].
  unfold confirms in H. destruct (coil v), op, cl; simpl in *; congruence.
Qed.

Lemma timeout safe moving v op cl now :
  let inPosition := negb (Bool.eqb op cl) in
  let isCorrect := if Bool.eqb (coil v) safe then cl || negb op else op || negb cl in
  inPosition && isCorrect = false -> moving <= now - lastGood v ->
  let v' := update safe moving v op cl now in
  error v' = true /\ coil v' = safe /\ target v' = safe.
Proof.
  intros ip ic H T v'. subst v'. unfold update. fold ip ic. rewrite H.
  destruct (Z.ltb_spec (now - lastGood v) moving); [lia|simpl; auto].
Qed.

Lemma timeout_default moving v op cl now :
  confirms (coil v) op cl = false -> moving <= now - lastGood v ->
  let v' := update false moving v op cl now in
  error v' = true /\ coil v' = false /\ target v' = false.
Proof.
  intros H. apply timeout. unfold confirms in H. destruct (coil v), op, cl; simpl in *; congruence.
Qed.

Definition run (safe : bool) (moving : Z) (v : valve) (evs : list event) : valve :=
  fold_left (step safe moving) evs v.

(* lastGood only ever moves to the `now` of a reset or of a confirming update *)
Lemma lastgood_step moving v e :
  let v' := step false moving v e in
  lastGood v' = match e with
                | EReset now => now
                | ESetTarget _ => lastGood v
                | EUpdate op cl now => if confirms (coil v) op cl then now else lastGood v
                end.
Proof.
  destruct e as [now|t|op cl now]; cbn [step reset lastGood]; try reflexivity.
  unfold update, confirms. destruct (coil v), op, cl; simpl;
    try reflexivity; destruct (now - lastGood v <? moving); reflexivity.
Qed.

(* the error flag is raised only by a timeout and cleared only by reset *)
Lemma error_step safe moving v e :
  let v' := step safe moving v e in
  error v' = match e with
             | EReset _ => false
             | ESetTarget _ => error v
             | EUpdate op cl now =>
                 let inPosition := negb (Bool.eqb op cl) in
                 let isCorrect := if Bool.eqb (coil v) safe then cl || negb op else op || negb cl in
                 if inPosition && isCorrect then error v
                 else if now - lastGood v <? moving then error v else true
             end.
Proof.
  destruct e as [now|t|op cl now]; cbn [step reset error]; try reflexivity.
  unfold update. destruct (negb (Bool.eqb op cl) && _); [reflexivity|].
  destruct (now - lastGood v <? moving); reflexivity.
Qed.
