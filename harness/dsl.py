"""Generator cases: a small JSON-able surface language that is *built with the
real operator overloads and descriptors* of ebpfcat.ebpf / xdp / arraymap, so
that the instruction list comes from the code under test.

decls : [(name, storage, fmt)]      storage: "local" | "array" | "packet"(addr in fmt tuple)
expr  : ["c", int|float] | ["r", kind, no] | ["v", name] | [op, e1, e2] | ["neg", e] | ["abs", e]
        op in + - * // % & | ^ << >> /
cond  : [cmp, e1, e2] (cmp in == != < <= > >=) | ["and", c1, c2] | ["or", c1, c2] | ["not", c] | ["bit", e]  (truth of e)
stmt  : ["set", target, expr] | ["iadd", target, expr] | ["isub", target, expr]
        | ["if", cond, [stmts], [else stmts] | None] | ["exit", code]
target: ["v", name] | ["r", kind, no] | ["p", name, no] (iadd / isub only: an array-map variable through a pointer register)
"""
import operator
import struct

from . import sim_kernel

OPS = {"+": operator.add, "-": operator.sub, "*": operator.mul, "//": operator.floordiv, "%": operator.mod,
       "&": operator.and_, "|": operator.or_, "^": operator.xor, "<<": operator.lshift, ">>": operator.rshift,
       "/": operator.truediv}
CMPS = {"==": operator.eq, "!=": operator.ne, "<": operator.lt, "<=": operator.le, ">": operator.gt, ">=": operator.ge}


class Built:
    def __init__(self):
        self.instrs = None
        self.error = None
        self.layout = {}      # name -> (storage, fmt, address)
        self.map_size = 0
        self.stack_size = 0


def build(decls, stmts, xdp_min=None):
    """returns Built; AssembleError and friends are reported in .error"""
    from ebpfcat.arraymap import ArrayMap
    from ebpfcat.ebpf import EBPF, AssembleError, LocalVar
    from ebpfcat.xdp import XDP, PacketVar
    from ebpfcat.bpf import ProgType
    res = Built()
    ns = {}
    amap = None
    for name, storage, fmt in decls:
        if storage == "local":
            ns[name] = LocalVar(fmt)
        elif storage in ("array", "percpu"):
            if amap is None:
                if storage == "percpu":
                    from ebpfcat.arraymap import PerCPUArrayMap
                    amap = ns["vmap"] = PerCPUArrayMap()
                else:
                    amap = ns["vmap"] = ArrayMap()
            ns[name] = amap.globalVar(fmt)
        elif storage == "hash":
            from ebpfcat.hashmap import HashMap
            if "hmap" not in ns:
                ns["hmap"] = HashMap()
            ns[name] = ns["hmap"].globalVar(fmt)
        elif storage == "packet":
            ns[name] = PacketVar(fmt[0], fmt[1])
    base = XDP if xdp_min is not None else EBPF
    if xdp_min is not None:
        ns["minimumPacketSize"] = xdp_min
        ns["license"] = "GPL"

        def program(self):
            run_stmts(self, stmts)
        ns["program"] = program
    cls = type("P", (base,), ns)
    with sim_kernel.installed() as kernel:
        try:
            e = cls() if xdp_min is not None else cls(ProgType.XDP, "GPL")
            if xdp_min is None:
                run_stmts(e, stmts)
                e.r0 = 2
                e.exit()
                ops = e.opcodes
            else:
                e.assemble()
                ops = e.opcodes
        except (AssembleError, AssertionError, TypeError, ValueError, KeyError, AttributeError, struct.error, OverflowError, ZeroDivisionError) as ex:
            res.error = f"{type(ex).__name__}: {ex}"
            return res
        fds = {}
        for fd, m in kernel.maps.items():
            # array maps are numbered 0, 1, ...; hash maps get the pseudo descriptors 100, 101, ... of Corr/C09.v
            kind = m["type"]
            fds[fd] = (100 + sum(1 for v in fds.values() if v >= 100)) if kind == "HASH" else sum(1 for v in fds.values() if v < 100)
    instrs = []
    for ins in ops:
        if ins is None:
            res.error = "unpatched jump (None instruction)"
            return res
        op, dst, src, off, imm = ins
        opv = op.value
        if opv == 0x18 and src == 1:
            imm = fds.get(imm, 0)
        instrs.append((opv, dst, src, off, imm))
    res.instrs = instrs
    for name, storage, fmt in decls:
        d = cls.__dict__[name]
        if storage == "local":
            res.layout[name] = ("local", fmt, d.relative_addr)
        elif storage in ("array", "percpu"):
            res.layout[name] = ("array", fmt, e.__dict__[name])
        elif storage == "hash":
            res.layout[name] = ("hash", fmt, d.count)
        else:
            res.layout[name] = ("packet", fmt[1], fmt[0])
    res.stack_size = -cls.stack
    res.map_size = amap.size if amap is not None and hasattr(amap, "size") else 0
    return res


def regs_of(e):
    """registers live in the program; a subprogram (a device) reaches them through its .ebpf"""
    return e if hasattr(e, "r") else e.ebpf


def get_reg(e, kind, no):
    return getattr(regs_of(e), kind)[no]


def bexpr(e, x):
    t = x[0]
    if t == "c":
        return x[1]
    if t == "r":
        return get_reg(e, x[1], x[2])
    if t == "v":
        return getattr(e, x[1])
    if t == "vm":
        # ["vm", name, regno, c]: the LOCAL variable `name` read through a computed address - e.m<fmt>[e.r10 + e.rN + (addr - c)] with
        # register N holding c - the same bytes as ["v", name], reached by another route of the generator
        fmt, addr = type(e).__dict__[x[1]].fmt_addr(e)
        return getattr(e, "m" + fmt)[e.r10 + e.r[x[2]] + (addr - x[3])]
    if t == "pm":
        # ["pm", letter, regno, k]: the packet element of format `letter` at the run-time byte offset (register regno) + k
        return getattr(e, "p" + x[1])[get_reg(e, "r", x[2]) + x[3]]
    if t == "neg":
        return -bexpr(e, x[1])
    if t == "abs":
        return abs(bexpr(e, x[1]))
    return OPS[t](bexpr(e, x[1]), bexpr(e, x[2]))


def bcond(e, c):
    t = c[0]
    if t == "and":
        return bcond(e, c[1]) & bcond(e, c[2])
    if t == "or":
        return bcond(e, c[1]) | bcond(e, c[2])
    if t == "not":
        return ~bcond(e, c[1])
    if t == "bit":
        return bexpr(e, c[1]) != 0
    if t == "xcmp":                # comparison of a fixed-point variable: [xcmp, op, name, rhs expr]
        return CMPS[c[1]](getattr(e, c[2]), bexpr(e, c[3]))
    if t == "truth":               # a bare expression used as the condition of a with-block
        return bexpr(e, c[1])
    return CMPS[t](bexpr(e, c[1]), bexpr(e, c[2]))


def assign(e, target, value):
    if target[0] == "v":
        setattr(e, target[1], value)
    else:
        getattr(regs_of(e), target[1])[target[2]] = value


def run_stmts(e, stmts):
    from ebpfcat.xdp import XDPExitCode
    for s in stmts:
        t = s[0]
        if t == "set":
            assign(e, s[1], bexpr(e, s[2]))
        elif t == "setshared":
            # ["setshared", base expr, [[target, op, operand expr], ...]]: ONE expression object, built once, is extended several
            # times (base = e.r2 + 8;  e.a = base + 1;  e.b = base - 3)
            base = bexpr(e, s[1])
            for tgt, op, operand in s[2]:
                assign(e, tgt, OPS[op](base, bexpr(e, operand)))
        elif t in ("iadd", "isub"):
            tgt = s[1]
            val = bexpr(e, s[2])
            if tgt[0] == "v":
                cur = getattr(e, tgt[1])             # Python's own semantics of  e.v += val
                cur = operator.iadd(cur, val) if t == "iadd" else operator.isub(cur, val)
                setattr(e, tgt[1], cur)
            elif tgt[0] == "p":
                # the array-map variable tgt[1] reached through a pointer in register tgt[2]:  e.m<fmt>[e.rN + offset] += val
                d = type(e).__dict__[tgt[1]]
                e.r[tgt[2]] = e.r[d.base_register]
                mm = getattr(e, "m" + d.fmt)
                key = e.r[tgt[2]] + e.__dict__[tgt[1]]
                cur = mm[key]
                cur = operator.iadd(cur, val) if t == "iadd" else operator.isub(cur, val)
                mm[key] = cur
            else:
                r = get_reg(e, tgt[1], tgt[2])
                assign(e, tgt, r + val if t == "iadd" else r - val)
        elif t == "if" and len(s) > 4 and s[4] == "chain":
            # else-if chain:  with c1 as Else: A;  with Else, c2 as Else2: B;  with Else2: C   (s[3] is exactly one inner "if")
            def chain(s, opened=None):
                inner = s[3][0]
                if opened is None:
                    with bcond(e, s[1]) as Else:
                        run_stmts(e, s[2])
                else:
                    Else = opened
                more = len(inner) > 4 and inner[4] == "chain"
                if inner[3] is None:
                    with Else, bcond(e, inner[1]):
                        run_stmts(e, inner[2])
                else:
                    with Else, bcond(e, inner[1]) as Else2:
                        run_stmts(e, inner[2])
                    if more:
                        # the chain goes on: Else2 is the hook of the next link
                        chain2(inner, Else2)
                    else:
                        with Else2:
                            run_stmts(e, inner[3])

            def chain2(s, Else):
                inner = s[3][0]
                more = len(inner) > 4 and inner[4] == "chain"
                if inner[3] is None:
                    with Else, bcond(e, inner[1]):
                        run_stmts(e, inner[2])
                else:
                    with Else, bcond(e, inner[1]) as Else2:
                        run_stmts(e, inner[2])
                    if more:
                        chain2(inner, Else2)
                    else:
                        with Else2:
                            run_stmts(e, inner[3])
            chain(s)
        elif t == "if":
            cond = bcond(e, s[1])
            if s[3] is None:
                with cond:
                    run_stmts(e, s[2])
            else:
                with cond as Else:
                    run_stmts(e, s[2])
                with Else:
                    run_stmts(e, s[3])
        elif t == "guard":             # ["guard", N, stmts]: with self.packetSize > N: ...
            with e.packetSize > s[1]:
                run_stmts(e, s[2])
        elif t == "exit":
            e.exit(XDPExitCode(s[1]))
        else:
            raise ValueError(t)


# ------------------------------------------------------------------ values
SIZES = {"b": 1, "B": 1, "h": 2, "H": 2, "i": 4, "I": 4, "q": 8, "Q": 8, "x": 8}


def fmt_size(fmt):
    return SIZES[fmt[-1]]


def fmt_signed(fmt):
    return fmt[-1].islower()


def fmt_order(fmt):
    """memory order of a format: explicit '>' / '!' is big-endian; native (this host) and '<' are little-endian"""
    return "big" if fmt[0] in ">!" else "little"


def to_bytes(fmt, v):
    n = fmt_size(fmt)
    return (v % (1 << 8 * n)).to_bytes(n, fmt_order(fmt))


def from_bytes(fmt, b):
    return int.from_bytes(b, fmt_order(fmt), signed=fmt_signed(fmt))
