(* C28 Serial channels transfer bytes exactly once, in order.
   Model: Dev/Serial.v - Serial.update, the out-pipe (os.read of at most 22
   bytes), the EL6002 handshake (`react`) with arbitrary timing (oracle), and
   ghost histories of what was written / accepted / announced / delivered. *)
From Verif Require Import Dev.Serial Dev.Serial_proofs.

(* For EVERY history of application writes and cycles, whatever the terminal's
   timing: the chunks the terminal took, then the chunk currently presented,
   then the bytes still in the pipe are EXACTLY the bytes the application
   wrote (nothing lost, duplicated or reordered); every chunk has 1..22 bytes *)
Theorem C28_tx_exactly_once_in_order : forall evs, let s := fold_left step evs sys0 in
  concat (accepted s) ++ (if pend s then o_str (s_dev s) else []) ++ s_pipe s = written s /\
  Forall chunk_ok (accepted s).
Proof. exact tx_exactly_once. Qed.
Print Assumptions C28_tx_exactly_once_in_order.

(* every chunk the terminal announced was delivered to the application exactly
   once and in order (the last one may still be on its way) *)
Theorem C28_rx_exactly_once_in_order : forall evs, let s := fold_left step evs sys0 in
  delivered s = announced s \/ announced s = delivered s ++ [t_str (s_term s)].
Proof. exact rx_exactly_once. Qed.
Print Assumptions C28_rx_exactly_once_in_order.

(* a chunk is announced by one toggle and kept until acknowledged *)
Theorem C28_kept_until_ack : forall evs o, let s := fold_left step evs sys0 in
  pend s = true ->
  let s' := step s (ECycle o) in
  o_treq (s_dev s') = o_treq (s_dev s) /\ o_str (s_dev s') = o_str (s_dev s) /\ s_pipe s' = s_pipe s.
Proof. exact tx_kept_until_ack. Qed.
Print Assumptions C28_kept_until_ack.

Theorem C28_one_toggle_per_chunk : forall evs o, let s := fold_left step evs sys0 in
  let s' := step s (ECycle o) in
  o_treq (s_dev s') <> o_treq (s_dev s) ->
  s_pipe s <> [] /\ o_str (s_dev s') = firstn chunk (s_pipe s) /\ s_pipe s' = skipn chunk (s_pipe s).
Proof. exact tx_one_toggle_per_chunk. Qed.
Print Assumptions C28_one_toggle_per_chunk.

(* the invariant behind them, in every reachable state (includes: receive_accept
   is toggled exactly when a chunk is delivered) *)
Theorem C28_invariant : forall evs, Inv (fold_left step evs sys0).
Proof. exact reachable_inv. Qed.
Print Assumptions C28_invariant.

Example C28_nonvacuous :
  let o a n := ECycle {| or_init := true; or_accept := a; or_announce := n |} in
  let s := fold_left step [o true None; o true None; o true None; EWrite [1;2;3]; o false None; o false (Some [9;8]); o true None; o true None] sys0 in
  accepted s = [[1;2;3]] /\ delivered s = [[9;8]] /\ written s = [1;2;3] /\ s_pipe s = [].
Proof. vm_compute. repeat split. Qed.
