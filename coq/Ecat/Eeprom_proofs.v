From Verif Require Import Lib.ListX Ecat.Eeprom.

(* ------------------------------------------------------------------ *)
(* byte-offset view of the image, 0xff beyond the end *)
Definition pad_from (img : list Z) (off n : nat) : list Z := firstn n (skipn off img ++ repeat 255 n).

Lemma pad_from_length img off n : length (pad_from img off n) = n.
Proof. unfold pad_from. rewrite firstn_length, app_length, repeat_length. lia. Qed.

Lemma pad_from_nth img off n i : (i < n)%nat -> nth i (pad_from img off n) 0 = nth (off + i) img 255.
Proof.
  intros H. unfold pad_from. rewrite nth_firstn_lt by exact H.
  destruct (Nat.ltb_spec i (length (skipn off img))) as [L|L].
  - rewrite app_nth1 by exact L. rewrite nth_skipn'. apply nth_indep. rewrite skipn_length in L. lia.
  - rewrite app_nth2 by exact L. rewrite skipn_length in L.
    rewrite nth_repeat_any. rewrite skipn_length.
    destruct (Nat.ltb_spec (i - (length img - off)) n); [|lia].
    rewrite nth_overflow by lia. reflexivity.
Qed.

Lemma pad_from_app img off a b : pad_from img off (a + b) = pad_from img off a ++ pad_from img (off + a) b.
Proof.
  apply (list_eq_nth _ _ 0).
  - rewrite app_length, !pad_from_length. reflexivity.
  - intros i Hi. rewrite pad_from_length in Hi. rewrite pad_from_nth by exact Hi.
    destruct (Nat.ltb_spec i a).
    + rewrite app_nth1 by (rewrite pad_from_length; lia). now rewrite pad_from_nth.
    + rewrite app_nth2 by (rewrite pad_from_length; lia). rewrite pad_from_length.
      rewrite pad_from_nth by lia. f_equal. lia.
Qed.

Lemma pad_from_firstn img off n m : (n <= m)%nat -> firstn n (pad_from img off m) = pad_from img off n.
Proof.
  intros H. replace m with (n + (m - n))%nat by lia. rewrite pad_from_app.
  rewrite <- (pad_from_length img off n) at 1. apply firstn_app_exact.
Qed.

Lemma pad_from_skipn img off n m : (n <= m)%nat -> skipn n (pad_from img off m) = pad_from img (off + n) (m - n).
Proof.
  intros H. replace m with (n + (m - n))%nat at 1 by lia. rewrite pad_from_app.
  rewrite <- (pad_from_length img off n) at 1. apply skipn_app_exact.
Qed.

Lemma pad_from_prefix img off n X rest : skipn off img = X ++ rest -> (n <= length X)%nat ->
  pad_from img off n = firstn n X.
Proof.
  intros H L. unfold pad_from. rewrite H, <- app_assoc. apply firstn_app_le. exact L.
Qed.

Lemma img_bytes_pad img w n : img_bytes img w n = pad_from img (Z.to_nat (2 * w)) n.
Proof. reflexivity. Qed.

(* ---- _eeprom_read_one returns the 8 image bytes at the word address, whatever
   the read width of the interface and whatever it leaves in the unused half *)
Theorem read_one_exact img mode8 junk start : 0 <= start ->
  eeprom_read_one img mode8 junk start = img_bytes img start 8.
Proof.
  intros H. unfold eeprom_read_one. destruct mode8; [reflexivity|].
  rewrite !img_bytes_pad.
  rewrite firstn_app_le by (rewrite pad_from_length; lia).
  rewrite firstn_all2 by (rewrite pad_from_length; lia).
  change 8%nat with (4 + 4)%nat. rewrite pad_from_app. f_equal. f_equal. lia.
Qed.

(* ---- the buffered reader ---- *)
Section Reader.
  Variable img : list Z.
  Variable rd : Z -> list Z.
  Hypothesis rd_ok : forall p, 0 <= p -> rd p = img_bytes img p 8.

  Definition holds (s : rd_state) (off : nat) : Prop :=
    0 <= rd_pos s /\ Z.to_nat (2 * rd_pos s) = (off + length (rd_buf s))%nat /\
    rd_buf s = pad_from img off (length (rd_buf s)).

  Lemma refill_ok fuel : forall size s off, holds s off ->
    (size <= length (rd_buf s) + 8 * fuel)%nat ->
    holds (refill fuel rd size s) off /\ (size <= length (rd_buf (refill fuel rd size s)))%nat.
  Proof.
    induction fuel as [|k IH]; intros size s off H F; cbn [refill].
    - split; [exact H|lia].
    - destruct (Nat.ltb_spec (length (rd_buf s)) size) as [L|L]; [|split; [exact H|lia]].
      destruct H as (P & Q & B).
      apply IH.
      + unfold holds. cbn [rd_pos rd_buf]. rewrite app_length.
        rewrite rd_ok by exact P. rewrite img_bytes_pad, pad_from_length.
        split; [lia|]. split; [lia|].
        rewrite pad_from_app. rewrite <- B. f_equal. f_equal. lia.
      + cbn [rd_buf]. rewrite app_length, rd_ok by exact P. rewrite img_bytes_pad, pad_from_length. lia.
  Qed.

  Lemma get_data_ok size s off : holds s off ->
    fst (get_data rd size s) = pad_from img off size /\ holds (snd (get_data rd size s)) (off + size).
  Proof.
    intros H. unfold get_data.
    destruct (refill_ok (S size) size s off H ltac:(lia)) as [H' L].
    set (s' := refill (S size) rd size s) in *. cbn [fst snd].
    destruct H' as (P & Q & B). split.
    - rewrite B. apply pad_from_firstn. exact L.
    - unfold holds. cbn [rd_pos rd_buf]. rewrite skipn_length.
      split; [exact P|]. split; [lia|].
      rewrite B at 1. rewrite pad_from_skipn by exact L. reflexivity.
  Qed.

  Lemma skipn_after (l : list Z) off A B : skipn off l = A ++ B -> skipn (off + length A) l = B.
  Proof.
    intros H. rewrite <- skipn_add, H. apply skipn_app_exact.
  Qed.

  Lemma le_val_le_bytes2 z : 0 <= z < 65536 -> le_val (le_bytes 2 z) = z.
  Proof. intros. rewrite le_val_le_bytes. change (256 ^ Z.of_nat 2) with 65536. lia. Qed.

  Lemma read_cats_ok tail : forall cats fuel s off acc,
    holds s off -> skipn off img = enc_cats cats ++ tail -> Forall cat_ok cats ->
    (length cats < fuel)%nat ->
    read_cats fuel rd s acc = Some (rev acc ++ cats).
  Proof.
    induction cats as [|[ty c] tl IH]; intros fuel s off acc H S W F;
      (destruct fuel as [|k]; [simpl in F; lia|]); cbn [read_cats].
    - destruct (get_data_ok 4 s off H) as [E1 H1].
      destruct (get_data rd 4 s) as [h s1]. cbn [fst snd] in *.
      assert (E2 : firstn 2 h = le_bytes 2 65535).
      { rewrite E1, pad_from_firstn by lia. cbn [enc_cats] in S.
        rewrite (pad_from_prefix _ _ _ _ _ S) by (rewrite le_bytes_length; lia).
        apply firstn_all2. rewrite le_bytes_length. lia. }
      rewrite E2. change (le_val (le_bytes 2 65535)) with 65535. change (65535 =? 65535) with true. cbv iota.
      now rewrite app_nil_r.
    - inversion W as [|? ? (Rty & Ev & Rws) Wtl]; subst. cbn [fst snd] in *.
      destruct (get_data_ok 4 s off H) as [E1 H1].
      destruct (get_data rd 4 s) as [h s1]. cbn [fst snd] in *.
      cbn [enc_cats] in S.
      assert (S' : skipn off img = (le_bytes 2 ty ++ le_bytes 2 (zlen c / 2)) ++ (c ++ enc_cats tl ++ tail))
        by (rewrite S, <- !app_assoc; reflexivity).
      clear S. rename S' into S.
      assert (Eh : h = le_bytes 2 ty ++ le_bytes 2 (zlen c / 2)).
      { rewrite E1.
        rewrite (pad_from_prefix _ _ _ _ _ S) by (rewrite app_length, !le_bytes_length; lia).
        apply firstn_all2. rewrite app_length, !le_bytes_length. lia. }
      assert (Zc : 0 <= zlen c) by apply zlen_nonneg.
      rewrite Eh. rewrite firstn_app_exact' by apply le_bytes_length.
      rewrite skipn_app_exact' by apply le_bytes_length.
      rewrite !le_val_le_bytes2 by lia.
      destruct (Z.eqb_spec ty 65535); [lia|].
      assert (Esz : Z.to_nat (zlen c / 2 * 2) = length c).
      { rewrite Z.even_spec in Ev. destruct Ev as [q Eq]. unfold zlen in *. lia. }
      rewrite Esz.
      assert (S1 : skipn (off + 4) img = c ++ enc_cats tl ++ tail).
      { apply skipn_after in S. rewrite app_length, !le_bytes_length in S. exact S. }
      destruct (get_data_ok (length c) s1 (off + 4) H1) as [E2 H2].
      destruct (get_data rd (length c) s1) as [c' s2]. cbn [fst snd] in *.
      assert (Ec : c' = c).
      { rewrite E2, (pad_from_prefix _ _ _ _ _ S1) by lia. apply firstn_all. }
      subst c'. rewrite Ec. apply skipn_after in S1.
      rewrite (IH k s2 (off + 4 + length c)%nat ((ty, c) :: acc) H2 S1 Wtl ltac:(simpl in F; lia)).
      cbn [rev]. rewrite <- app_assoc. reflexivity.
  Qed.
End Reader.

Lemma enc_cats_length cats : (4 * length cats + 2 <= length (enc_cats cats))%nat.
Proof.
  induction cats as [|[ty c] tl IH]; cbn [enc_cats length].
  - rewrite le_bytes_length. lia.
  - rewrite !app_length, !le_bytes_length. lia.
Qed.

(* read_eeprom on ANY image whose category area (from word 0x40) is the SII
   encoding of `cats` followed by anything: identity fields and all categories
   come back exactly, for both interface widths, any junk, any busy time *)
Theorem read_eeprom_spec img mode8 junk cats tail :
  skipn 128 img = enc_cats cats ++ tail -> Forall cat_ok cats ->
  let r := read_eeprom (S (length img)) (eeprom_read_one img mode8 junk) in
  snd r = Some cats /\
  vendorId (fst r) = le_val (pad_from img 16 4) /\ productCode (fst r) = le_val (pad_from img 20 4) /\
  revisionNo (fst r) = le_val (pad_from img 24 4) /\ serialNo (fst r) = le_val (pad_from img 28 4).
Proof.
  intros HS W r. subst r. unfold read_eeprom. cbn [fst snd vendorId productCode revisionNo serialNo].
  assert (RD : forall p, 0 <= p -> eeprom_read_one img mode8 junk p = img_bytes img p 8)
    by (intros; now apply read_one_exact).
  split.
  - rewrite (read_cats_ok img _ RD tail cats (S (length img)) _ 128%nat []); [reflexivity| |exact HS|exact W|].
    + unfold holds. cbn [rd_pos rd_buf length]. repeat split; try lia. 
    + pose proof (enc_cats_length cats) as L.
      assert (L2 : length (skipn 128 img) = length (enc_cats cats ++ tail)) by now rewrite HS.
      rewrite skipn_length, app_length in L2. lia.
  - rewrite !RD by lia. rewrite !img_bytes_pad.
    change (Z.to_nat (2 * 8)) with 16%nat. change (Z.to_nat (2 * 12)) with 24%nat.
    rewrite !pad_from_firstn by lia.
    rewrite !pad_from_skipn by lia. repeat split; reflexivity.
Qed.

(* ---------------- sync managers ---------------- *)
Definition sm_ok (e : sm_entry) : Prop :=
  0 <= sm_start e < 65536 /\ 0 <= sm_len e < 65536 /\ 0 <= sm_ctl e < 256 /\ length (sm_rest e) = 3%nat.

Definition sm_step (i : Z) (l : sm_layout) (e : sm_entry) : sm_layout :=
  let mode := Z.land (sm_ctl e) 15 in
  let v := Some (sm_start e, sm_len e) in
  if mode =? 0 then {| mbx_out := mbx_out l; mbx_in := mbx_in l; pdo_out := pdo_out l; pdo_in := v;
                       pdo_out_addr := pdo_out_addr l; pdo_in_addr := 2048 + i |}
  else if mode =? 2 then {| mbx_out := mbx_out l; mbx_in := v; pdo_out := pdo_out l; pdo_in := pdo_in l;
                            pdo_out_addr := pdo_out_addr l; pdo_in_addr := pdo_in_addr l |}
  else if mode =? 4 then {| mbx_out := mbx_out l; mbx_in := mbx_in l; pdo_out := v; pdo_in := pdo_in l;
                            pdo_out_addr := 2048 + i; pdo_in_addr := pdo_in_addr l |}
  else if mode =? 6 then {| mbx_out := v; mbx_in := mbx_in l; pdo_out := pdo_out l; pdo_in := pdo_in l;
                            pdo_out_addr := pdo_out_addr l; pdo_in_addr := pdo_in_addr l |}
  else l.

(* the k-th entry sits at register 0x800 + 8k; later entries of a kind win *)
Fixpoint sm_table (i : Z) (es : list sm_entry) (l : sm_layout) : sm_layout :=
  match es with
  | [] => l
  | e :: tl => sm_table (i + 8) tl (sm_step i l e)
  end.

Lemma le_val_le_bytes2' z : 0 <= z < 65536 -> le_val (le_bytes 2 z) = z.
Proof. intros. rewrite le_val_le_bytes. change (256 ^ Z.of_nat 2) with 65536. lia. Qed.

Theorem parse_sms_spec : forall es fuel i l, Forall sm_ok es -> (length es < fuel)%nat ->
  parse_sms fuel i (flat_map enc_sm es) l = Some (sm_table i es l).
Proof.
  induction es as [|e tl IH]; intros fuel i l W F; (destruct fuel as [|k]; [simpl in F; lia|]).
  - reflexivity.
  - inversion W as [|? ? (R1 & R2 & R3 & R4) Wtl]; subst.
    destruct (sm_rest e) as [|r0 [|r1 [|r2 [|? ?]]]] eqn:ER; try discriminate.
    assert (E : flat_map enc_sm (e :: tl) =
                (sm_start e mod 256) :: (sm_start e / 256 mod 256) :: (sm_len e mod 256) :: (sm_len e / 256 mod 256)
                :: sm_ctl e :: r0 :: r1 :: r2 :: flat_map enc_sm tl).
    { cbn [flat_map]. unfold enc_sm at 1. rewrite ER. reflexivity. }
    rewrite E. cbn [parse_sms length Nat.ltb Nat.leb firstn skipn nth].
    change [sm_start e mod 256; sm_start e / 256 mod 256] with (le_bytes 2 (sm_start e)).
    change [sm_len e mod 256; sm_len e / 256 mod 256] with (le_bytes 2 (sm_len e)).
    rewrite !le_val_le_bytes2' by lia.
    rewrite (IH k (i + 8) _ Wtl ltac:(simpl in F; lia)).
    cbn [sm_table]. unfold sm_step. reflexivity.
Qed.

(* ---------------- PDO categories ---------------- *)
Definition entry_ok (e : pdo_entry) : Prop := 0 <= e_idx e < 65536.
Definition pdo_ok (p : pdo) : Prop := zlen (p_entries p) < 256 /\ Forall entry_ok (p_entries p).
Definition triple (e : pdo_entry) : Z * Z * Z := (e_idx e, e_sub e, e_bits e).

Lemma parse_entries_spec : forall es rest, Forall entry_ok es ->
  parse_entries (length es) (flat_map enc_entry es ++ rest) = Some (map triple es, rest).
Proof.
  induction es as [|e tl IH]; intros rest W; [reflexivity|].
  inversion W as [|? ? R Wtl]; subst.
  assert (E : flat_map enc_entry (e :: tl) ++ rest =
              (e_idx e mod 256) :: (e_idx e / 256 mod 256) :: e_sub e :: e_name e :: e_type e :: e_bits e
              :: (e_flags e mod 256) :: (e_flags e / 256 mod 256) :: (flat_map enc_entry tl ++ rest)).
  { cbn [flat_map]. unfold enc_entry at 1. rewrite <- !app_assoc. reflexivity. }
  rewrite E. cbn [length parse_entries Nat.ltb Nat.leb firstn skipn nth].
  change [e_idx e mod 256; e_idx e / 256 mod 256] with (le_bytes 2 (e_idx e)).
  rewrite le_val_le_bytes2' by exact R.
  rewrite (IH rest Wtl). reflexivity.
Qed.

Theorem parse_pdo_cat_spec : forall pdos fuel, Forall pdo_ok pdos -> (length pdos < fuel)%nat ->
  parse_pdo_cat fuel (flat_map enc_pdo pdos) = Some (flat_map (fun p => map triple (p_entries p)) pdos).
Proof.
  induction pdos as [|p tl IH]; intros fuel W F; (destruct fuel as [|k]; [simpl in F; lia|]).
  - reflexivity.
  - inversion W as [|? ? (Rn & Re) Wtl]; subst.
    assert (E : flat_map enc_pdo (p :: tl) =
                (p_idx p mod 256) :: (p_idx p / 256 mod 256) :: zlen (p_entries p) :: p_sm p :: p_sync p :: p_name p
                :: (p_flags p mod 256) :: (p_flags p / 256 mod 256)
                :: (flat_map enc_entry (p_entries p) ++ flat_map enc_pdo tl)).
    { cbn [flat_map]. unfold enc_pdo at 1. rewrite <- !app_assoc. reflexivity. }
    rewrite E. cbn [parse_pdo_cat length Nat.ltb Nat.leb skipn nth].
    unfold zlen at 1. rewrite Nat2Z.id.
    rewrite (parse_entries_spec _ _ Re).
    rewrite (IH k Wtl ltac:(simpl in F; lia)). reflexivity.
Qed.

(* layout: bit positions are the running sums of the entry lengths *)
Fixpoint positions (es : list (Z * Z * Z)) (bitpos : Z) : list (Z * Z * pdo_pos) :=
  match es with
  | [] => []
  | (idx, sub, bits) :: tl =>
      (if idx =? 0 then []
       else [(idx, sub, if bits <? 8 then PBit (bitpos / 8) (bitpos mod 8) else PFmt (bitpos / 8) bits)])
      ++ positions tl (bitpos + bits)
  end.
Definition total_bits (es : list (Z * Z * Z)) : Z := fold_right (fun e acc => snd e + acc) 0 es.

Theorem layout_spec : forall es bitpos acc l tot, layout es bitpos acc = Some (l, tot) ->
  l = rev acc ++ positions es bitpos /\ tot = bitpos + total_bits es.
Proof.
  induction es as [|[[idx sub] bits] tl IH]; intros bitpos acc l tot H; cbn [layout] in H.
  - inversion H; subst. cbn. rewrite app_nil_r. split; [reflexivity|lia].
  - cbn [positions total_bits fold_right snd]. fold (total_bits tl).
    destruct (idx =? 0).
    + apply IH in H. destruct H as [-> ->]. split; [reflexivity|lia].
    + destruct (bits <? 8).
      * apply IH in H. destruct H as [-> ->]. cbn [rev]. rewrite <- app_assoc. split; [reflexivity|lia].
      * destruct (negb (bits mod 8 =? 0) || negb (bitpos mod 8 =? 0)); [discriminate|].
        destruct (negb _); [discriminate|].
        apply IH in H. destruct H as [-> ->]. cbn [rev]. rewrite <- app_assoc. split; [reflexivity|lia].
Qed.

(* and layout accepts every byte-aligned map of 8/16/32/64-bit entries *)
Fixpoint aligned (es : list (Z * Z * Z)) (bitpos : Z) : Prop :=
  match es with
  | [] => True
  | (idx, sub, bits) :: tl =>
      (idx = 0 \/ bits < 8 \/ (bitpos mod 8 = 0 /\ (bits = 8 \/ bits = 16 \/ bits = 32 \/ bits = 64)))
      /\ aligned tl (bitpos + bits)
  end.

Theorem layout_total : forall es bitpos acc, aligned es bitpos ->
  exists l tot, layout es bitpos acc = Some (l, tot).
Proof.
  induction es as [|[[idx sub] bits] tl IH]; intros bitpos acc A; cbn [layout]; [eauto|].
  destruct A as [A1 A2].
  destruct (Z.eqb_spec idx 0); [apply IH, A2|].
  destruct (Z.ltb_spec bits 8); [apply IH, A2|].
  destruct A1 as [?|[?|(M & B)]]; try lia.
  replace (bits mod 8 =? 0) with true by (destruct B as [-> | [-> | [-> | ->]]]; reflexivity).
  replace (bitpos mod 8 =? 0) with true by (symmetry; now apply Z.eqb_eq).
  replace ((bits =? 8) || (bits =? 16) || (bits =? 32) || (bits =? 64)) with true
    by (destruct B as [-> | [-> | [-> | ->]]]; reflexivity).
  cbn [negb orb]. apply IH, A2.
Qed.
