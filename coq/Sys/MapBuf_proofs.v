From Verif Require Import Sys.MapBuf.

Lemma round8_idem n : round8 (round8 n) = round8 n.
Proof.
  unfold round8. set (q := (n + 7) / 8). replace (q * 8 + 7) with (7 + q * 8) by lia.
  rewrite Z.div_add by lia. change (7 / 8) with 0. lia.
Qed.

(* every call passes buffers at least as large as what the kernel accesses,
   for every map the library declares and every number of possible CPUs -
   provided the per-CPU reader uses that number *)
Theorem buffers_suffice a ncpu : 0 <= ncpu ->
  (forall total n, a = PerCpuRead total n -> n = ncpu) ->
  key_needed a ncpu <= key_buffer a /\ value_needed a ncpu <= value_buffer a.
Proof.
  intros Hn Hc. destruct a; cbn [key_needed key_buffer value_needed value_buffer api_map hashvar_map dict_map percpu_map
                                   kernel_value_bytes m_type m_key m_value]; try lia.
  specialize (Hc _ _ eq_refl). subst ncpu0. unfold array_size. fold (round8 total). rewrite round8_idem. lia.
Qed.

(* with the number of ONLINE CPUs (os.cpu_count, the pinned tree) the buffer is too small on a machine
   with more possible CPUs *)
Theorem online_cpus_refuted : exists a ncpu, value_buffer a < value_needed a ncpu /\ a = PerCpuRead 12 4 /\ ncpu = 16.
Proof. eexists _, _. split; [|split; reflexivity]. vm_compute. reflexivity. Qed.
