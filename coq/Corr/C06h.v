From Verif Require Import Lib.Base Lib.ListX Ebpf.Isa Corr.Exec Sys.HashMapSpec Corr.C09 Corr.C06.
(* several program instances sharing the maps AND the hash tables, one instruction at a time *)
Definition step_inst_h (gm : list (list Z)) (tabs : list htab) (x : inst) : list (list Z) * list htab * inst :=
  match i_status x with
  | Running =>
      let '(s', tabs', st', pc') := hstep (i_prog x) (i_pc x) (with_maps (i_state x) gm) tabs in
      (maps s', tabs', {| i_prog := i_prog x; i_state := s'; i_status := st'; i_pc := pc' |})
  | _ => (gm, tabs, x)
  end.

Fixpoint run_sched_h (sched : list nat) (gm : list (list Z)) (tabs : list htab) (xs : list inst) : list (list Z) * list htab * list inst :=
  match sched with
  | [] => (gm, tabs, xs)
  | k :: tl =>
      match nth_error xs k with
      | Some x => let '(gm', tabs', x') := step_inst_h gm tabs x in run_sched_h tl gm' tabs' (set_at k x' xs)
      | None => run_sched_h tl gm tabs xs
      end
  end.

Fixpoint finish_h (fuel : nat) (gm : list (list Z)) (tabs : list htab) (x : inst) : list (list Z) * list htab * inst :=
  match fuel with
  | O => (gm, tabs, x)
  | S f => match i_status x with
           | Running => let '(gm', tabs', x') := step_inst_h gm tabs x in finish_h f gm' tabs' x'
           | _ => (gm, tabs, x)
           end
  end.
Fixpoint finish_all_h (gm : list (list Z)) (tabs : list htab) (xs : list inst) : list (list Z) * list htab * list inst :=
  match xs with
  | [] => (gm, tabs, [])
  | x :: tl => let '(gm', tabs', x') := finish_h (4 * length (i_prog x) + 64) gm tabs x in
               let '(gm'', tabs'', tl') := finish_all_h gm' tabs' tl in (gm'', tabs'', x' :: tl')
  end.

Definition multi_h (progs : list (list instr)) (ms : list (list Z)) (tabs : list htab) (stk : list Z) (sched : list nat) : V :=
  let xs := map (fun p => {| i_prog := p; i_state := with_stack (init_state [] ms []) stk; i_status := Running; i_pc := 0%nat |}) progs in
  let '(gm, tabs', xs') := run_sched_h sched ms tabs xs in
  let '(gm', tabs'', xs'') := finish_all_h gm tabs' xs' in
  VL [VL (map VB gm'); VL (map (fun x => v_status (i_status x)) xs'')].
Definition multis_h (progs : list (list instr)) (ms : list (list Z)) (tabs : list htab) (stk : list Z) (scheds : list (list nat)) : V :=
  VL (map (multi_h progs ms tabs stk) scheds).
