(* The fast Motor device (ebpfcat/devices.py Motor.program), statement by
   statement with the machine semantics of the generated code: stmp is a
   signed 64-bit register, DeviceVars are unsigned 32-bit map variables, the
   encoder a signed 32-bit and the velocity output a signed 16-bit process
   variable, switches are bits. *)
From Verif Require Export Ebpf.Isa.

Record inputs := {
  gain : Z; target : Z; acc : Z; vmax : Z;    (* DeviceVar "I" *)
  pos : Z;                                    (* encoder, "i" *)
  prev : Z;                                   (* velocity output as left by the previous cycle, "h" *)
  low : bool; high : bool }.

Definition s64 (z : Z) : Z := sx64 (z mod W64).          (* a value computed in a 64-bit register, read as signed *)
Definition s16 (z : Z) : Z := sx 2 (z mod 65536).        (* stored to / loaded from the 16-bit output *)

Definition motor_impl (i : inputs) : Z :=
  let st0 := s64 (gain i * (target i - pos i)) in
  let st1 := if s64 (prev i + acc i) <? st0 then s64 (prev i + acc i) else st0 in
  let st2 := if s64 (st1 + acc i) <? prev i then s64 (prev i - acc i) else st1 in
  let st3 := if vmax i <? st2 then vmax i else st2 in
  let st4 := if st3 <? s64 (- vmax i) then s64 (- vmax i) else st3 in
  let v := s16 st4 in
  let v1 := if low i && (v <? 0) then 0 else v in
  let v2 := if high i && (0 <? v1) then 0 else v1 in
  v2.

(* ---- the control law of the property ---- *)
Definition clamp (lo hi x : Z) : Z := Z.max lo (Z.min hi x).
Definition motor_spec (i : inputs) : Z :=
  let d := gain i * (target i - pos i) in
  let d1 := clamp (prev i - acc i) (prev i + acc i) d in
  let d2 := clamp (- vmax i) (vmax i) d1 in
  if low i && (d2 <? 0) then 0 else if high i && (0 <? d2) then 0 else d2.

Definition pre (i : inputs) : Prop :=
  0 <= gain i < W32 /\ 0 <= target i < W32 /\ 0 <= acc i < W32 /\
  0 <= vmax i < 32768 /\ - 2147483648 <= pos i < 2147483648 /\
  - vmax i <= prev i <= vmax i /\
  - 9223372036854775808 <= gain i * (target i - pos i) < 9223372036854775808.
