"""struct format strings <-> the Coq `fmt` type of Lib/Struct.v"""
import re
from .common import clist, cz, czlist

INTS = {"B": (1, False), "b": (1, True), "H": (2, False), "h": (2, True),
        "I": (4, False), "i": (4, True), "Q": (8, False), "q": (8, True)}


FLOATS = {"e": 2, "f": 4, "d": 8}


def items(fmt):
    """expand a struct format (without byte-order prefix) to a list of items
    ('int', size, signed) | ('pad',) | ('str', n)"""
    out = []
    for cnt, ch in re.findall(r"(\d*)([A-Za-z?])", fmt):
        n = int(cnt) if cnt else 1
        if ch in INTS:
            out.extend([("int",) + INTS[ch]] * n)
        elif ch == "x":
            out.extend([("pad",)] * n)
        elif ch == "s":
            out.append(("str", n))
        elif ch in FLOATS:
            out.extend([("flt", FLOATS[ch], ch)] * n)     # not part of the Coq struct model: checked against Python's struct only
        else:
            raise ValueError(f"format char {ch} not modelled")
    return out


def cfmt(fmt):
    res = []
    for it in items(fmt):
        if it[0] == "int":
            res.append(f"FInt {it[1]}%nat {'true' if it[2] else 'false'}")
        elif it[0] == "pad":
            res.append("FPad")
        else:
            res.append(f"FStr {it[1]}%nat")
    return clist(res)


def csval(v):
    if isinstance(v, (bytes, bytearray)):
        return f"(SBytes {czlist(v)})"
    return f"(SInt {cz(v)})"
