(* C20 A terminal's FMMUs are never shared by two live mappings.
   Model: Ecat/Fmmu.v (Terminal.map_fmmu slot choice with Python slice /
   index / negative-index semantics; any order of map and unmap). *)
From Verif Require Import Ecat.Fmmu Ecat.Fmmu_proofs Ecat.FmmuGroup Ecat.FmmuGroup_proofs.

(* after ANY sequence of overlapping map/unmap operations on a terminal with
   any number of FMMUs, the live mappings use pairwise different, existing
   FMMUs, each holding that mapping's logical address *)
Theorem C20_distinct_slots : forall n ops, let s := fold_left step ops (init n) in
  NoDup (map fst (live s)) /\
  forall i lg, In (i, lg) (live s) ->
    0 <= i < Z.of_nat (length (tbl s)) /\ nth_error (tbl s) (Z.to_nat i) = Some (Some lg).
Proof. exact distinct_slots. Qed.
Print Assumptions C20_distinct_slots.

(* a successful mapping took a slot that was free *)
Theorem C20_takes_free : forall u w lg i u', map_enter u w lg = Some (i, u') ->
  0 <= i < zlen u /\ free u (Z.to_nat i) /\ u' = set_at (Z.to_nat i) (Some lg) u.
Proof. exact enter_takes_free. Qed.
Print Assumptions C20_takes_free.

(* with no free FMMU the mapping fails instead of reusing one *)
Theorem C20_full_fails : forall u w lg, (forall j, ~ free u j) -> map_enter u w lg = None.
Proof. exact full_fails. Qed.
Print Assumptions C20_full_fails.

(* ending a mapping frees exactly its own FMMU *)
Theorem C20_release_own : forall u i u', 0 <= i -> map_exit u i = Some u' ->
  free u' (Z.to_nat i) /\ length u' = length u /\
  forall j, j <> Z.to_nat i -> nth_error u' j = nth_error u j.
Proof. exact release_own. Qed.
Print Assumptions C20_release_own.

Example C20_nonvacuous :
  let s := fold_left step [Map true 4096; Map false 6144; Map true 8192; Unmap 0; Map true 12288] (init 3) in
  tbl s = [Some 8192; Some 12288; Some 6144] /\ live s = [(2, 6144); (0, 8192); (1, 12288)].
Proof. vm_compute. split; reflexivity. Qed.

(* why choosing and booking a slot must be one step (no await in between): two mappings that both choose before either
   books are handed the same FMMU *)
Theorem C20_split_booking_refuted :
  let u := [None; None] in
  slot_index u true = Some 1 /\ slot_index u true = slot_index u true /\
  (forall u1, py_set u 1 (Some 4096) = Some u1 -> slot_index u1 true <> Some 1).
Proof.
  split; [reflexivity|]. split; [reflexivity|]. intros u1 H. vm_compute in H. injection H as <-. vm_compute. discriminate.
Qed.
Print Assumptions C20_split_booking_refuted.

(* ---- several sync groups share one terminal (Ecat/FmmuGroup.v: SyncGroupBase.map_fmmu maps the output image, then the input
   image, in one exit stack).  A group that is refused - also after its output image had already been mapped - leaves the
   terminal's bookings EXACTLY as it found them, so the groups that are running keep theirs ... *)
Theorem C20_refused_group_restores : forall u out_ inp, group_enter u out_ (Some inp) = None -> unwind u out_ inp = Some u.
Proof. exact group_refused_restores. Qed.
Print Assumptions C20_refused_group_restores.

(* ... and a group that is accepted gets only FMMUs that were free, distinct ones, and changes no other entry of the table *)
Theorem C20_accepted_group : forall u out_ inp sl u', group_enter u out_ inp = Some (sl, u') ->
  length u' = length u /\
  (forall i, In i sl -> 0 <= i < zlen u /\ free u (Z.to_nat i)) /\
  (forall j, ~ In (Z.of_nat j) sl -> nth_error u' j = nth_error u j) /\
  NoDup sl.
Proof. exact group_enter_spec. Qed.
Print Assumptions C20_accepted_group.

Example C20_groups_nonvacuous :
  let s := fold_left gstep [GMap 0 (Some 6144) (Some 4096); GMap 1 (Some 100) (Some 200); GUnmap 0; GMap 2 None (Some 300)] (ginit 2) in
  gtbl s = [None; Some 300] /\ groups s = [(2%nat, [1])] /\ unwind [Some 4096; Some 6144] (Some 100) 200 = Some [Some 4096; Some 6144].
Proof. vm_compute. repeat split. Qed.
