"""C08: array-map variables: random declaration sets over class hierarchies and
subprogram instances; the real layout is compared with Gen/Layout.v; values are
written from Python through the real descriptors, read by the real generated
program (in the Coq ISA model) and vice versa."""
import os
import struct

from .common import Check, Err, clist, cz, eval_terms
from . import dsl, exprs, ebpf_exec, isa_check, sim_kernel

SCALAR = ["B", "H", "I", "Q", "b", "h", "i", "q", "x", "B", "H", "I", "Q", "b", "h", "i", "q", "x",
          ">h", "<h", "!i", "<i", ">b", ">H", "<I", "!q", ">Q", "<q"]        # a third with an explicit byte order
MULTI = ["2H", "3B", "HI", "2I", "BH", "2q"]
FB = 100000


def fsize(fmt):
    return 8 if fmt == "x" else struct.calcsize(fmt)


class C08(Check):
    pid = "C08"
    props_file = "Props/C08.v"
    corr_imports = ["Ebpf.Isa", "Corr.Exec", "Gen.Layout", "Corr.C04", "Corr.C08"]
    technique = ("Coq theorems (one slot per name of the size attribute lookup uses; slots pairwise disjoint for ANY declaration set; codecs round-trip) + comparison of "
                 "the REAL layout over class hierarchies with the model + values passed both ways between the real Python descriptors and the real generated "
                 "program executed in the Coq ISA model")
    trusted = ["coq/Ebpf/Isa.v (kernel-validated)", "harness/sim_kernel.py (map creation: a memfd the real code mmaps)", "Python struct as the byte-level oracle"]
    assumptions = ["little-endian host"]
    known_classes = {}

    def make_case(self, rng):
        def decls(prefix, lo, hi, pool):
            return [[f"{prefix}{k}", rng.choice(pool)] for k in range(rng.randint(lo, hi))]
        pool = SCALAR * 3 + MULTI
        base = decls("b", 0, 3, pool)
        derived = decls("d", 1, 4, pool)
        # overrides: the derived class redefines some base names, possibly with another format
        for n, f in base:
            if rng.random() < 0.5:
                derived.insert(rng.randrange(len(derived) + 1), [n, rng.choice(SCALAR)])
        subs = []
        for k in range(rng.randint(0, 2)):
            sb = decls(f"s{k}b", 0, 2, pool)
            sd = decls(f"s{k}d", 0, 2, pool)
            for n, f in sb:
                if rng.random() < 0.5:
                    sd.append([n, rng.choice(SCALAR)])
            subs.append({"base": sb, "derived": sd, "instances": rng.randint(1, 2)})
        case = {"base": base, "derived": derived, "subs": subs, "percpu": rng.random() < 0.25, "valseed": rng.randrange(2 ** 30)}
        return case

    def gen_cases(self):
        cases = [self.make_case(self.rng) for _ in range(200 if self.tier == "quick" else 2500)]
        # directed, on their own stream: the program first bumps one run-time selected element of a table through the table's ADDRESS
        # (`get_address`, the idiom of the dispatcher's counter table), then reads and writes the other variables as usual
        import random
        rng = random.Random(self.seed + 808)
        for _ in range(24 if self.tier == "quick" else 300):
            c = self.make_case(rng)
            c["percpu"] = False
            c["derived"].insert(rng.randrange(len(c["derived"]) + 1), ["tbl", rng.choice(["2q", "2I", "2I"])])
            c["base"] = [d for d in c["base"] if d[0] != "tbl"]
            c["bump"] = [rng.randrange(2), rng.choice([1, 5, 1000])]
            cases.append(c)
        return cases

    def corpus(self):
        return [{"base": [["a", "I"], ["b", "I"]], "derived": [["a", "Q"], ["c", "H"]], "subs": [], "percpu": False, "valseed": 1}]

    # the variables as attribute lookup sees them: owner -> [(name, fmt)] (first definition in the MRO)
    def effective(self, case):
        def eff(derived, base):
            out, seen = [], set()
            for n, f in derived + base:
                if n not in seen:
                    seen.add(n)
                    out.append((n, f))
            return out
        owners = {"main": eff(case["derived"], case["base"])}
        k = 0
        for s in case["subs"]:
            for _ in range(s["instances"]):
                owners[f"s{k}"] = eff(s["derived"], s["base"])
                k += 1
        return owners

    def values(self, case):
        import random
        rng = random.Random(case["valseed"])
        vals = {}
        for o, vs in self.effective(case).items():
            for n, f in vs:
                if f == "x":
                    vals[f"{o}.{n}"] = rng.choice([0.29, 1.5, -2.75, 123.456, 0.00001, 99999.99999, 0.57, -0.58])
                elif f in MULTI:
                    vals[f"{o}.{n}"] = tuple(exprs.rand_value(rng, c) for c in self.letters(f))
                else:
                    vals[f"{o}.{n}"] = exprs.rand_value(rng, f)
        return vals

    @staticmethod
    def letters(fmt):
        out, cnt = [], ""
        for ch in fmt:
            if ch.isdigit():
                cnt += ch
            else:
                out += [ch] * int(cnt or 1)
                cnt = ""
        return out

    def build(self, case):
        from ebpfcat.arraymap import ArrayMap, PerCPUArrayMap
        from ebpfcat.ebpf import EBPF, SubProgram, LocalVar
        from ebpfcat.bpf import ProgType
        amap = (PerCPUArrayMap if case["percpu"] else ArrayMap)()

        def mk(name, bases, decls, extra=None):
            ns = dict(extra or {})
            for n, f in decls:
                ns[n] = amap.globalVar(f)
            return type(name, bases, ns)
        eff = self.effective(case)
        # mirrors: locals of the main program receiving what the program reads
        mirrors = {}
        extra = {"amap": amap}
        for o, vs in eff.items():
            for n, f in vs:
                if f not in MULTI:
                    mirrors[f"{o}.{n}"] = f"mir_{o}_{n}"
                    extra[f"mir_{o}_{n}"] = LocalVar("x" if f == "x" else ("q" if f.islower() else "Q"))
        Base = mk("Base", (EBPF,), case["base"])
        Main = mk("Main", (Base,), case["derived"], extra)      # the map itself is declared in the program class
        subs = []
        for k, s in enumerate(case["subs"]):
            SB = mk(f"SB{k}", (SubProgram,), s["base"], {"program": lambda self: None})
            SD = mk(f"SD{k}", (SB,), s["derived"])
            subs += [SD() for _ in range(s["instances"])]
        res = {}
        vals = self.values(case)
        consts = {}
        with sim_kernel.installed() as kernel:
            if subs and case["valseed"] % 3 == 0:
                # an earlier program of this class used the same subprogram OBJECTS in another arrangement (one more in front, the
                # others in reverse order): nothing of that layout may stick to them
                Main(ProgType.XDP, "GPL", subprograms=[type(subs[-1])()] + list(reversed(subs)))
            n_maps0 = len(kernel.maps)
            e = Main(ProgType.XDP, "GPL", subprograms=subs)
            objs = {"main": e}
            objs.update({f"s{i}": s for i, s in enumerate(subs)})
            if case.get("bump"):
                slot, k = case["bump"]
                letter = self.letters(dict(eff["main"])["tbl"])[0]
                e.r3 = slot
                with e.tbl.get_address(None, False, False) as (dst, _):
                    e.r[dst] += struct.calcsize(letter) * e.r3
                    getattr(e, "m" + letter)[e.r[dst]] += k
            # phase 1: the program reads every scalar variable into its mirror
            for key, mir in mirrors.items():
                o, n = key.split(".")
                setattr(e, mir, getattr(objs[o], n))
            # phase 2: the program stores a constant into every scalar variable
            import random
            rng = random.Random(case["valseed"] + 1)
            for key in mirrors:
                o, n = key.split(".")
                f = dict(eff[o])[n]
                c = rng.choice([0.29, 2.5, 7, 30000, -40000, 21475, 42949, 21474, 1000000, -1.5, 12345.678]) if f == "x" else exprs.rand_value(rng, f)
                consts[key] = c
                setattr(objs[o], n, c)
            e.r0 = 2
            e.exit()
            fds = {fd: k for k, fd in enumerate(list(kernel.maps)[n_maps0:])}      # the maps of THIS program, in creation order
            instrs = []
            for ins in e.opcodes:
                op, dst, src, off, imm = ins
                if op.value == 0x18 and src == 1:
                    imm = fds.get(imm, 0)
                instrs.append((op.value, dst, src, off, imm))
            positions = {f"{o}.{n}": objs[o].__dict__[n] for o, vs in eff.items() for n, f in vs}
            res.update(instrs=instrs, positions=positions, size=amap.size, stack=Main.stack,
                       mirror_addr={k: Main.__dict__[m].relative_addr for k, m in mirrors.items()})
            if case["percpu"]:
                res["percpu"] = self.percpu_side(case, e, objs, eff, amap, vals)
                return res
            # ---- Python -> map bytes through the real descriptors
            e.loaded = True
            err = None
            try:
                for key, v in vals.items():
                    o, n = key.split(".")
                    setattr(objs[o], n, v)
                # writes that struct refuses (value outside the format) must leave the variable as it is
                refused = 0
                for key, v in vals.items():
                    o, n = key.split(".")
                    f = dict(eff[o])[n]
                    if (case["valseed"] + len(n) + len(key)) % 3:
                        continue
                    if f == "x":
                        bad = 1e15
                    elif f in MULTI:
                        bad = tuple(v[:-1]) + (1 << 70,)
                    else:
                        bad = 1 << 8 * fsize(f)
                    try:
                        setattr(objs[o], n, bad)
                        raise AssertionError(f"out-of-range value {bad} accepted for {key}:{f}")
                    except (struct.error, OverflowError):
                        refused += 1
                res["refused_writes"] = refused
                res["map_in"] = bytes(e.__dict__["amap"][:])
            except Exception as ex:      # noqa
                err = f"writing from Python raised {type(ex).__name__}: {ex}"
            res["py_write_error"] = err
            res["objs"], res["e"], res["consts"], res["vals"] = objs, e, consts, vals
        return res

    def percpu_side(self, case, e, objs, eff, amap, vals):
        """Python side of a per-CPU map: one value per CPU, read explicitly"""
        import random
        rng = random.Random(case["valseed"] + 2)
        ncpu = amap.cpu_no
        blobs, expect = [], {}
        for cpu in range(ncpu):
            blob = bytearray(amap.size)
            for o, vs in eff.items():
                for n, f in vs:
                    pos = objs[o].__dict__[n]
                    if f == "x":
                        raw = rng.randint(-10 ** 9, 10 ** 9)
                        struct.pack_into("q", blob, pos, raw)
                        v = raw / FB
                    elif f in MULTI:
                        v = tuple(exprs.rand_value(rng, c) for c in self.letters(f))
                        struct.pack_into(f, blob, pos, *v)
                    else:
                        v = exprs.rand_value(rng, f)
                        struct.pack_into(f, blob, pos, v)
                    expect.setdefault(f"{o}.{n}", []).append(v)
            blobs.append(bytes(blob))
        reader = e.__dict__["amap"]
        reader.data = memoryview(b"".join(blobs))
        e.loaded = True
        got, err = {}, None
        try:
            for o, vs in eff.items():
                for n, f in vs:
                    seq = getattr(objs[o], n)
                    got[f"{o}.{n}"] = [seq[k] for k in range(len(seq))]
        except Exception as ex:      # noqa
            err = f"{type(ex).__name__}: {ex}"
        return {"ncpu": ncpu, "expect": expect, "got": got, "error": err}

    def prepare(self, cases):
        terms, idx = [], []
        for i, c in enumerate(cases):
            c["_run"] = None
            try:
                b = self.build(c)
            except Exception as e:      # noqa
                import traceback
                c["_b"] = Err(6, f"{type(e).__name__}: {e} {traceback.format_exc()[-300:]}")
                continue
            c["_b"] = b
            if c["percpu"] or b.get("py_write_error"):
                continue
            stack = bytes(-b["stack"] + 8)
            terms.append(f"(exec_vars {ebpf_exec.cprog(b['instrs'])} [] [{ebpf_exec.cbytes(b['map_in'])}] [] {ebpf_exec.cbytes(stack)})")
            idx.append(i)
        vals, log = eval_terms(self.pid, self.corr_imports, terms, shard=60)
        for i, v in zip(idx, vals):
            cases[i]["_run"] = v
        return log

    def run_impl(self, case):
        b = case["_b"]
        if isinstance(b, Err):
            return b
        eff = self.effective(case)
        o = {"positions": b["positions"], "size": b["size"]}
        if case["percpu"]:
            o["percpu"] = b["percpu"]
            case["_o"] = o
            return o
        if b["py_write_error"]:
            return Err(5, b["py_write_error"])
        r = case["_run"]
        if r is None:
            return Err(9, "model evaluation failed")
        status, pkt, maps, stack, regs = r
        if status != [1]:
            return Err(7, f"program did not exit normally: status {status}")
        # what the program read (mirrors on the stack)
        S = len(stack)
        mir = {}
        for key, addr in b["mirror_addr"].items():
            ow, n = key.split(".")
            f = dict(eff[ow])[n]
            mir[key] = int.from_bytes(bytes(stack[S + addr:S + addr + 8]), "little", signed=f.islower())
        # Python reads what the program stored
        e = b["e"]
        e.__dict__["amap"][:] = bytes(maps[0])
        back, err = {}, None
        try:
            for ow, vs in eff.items():
                for n, f in vs:
                    back[f"{ow}.{n}"] = getattr(b["objs"][ow], n)
        except Exception as ex:      # noqa
            err = f"reading from Python raised {type(ex).__name__}: {ex}"
        o.update(mirrors=mir, back={k: (list(v) if isinstance(v, tuple) else v) for k, v in back.items()}, read_error=err,
                 map_in=b["map_in"].hex())
        case["_o"] = o
        return o

    # ---- layout tie
    def model_term(self, case):
        if isinstance(case["_b"], Err) or case.get("_o") is None:
            return None
        names = {}

        def nid(n):
            return names.setdefault(n, len(names))

        def mro(derived, base):
            return clist([f"({cz(nid(n))}, {cz(fsize(f))})" for n, f in derived + base])
        progs = [mro(case["derived"], case["base"])]
        for s in case["subs"]:
            progs += [mro(s["derived"], s["base"])] * s["instances"]
        return f"(collect_mro {clist(progs)})"

    def model_value(self, case, o):
        eff = self.effective(case)
        return [[o["positions"][f"{ow}.{n}"] for ow, vs in eff.items() for n, f in vs], o["size"]]

    def holds(self, case, o):
        if isinstance(o, Err):
            if o.code == 6 and ("no value" in o.what or "not enough registers" in o.what):
                return True
            return f"{o.what}; {self.describe(case)}"
        eff = self.effective(case)
        ranges = []
        for ow, vs in eff.items():
            for n, f in vs:
                p = o["positions"][f"{ow}.{n}"]
                ranges.append((p, p + fsize(f), f"{ow}.{n}:{f}"))
        ranges.sort()
        for (a0, a1, na), (b0, b1, nb) in zip(ranges, ranges[1:]):
            if b0 < a1:
                return f"variables {na} at {a0} and {nb} at {b0} share bytes; declarations {self.describe(case)}"
        if ranges and ranges[-1][1] > o["size"]:
            return f"variable {ranges[-1][2]} ends at {ranges[-1][1]}, the map value has {o['size']} bytes"
        if case["percpu"]:
            pc = o["percpu"]
            if pc["error"]:
                return f"per-CPU read raised {pc['error']}"
            for k, want in pc["expect"].items():
                got = pc["got"][k]
                if len(got) != pc["ncpu"]:
                    return f"per-CPU variable {k} has {len(got)} entries for {pc['ncpu']} CPUs"
                for a, w in zip(got, want):
                    if (abs(a - w) > 1e-9) if isinstance(w, float) else (tuple(a) if isinstance(a, (tuple, list)) else a) != w:
                        return f"per-CPU variable {k}: Python reads {got}, the CPUs hold {want}"
            return True
        if o["read_error"]:
            return o["read_error"]
        b = case["_b"]
        for key, v in b["vals"].items():
            ow, n = key.split(".")
            f = dict(eff[ow])[n]
            if f in MULTI:
                continue
            want = round(v * FB) if f == "x" else v
            if o["mirrors"][key] != want:
                return f"Python wrote {key}:{f} = {v}, the program read {o['mirrors'][key]} (expected {want}); {self.describe(case)}"
        for key, c in b["consts"].items():
            ow, n = key.split(".")
            f = dict(eff[ow])[n]
            got = o["back"][key]
            if (abs(got - c) > 1e-9) if f == "x" else got != c:
                return f"the program stored {c} into {key}:{f}, Python reads {got}; {self.describe(case)}"
        for key, v in b["vals"].items():
            ow, n = key.split(".")
            f = dict(eff[ow])[n]
            if f in MULTI and key == "main.tbl" and case.get("bump"):
                slot, k = case["bump"]
                v = list(v)
                bits = 8 * fsize(self.letters(f)[0])
                v[slot] = (v[slot] + k) % (1 << bits)
                if f[-1].islower() and v[slot] >= 1 << (bits - 1):
                    v[slot] -= 1 << bits
            if f in MULTI and tuple(o["back"][key]) != tuple(v):
                return f"multi-element variable {key}:{f}: wrote {v}, read back {o['back'][key]} after the program ran"
        return True

    def nontrivial(self, case, o):
        return not isinstance(o, Err)

    def extra_checks(self):
        return [isa_check.check(self.seed + 8, 40 if self.tier == "quick" else 300)]

    def rule(self):
        return ("a base class (0-3 array-map variables) and a derived program class (1-4 more, half of the base names redefined with another scalar format), 0-2 "
                "subprogram class pairs with 1-2 instances each; formats B H I Q b h i q x, a third of them with an explicit byte order (>h <i !q ...) (3/4) and multi-element 2H 3B HI 2I BH 2q; values incl. decimals 0.29, "
                "0.57, -0.58 for x; 25% per-CPU maps (Python side: one blob per CPU); scalars pass Python -> program -> mirrors and program -> Python; a third of the variables also get a write that struct refuses "
                "(out-of-range value), which must leave them as they are")

    def distribution(self, cases, observed):
        d = {"overrides": 0, "overrides_larger": 0, "subprogram_instances": 0, "percpu": 0, "multi": 0, "errors": 0}
        for c, o in zip(cases, observed):
            d["errors"] += isinstance(o, Err)
            d["percpu"] += c["percpu"]
            bn = dict((n, f) for n, f in c["base"])
            for n, f in c["derived"]:
                if n in bn:
                    d["overrides"] += 1
                    d["overrides_larger"] += fsize(f) > fsize(bn[n])
                d["multi"] += f in MULTI
            d["subprogram_instances"] += sum(s["instances"] for s in c["subs"])
        return d

    def describe(self, case):
        return {k: v for k, v in case.items() if not k.startswith("_")}


CHECK = C08
