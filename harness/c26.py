"""C26: the fast Motor device: the REAL program generated for a FastSyncGroup with a
Motor on an EL7041 (16-bit velocity output) is executed in the Coq ISA model on
boundary and random inputs and compared with Dev/Motor.v and the control law."""
import asyncio
import logging

from .common import Check, Err, clist, cz, cbool, eval_terms
from . import dsl, ebpf_exec, isa_check, sim_kernel

logging.disable(logging.CRITICAL)
U32 = [0, 1, 2, 3, 100, 1000, 32767, 32768, 40000, 65535, 65536, 100000, 2 ** 31 - 1, 2 ** 31, 2 ** 32 - 1]
S32 = [0, 1, -1, 100, -100, 32767, -32768, 100000, -100000, 2 ** 31 - 1, -2 ** 31]


def build():
    """the real program and the layout of its inputs"""
    from .rig import Rig
    from ebpfcat.ebpfcat import FastEtherCat, FastSyncGroup
    from ebpfcat.ethercat import SyncManager
    from ebpfcat.devices import Motor
    from ebpfcat.terminals import EL7041
    out = {}

    async def go(kernel):
        # TWO motors on two terminals in one fast group: the first one is a bystander with parameters of its own (a decoy), the
        # second one is the motor under test - whatever one instance of the class knows must not reach the other
        rig = Rig([dict(pos=1000, **{"in": 8, "out": 6}, fmmu=True, rw=True), dict(pos=1001, **{"in": 8, "out": 6}, fmmu=True, rw=True)], ec_class=FastEtherCat)
        rig.connect()
        motors = []
        for k in range(2):
            m = EL7041(rig.ec)
            m.__dict__.update(rig.terms[k].__dict__)
            m.pdos = {(0x7010, 0x21): (SyncManager.OUT, 2, "h"), (0x7010, 1): (SyncManager.OUT, 0, 0),
                      (0x6010, 0xc): (SyncManager.IN, 1, 3), (0x6010, 0xd): (SyncManager.IN, 1, 4), (0x6000, 0x11): (SyncManager.IN, 2, "i")}
            m.position_offset = {None: 0}
            d = Motor()
            d.velocity, d.encoder, d.low_switch, d.high_switch, d.enable = m.velocity, m.stepcounter, m.low_switch, m.high_switch, m.enable
            motors.append((m, d))
        decoy = motors[0][1]
        m, d = motors[1]
        sg = FastSyncGroup(rig.ec, [decoy, d])
        sg.allocate()
        sg.assemble()
        fds = {fd: k for k, fd in enumerate(kernel.maps)}
        instrs = []
        for ins in sg.opcodes:
            op, dst, src, off, imm = ins
            if op.value == 0x18 and src == 1:
                imm = fds.get(imm, 0)
            instrs.append((op.value, dst, src, off, imm))
        base_in = sg.pdo_assign[m][SyncManager.IN] + 14
        base_out = sg.pdo_assign[m][SyncManager.OUT] + 14
        out.update(instrs=instrs, frame=bytes(14) + bytes(sg.packet.sterile(3, rig.ec.ethertype if hasattr(rig.ec, "ethertype") else 0x88a4)),
                   pos={"switches": base_in + 1, "encoder": base_in + 2, "velocity": base_out + 2, "enable": base_out},
                   vars={k: d.__dict__[k] for k in ("set_enable", "max_velocity", "max_acceleration", "target", "proportional")},
                   decoy_vars={k: decoy.__dict__[k] for k in ("set_enable", "max_velocity", "max_acceleration", "target", "proportional")},
                   map_size=FastSyncGroup.properties.size, wkc_errors=sg.__dict__["wkc_errors"])
        await rig.shutdown()
    with sim_kernel.installed() as k:
        asyncio.run(go(k))
    return out


class C26(Check):
    pid = "C26"
    props_file = "Props/C26.v"
    corr_imports = ["Ebpf.Isa", "Corr.Exec", "Dev.Motor", "Corr.C26"]
    technique = ("Coq theorem for ALL inputs (unbounded integers under the property's ranges): the statement-level machine model of Motor.program equals the "
                 "limited control law + execution of the REAL generated FastSyncGroup/Motor program in the Coq ISA model on boundary and random inputs")
    trusted = ["coq/Ebpf/Isa.v (kernel-validated)", "harness/rig.py, sim_bus.py, sim_kernel.py (they only provide the objects from which the real program is assembled)"]
    assumptions = ["EL7041 layout: velocity 'h', encoder 'i', switches and enable as bits; DeviceVars 'I'"]
    known_classes = {}

    def make_case(self, rng):
        def pick(pool, lo, hi):
            r = rng.random()
            if r < 0.5:
                return rng.choice([x for x in pool if lo <= x <= hi])
            if r < 0.8:
                return rng.randint(max(lo, -1000), min(hi, 1000))
            return rng.randint(lo, hi)
        vmax = pick(U32, 0, 32767)
        prev = rng.choice([vmax, -vmax, 0, rng.randint(-vmax, vmax)])
        c = {"gain": pick(U32, 0, 2 ** 32 - 1), "target": pick(U32, 0, 2 ** 32 - 1), "acc": pick(U32, 0, 2 ** 32 - 1), "vmax": vmax,
             "pos": pick(S32, -2 ** 31, 2 ** 31 - 1), "prev": prev, "low": rng.random() < 0.3, "high": rng.random() < 0.3,
             "set_enable": rng.choice([0, 1]), "noise": rng.randrange(256)}
        r = rng.random()
        if r < 0.12:
            # a desired velocity at the ends of the signed 64-bit range: sums with the acceleration limit must not be formed on it
            g = rng.choice([2 ** 31 - 1, 2 ** 31, 2 ** 32 - 1, 2 ** 32 - 2, rng.randint(2 ** 30, 2 ** 32 - 1)])
            slack = rng.choice([0, 0, 1, 50, rng.randint(0, 2 ** 33)])
            if rng.random() < 0.75:
                diff = min((2 ** 63 - 1 - slack) // g, 2 ** 32 - 1 + 2 ** 31)
            else:
                diff = -min((2 ** 63 - slack) // g, 2 ** 31 - 1)
            lo_pos, hi_pos = max(-2 ** 31, -diff), min(2 ** 31 - 1, 2 ** 32 - 1 - diff)
            if lo_pos <= hi_pos:
                c["pos"] = rng.choice([lo_pos, hi_pos, rng.randint(lo_pos, hi_pos)])
                c["target"] = diff + c["pos"]
                c["gain"] = g
                dist = 2 ** 63 - abs(g * diff)
                c["acc"] = rng.choice([min(2 ** 32 - 1, dist), min(2 ** 32 - 1, dist + 1), max(0, min(2 ** 32 - 1, dist - 1)), 50, 2 ** 31, 2 ** 32 - 1])
        elif r < 0.55:
            # a desired velocity close to the interesting region
            c["gain"] = rng.choice([1, 2, 3, 10])
            c["target"] = max(0, min(2 ** 32 - 1, c["pos"] + rng.choice([-1, 1]) * rng.choice([0, 1, 10, 1000, 40000, 70000, 10 ** 6]))) if c["pos"] >= -10 ** 6 else 0
        return c

    def gen_cases(self):
        return [self.make_case(self.rng) for _ in range(600 if self.tier == "quick" else 10000)]

    def corpus(self):
        # the defect of the pinned tree: acceleration-limited value stored to 16 bits before the velocity clamp
        return [{"gain": 1, "target": 100000, "acc": 40000, "vmax": 1000, "pos": 0, "prev": 0, "low": False, "high": False, "set_enable": 1, "noise": 0}]

    def prepare(self, cases):
        self.b = build()
        b = self.b
        terms = []
        for c in cases:
            pkt = bytearray(b["frame"])
            sw = c["noise"] & ~0x18 | (0x08 if c["high"] else 0) | (0x10 if c["low"] else 0)
            pkt[b["pos"]["switches"]] = sw
            pkt[b["pos"]["encoder"]:b["pos"]["encoder"] + 4] = (c["pos"] % 2 ** 32).to_bytes(4, "little")
            pkt[b["pos"]["velocity"]:b["pos"]["velocity"] + 2] = (c["prev"] % 2 ** 16).to_bytes(2, "little")
            pkt[b["pos"]["enable"]] = c["noise"]
            amap = bytearray(b["map_size"])
            amap[b["wkc_errors"]] = 1          # output enabled (0 means: leave the frame alone)
            for name, key in (("set_enable", "set_enable"), ("max_velocity", "vmax"), ("max_acceleration", "acc"), ("target", "target"), ("proportional", "gain")):
                amap[b["vars"][name]:b["vars"][name] + 4] = (c[key] % 2 ** 32).to_bytes(4, "little")
            for name, val in (("set_enable", 1), ("max_velocity", 20000), ("max_acceleration", 7000), ("target", 123456), ("proportional", 9)):
                amap[b["decoy_vars"][name]:b["decoy_vars"][name] + 4] = val.to_bytes(4, "little")
            c["_pkt"], c["_map"] = bytes(pkt), bytes(amap)
            terms.append(f"(exec_vars P {ebpf_exec.cbytes(pkt)} [{ebpf_exec.cbytes(amap)}] [] [])")
        pre = f"Definition P := {ebpf_exec.cprog(b['instrs'])}."
        vals, log = eval_terms(self.pid, self.corr_imports, terms, shard=150, preamble=pre)
        for c, v in zip(cases, vals):
            c["_run"] = v
        return log

    def run_impl(self, case):
        r = case["_run"]
        if r is None:
            return Err(9, "model evaluation failed")
        status, pkt, maps, stack, regs = r
        if status != [1]:
            return Err(7, f"program did not exit normally: status {status}")
        pkt = bytes(x for x, n in pkt for _ in range(n))
        b = self.b
        p = b["pos"]
        before = bytearray(case["_pkt"])
        after = bytearray(pkt)
        v = int.from_bytes(pkt[p["velocity"]:p["velocity"] + 2], "little", signed=True)
        en = pkt[p["enable"]]
        # everything but the velocity and the enable bit (and what the sterile-packet activation rewrites, identical for all inputs)
        for q in (p["velocity"], p["velocity"] + 1, p["enable"]):
            before[q] = after[q] = 0
        return {"velocity": v, "enable_bit": en & 1, "enable_rest": en & 0xfe, "r0": regs[0] % 2 ** 32,
                "inputs_kept": bytes(after[p["switches"]:p["encoder"] + 4]) == bytes(before[p["switches"]:p["encoder"] + 4]),
                "map_kept": all(x == y for k, (x, y) in enumerate(zip(bytes(maps[0]), case["_map"])) if not b["wkc_errors"] <= k < b["wkc_errors"] + 4)}

    def spec(self, c):
        d = c["gain"] * (c["target"] - c["pos"])
        d1 = max(c["prev"] - c["acc"], min(c["prev"] + c["acc"], d))
        d2 = max(-c["vmax"], min(c["vmax"], d1))
        if c["low"] and d2 < 0:
            return 0
        if c["high"] and d2 > 0:
            return 0
        return d2

    def model_term(self, case):
        return (f"(run {{| gain := {cz(case['gain'])}; target := {cz(case['target'])}; acc := {cz(case['acc'])}; vmax := {cz(case['vmax'])}; "
                f"pos := {cz(case['pos'])}; prev := {cz(case['prev'])}; low := {cbool(case['low'])}; high := {cbool(case['high'])} |}})")

    def model_value(self, case, o):
        return o["velocity"]

    def holds(self, case, o):
        if isinstance(o, Err):
            return o.what
        d = case["gain"] * (case["target"] - case["pos"])
        if not -2 ** 63 <= d < 2 ** 63:
            return True
        want = self.spec(case)
        inp = {k: case[k] for k in ("gain", "target", "pos", "acc", "vmax", "prev", "low", "high")}
        if o["velocity"] != want:
            return f"velocity output {o['velocity']}, the limited control law gives {want} for {inp}"
        if abs(o["velocity"]) > case["vmax"]:
            return f"velocity {o['velocity']} exceeds the limit {case['vmax']}"
        if o["enable_bit"] != (case["set_enable"] & 1) or o["enable_rest"] != (case["noise"] & 0xfe):
            return f"enable byte wrong: bit {o['enable_bit']} rest {o['enable_rest']:#x} for set_enable={case['set_enable']} byte before {case['noise']:#x}"
        if not o["inputs_kept"] or not o["map_kept"]:
            return "the program changed its inputs"
        return True

    def nontrivial(self, case, o):
        d = case["gain"] * (case["target"] - case["pos"])
        return -2 ** 63 <= d < 2 ** 63

    def extra_checks(self):
        return [isa_check.check(self.seed + 4, 40 if self.tier == "quick" else 300)]

    def rule(self):
        return ("the motor under test is the SECOND of two motors (two EL7041) in one fast group, the first one with fixed other parameters; " +
                "gain / target / acceleration limit over boundary values of [0, 2**32) (0, 1, 32767, 32768, 40000, 65535, 65536, 2**31, 2**32-1 ...), small and "
                "uniform values; position over boundary values of signed 32 bit; velocity limit in [0, 32767]; previous velocity in {-vmax, 0, vmax, random}; "
                "switch bits with random neighbouring bits; 43% of the cases with small gains and a target near the position; 12% with a desired velocity "
                "within the acceleration limit of +-2**63 (large gains times large distances)")

    def distribution(self, cases, observed):
        d = {"accel_limited": 0, "velocity_limited": 0, "switch_blocked": 0, "unlimited": 0, "overflowing_desired": 0, "desired_within_acc_of_2**63": 0}
        for c in cases:
            des = c["gain"] * (c["target"] - c["pos"])
            d["desired_within_acc_of_2**63"] += -2 ** 63 <= des < 2 ** 63 and 2 ** 63 - abs(des) <= c["acc"]
            if not -2 ** 63 <= des < 2 ** 63:
                d["overflowing_desired"] += 1
                continue
            d1 = max(c["prev"] - c["acc"], min(c["prev"] + c["acc"], des))
            d2 = max(-c["vmax"], min(c["vmax"], d1))
            if self.spec(c) != d2:
                d["switch_blocked"] += 1
            elif d2 != d1:
                d["velocity_limited"] += 1
            elif d1 != des:
                d["accel_limited"] += 1
            else:
                d["unlimited"] += 1
        return d

    def describe(self, case):
        return {k: v for k, v in case.items() if not k.startswith("_")}


CHECK = C26
