From Verif Require Import Ecat.StateMachine.

Lemma writes_app a b : writes (a ++ b) = writes a ++ writes b.
Proof. unfold writes. apply flat_map_app. Qed.

Lemma last_report_app a b d : last_report (a ++ b) d = last_report b (last_report a d).
Proof. unfold last_report. apply fold_left_app. Qed.

Lemma has_error_app a b : has_error_read (a ++ b) = has_error_read a || has_error_read b.
Proof. unfold has_error_read. apply existsb_app. Qed.

(* what one polling phase does *)
Lemma poll_spec c : forall rs t o rest, poll c rs = (t, o, rest) ->
  writes t = [] /\
  match o with
  | None => (forall t2, ordered (Some c) (t ++ t2) = ordered None t2) /\
            (forall d, last_report t d = c) /\ has_error_read t = false
  | Some Raised => has_error_read t = true
  | Some BadReply => True
  | Some _ => has_error_read t = false
  end.
Proof.
  induction rs as [|r rs IH]; intros t o rest H; cbn [poll] in H.
  - inversion H; subst. split; reflexivity.
  - destruct (negb (valid_state (Z.land r 15))).
    { inversion H; subst. split; [reflexivity|exact I]. }
    destruct (Z.land r 16 =? 0) eqn:E16.
    + destruct (Z.land r 15 =? c) eqn:E15.
      * inversion H; subst. split; [reflexivity|]. split; [|split].
        -- intros t2. cbn [app ordered]. rewrite E15, E16. reflexivity.
        -- intros d. cbn. lia.
        -- cbn. rewrite E16. reflexivity.
      * destruct (poll c rs) as [[t' o'] rest'] eqn:P. inversion H; subst.
        destruct (IH _ _ _ eq_refl) as [Wt Ho]. split; [exact Wt|].
        destruct o as [[]|]; cbn [has_error_read existsb]; rewrite ?E16; cbn [negb orb]; try exact Ho.
        destruct Ho as (O & L & Er). split; [|split].
        -- intros t2. cbn [app ordered]. rewrite E15. cbn [andb]. apply O.
        -- intros d. cbn [last_report fold_left]. apply L.
        -- exact Er.
    + inversion H; subst. split; [reflexivity|]. cbn. rewrite E16. reflexivity.
Qed.

Lemma poll_outcomes c : forall rs t o rest, poll c rs = (t, Some o, rest) ->
  o = Raised \/ o = Waiting \/ o = BadReply.
Proof.
  induction rs as [|r rs IH]; intros t o rest P; cbn [poll] in P.
  - inversion P; auto.
  - destruct (negb _); [inversion P; auto|]. destruct (_ =? 0); [|inversion P; auto].
    destruct (_ =? c); [discriminate|]. destruct (poll c rs) as [[t' o'] rest'].
    inversion P; subst. eapply IH; reflexivity.
Qed.

Definition GoSpec (state target : Z) (t : list ev) (o : outcome) : Prop :=
  (exists k, writes t = firstn k (path state target)) /\
  ordered None t = true /\
  (o = Returned -> writes t = path state target /\
                   last_report t state = (if state <? target then target else state) /\
                   has_error_read t = false) /\
  (o = Raised -> has_error_read t = true) /\
  (o = Waiting -> has_error_read t = false) /\
  o <> FellOff.

Definition is_target (tg : Z) : Prop := tg = 2 \/ tg = 4 \/ tg = 8.
Definition is_start (s : Z) : Prop := s = 1 \/ s = 2 \/ s = 4 \/ s = 8.

Lemma spec_done state target : is_start state -> is_target target -> target <= state ->
  GoSpec state target [] Returned.
Proof.
  intros Hs Ht Hle. unfold GoSpec. 
  assert (P : path state target = []).
  { destruct Hs as [-> | [-> | [-> | ->]]], Ht as [-> | [-> | ->]]; try lia; reflexivity. }
  rewrite P. split; [exists O; reflexivity|]. split; [reflexivity|].
  split; [intros _; split; [reflexivity|split; [|reflexivity]]|].
  - cbn. destruct (Z.ltb_spec state target); [lia|reflexivity].
  - repeat split; discriminate.
Qed.

Lemma spec_step state target c cs' rs :
  state < target -> c <> state -> c <= target -> path state target = c :: path c target ->
  (forall rs', GoSpec c target (fst (go cs' c target rs')) (snd (go cs' c target rs'))) ->
  GoSpec state target (fst (go (c :: cs') state target rs)) (snd (go (c :: cs') state target rs)).
Proof.
  intros Hlt Hne Hle Hp IH. cbn [go].
  destruct (Z.geb_spec state target); [lia|].
  destruct (Z.eqb_spec c state); [contradiction|].
  destruct (poll c rs) as [[t1 o1] rest] eqn:P.
  destruct (poll_spec _ _ _ _ _ P) as [W1 S1].
  destruct o1 as [out|].
  - (* the polling phase ended the call *)
    cbn [fst snd]. unfold GoSpec. cbn [writes flat_map app]. fold (writes t1). rewrite W1, Hp.
    split; [exists 1%nat; reflexivity|].
    split.
    { cbn [ordered]. clear - W1. assert (G : forall p, ordered p t1 = true).
      { induction t1 as [|[z|r] t1 IHt]; intros p; cbn [ordered]; [reflexivity| |].
        - cbn in W1. discriminate.
        - cbn in W1. destruct p as [c'|]; [destruct (_ && _)|]; apply IHt; exact W1. }
      apply G. }
    pose proof (poll_outcomes _ _ _ _ _ P) as Ho.
    destruct Ho as [-> | [-> | ->]]; cbn [has_error_read existsb orb] in *; fold (has_error_read t1);
      repeat split; try discriminate; try (intros _; exact S1).
  - (* requested state reported: continue with the next one *)
    specialize (IH rest). destruct (go cs' c target rest) as [t2 o2]. cbn [fst snd] in *.
    destruct S1 as (O1 & L1 & E1). destruct IH as ((k & Wk) & O2 & R2 & Ra2 & Wa2 & F2).
    unfold GoSpec. cbn [writes flat_map app]. fold (writes (t1 ++ t2)). rewrite writes_app, W1, Hp. cbn [app].
    split; [exists (S k); cbn [firstn]; now rewrite Wk|].
    split; [cbn [ordered]; rewrite O1; exact O2|].
    split; [|split; [|split; [|exact F2]]].
    + intros E. destruct (R2 E) as (A & B & C). split; [now rewrite A|]. split.
      * cbn [last_report fold_left]. fold (last_report (t1 ++ t2) state). rewrite last_report_app, L1, B.
        destruct (Z.ltb_spec state target); [|lia]. destruct (Z.ltb_spec c target); lia.
      * cbn [has_error_read existsb orb]. fold (has_error_read (t1 ++ t2)). now rewrite has_error_app, E1, C.
    + intros E. cbn [has_error_read existsb orb]. fold (has_error_read (t1 ++ t2)). rewrite has_error_app, (Ra2 E). apply orb_true_r.
    + intros E. cbn [has_error_read existsb orb]. fold (has_error_read (t1 ++ t2)). now rewrite has_error_app, E1, (Wa2 E).
Qed.

Lemma go_first_done c cs state target rs : target <= state ->
  go (c :: cs) state target rs = ([], Returned).
Proof. intros H. cbn [go]. destruct (Z.geb_spec state target); [reflexivity|lia]. Qed.

Lemma go8 target rs : is_target target ->
  GoSpec 8 target (fst (go [3] 8 target rs)) (snd (go [3] 8 target rs)).
Proof.
  intros Ht. rewrite go_first_done by (destruct Ht as [-> | [-> | ->]]; lia).
  apply spec_done; [right; right; right; reflexivity|exact Ht|destruct Ht as [-> | [-> | ->]]; lia].
Qed.

Lemma go4 target rs : is_target target ->
  GoSpec 4 target (fst (go [8; 3] 4 target rs)) (snd (go [8; 3] 4 target rs)).
Proof.
  intros Ht. destruct (Z.le_gt_cases target 4).
  - rewrite go_first_done by lia. apply spec_done; [right; right; left; reflexivity|exact Ht|lia].
  - assert (target = 8) by (destruct Ht as [-> | [-> | ->]]; lia). subst.
    apply spec_step; try lia; [reflexivity|]. intros rs'. apply go8. right; right; reflexivity.
Qed.

Lemma go2 target rs : is_target target ->
  GoSpec 2 target (fst (go [4; 8; 3] 2 target rs)) (snd (go [4; 8; 3] 2 target rs)).
Proof.
  intros Ht. destruct (Z.le_gt_cases target 2).
  - rewrite go_first_done by lia. apply spec_done; [right; left; reflexivity|exact Ht|lia].
  - apply spec_step; try lia.
    + destruct Ht as [-> | [-> | ->]]; lia.
    + destruct Ht as [-> | [-> | ->]]; try lia; reflexivity.
    + intros rs'. apply go4. exact Ht.
Qed.

Lemma go1 target rs : is_target target ->
  GoSpec 1 target (fst (go [2; 4; 8; 3] 1 target rs)) (snd (go [2; 4; 8; 3] 1 target rs)).
Proof.
  intros Ht. apply spec_step; try lia.
  - destruct Ht as [-> | [-> | ->]]; lia.
  - destruct Ht as [-> | [-> | ->]]; lia.
  - destruct Ht as [-> | [-> | ->]]; reflexivity.
  - intros rs'. apply go2. exact Ht.
Qed.

Lemma valid_start s : valid_state s = true -> s <> MachineState_BOOTSTRAP -> is_start s.
Proof.
  unfold valid_state, MachineState_order, is_start. cbn [existsb].
  unfold MachineState_INIT, MachineState_PRE_OPERATIONAL, MachineState_SAFE_OPERATIONAL,
    MachineState_OPERATIONAL, MachineState_BOOTSTRAP. intros H N.
  repeat (apply orb_prop in H; destruct H as [H|H]); try discriminate; lia.
Qed.

Theorem to_operational_spec target r0 rs :
  is_target target -> valid_state (Z.land r0 15) = true -> Z.land r0 15 <> MachineState_BOOTSTRAP ->
  let err := negb (Z.land r0 16 =? 0) in
  let st := if err then MachineState_INIT else Z.land r0 15 in
  exists t', fst (to_operational target (r0 :: rs)) = R r0 :: (if err then [W ack_word] else []) ++ t' /\
             GoSpec st target t' (snd (to_operational target (r0 :: rs))).
Proof.
  intros Ht Hv Hb err st. cbn [to_operational]. rewrite Hv. cbn [negb]. fold err. fold st.
  assert (Hs : is_start st).
  { subst st. destruct err; [left; reflexivity|]. apply valid_start; assumption. }
  assert (G : GoSpec st target (fst (go (tail_after st MachineState_order) st target rs))
                     (snd (go (tail_after st MachineState_order) st target rs))).
  { destruct Hs as [E|[E|[E|E]]]; rewrite E; [apply go1|apply go2|apply go4|apply go8]; exact Ht. }
  destruct (go (tail_after st MachineState_order) st target rs) as [t o]. cbn [fst snd] in *.
  exists t. split; [reflexivity|exact G].
Qed.
