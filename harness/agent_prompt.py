"""prints the prompt given to a mutation sub-agent for one property"""
import json, sys
pid = sys.argv[1]
for l in open('/verif/properties.jsonl'):
    d = json.loads(l)
    if d['id'] == pid:
        break
wt = f"/tmp/wt/{pid}"
print(f"""You are testing how robust a Python project's behaviour is. Work ONLY inside the git worktree {wt} (a scratch copy of the project tecki/ebpfcat, a pure-Python EtherCAT master that generates eBPF code). Never touch /repo or /verif, and do not read anything under /verif.

Property ({pid}): {d['title']}
Statement: {d['statement']}
Quantified over: {d['quantifier']['text']}
Relevant files: {', '.join(d['anchors']['files'])}

Task: make ONE small, realistic source change (the kind of bug a maintainer could plausibly introduce in a refactoring or 'optimisation') inside {wt}/ebpfcat/ (not in the *_test.py files) that BREAKS this property, while the project still imports and the existing test suite still gives exactly the same result as before (44 passed, 5 failed - the same 5 fail before and after; run it with:  cd {wt} && PYTHONPATH={wt} /venv/bin/python -m pytest -q -p no:cacheprovider --timeout=900 ).
The change must need something specific to manifest - a particular input value, a boundary size, a multi-step sequence of operations, a particular interleaving or fault, or two cooperating sites that each look fine alone - NOT something that any ordinary use would expose at once.

Deliverables, all written into {wt}/_seed/ :
 1. patch.diff  - output of `git -C {wt} diff -- ebpfcat` (only your source change; do not commit).
 2. demo.py     - a small stand-alone program run as `PYTHONPATH=<tree> /venv/bin/python demo.py` that exits 0 on the unmodified tree and exits non-zero (with a clear message) on the modified tree, demonstrating the property violation through the project's public behaviour (no network or hardware is available: fake the transport / bus / kernel as needed in the demo).
 3. meta.json   - {{"property": "{pid}", "summary": "...what was changed...", "needs": "...what specific input/sequence/interleaving is needed to manifest...", "ran": ["commands you ran and their results"]}}
Verify yourself: demo.py passes on the pristine tree (use `git -C {wt} stash` / `stash pop`, or compare against /repo by setting PYTHONPATH=/repo read-only) and fails with your change; the test suite result is unchanged. Use /venv/bin/python (3.12). Keep the final state of {wt} with your change applied. Report in your final message: the summary, what is needed to manifest, and the verification results. Be concise.""")
