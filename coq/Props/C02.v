From Verif Require Import Gen.Fixed Gen.Fixed_proofs.
