(* C10 User-space map calls never overrun Python buffers.
   Model (Sys/MapBuf.v): for every operation of the Python API the size of the
   key and value buffers the library passes (`key_buffer`, `value_buffer`), the
   map the library created for that object, and what the kernel accesses through
   the pointers (`key_needed`, `value_needed`: key_size, value_size, for per-CPU
   maps the value size rounded up to 8 times the number of possible CPUs).
   Validated on every run: the real API runs against a stand-in for bpf() that
   knows the length of every buffer whose address it receives. *)
From Verif Require Import Sys.MapBuf Sys.MapBuf_proofs.

(* for EVERY API operation, EVERY declared map (any structure sizes, any
   number and formats of per-CPU variables) and EVERY number of possible CPUs *)
Theorem C10_buffers_suffice : forall a ncpu, 0 <= ncpu ->
  (forall total n, a = PerCpuRead total n -> n = ncpu) ->
  key_needed a ncpu <= key_buffer a /\ value_needed a ncpu <= value_buffer a.
Proof. exact buffers_suffice. Qed.
Print Assumptions C10_buffers_suffice.

(* the hypothesis matters: with the number of online CPUs (the pinned tree) the
   buffer is too small when more CPUs are possible *)
Theorem C10_online_cpus_refuted :
  exists a ncpu, value_buffer a < value_needed a ncpu /\ a = PerCpuRead 12 4 /\ ncpu = 16.
Proof. exact online_cpus_refuted. Qed.

Example C10_nonvacuous :
  value_needed (PerCpuRead 12 16) 16 = 256 /\ value_buffer (PerCpuRead 12 16) = 256 /\
  value_needed HashVarGet 16 = 8 /\ value_buffer HashVarGet = 8.
Proof. vm_compute. auto. Qed.
