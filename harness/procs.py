"""Child processes that execute one command at a time under the parent's
control (used where the property is about several OS processes: C15, C23).

A child is forked from the harness, keeps a registry of named objects and an
asyncio loop of its own, and answers commands sent over a pipe.  Calls inside
the code under test can be *gated*: the child then reports ("gate", name) and
blocks until the parent says "go", which lets the parent interleave the
file-system steps of different processes deterministically."""
import asyncio
import multiprocessing as mp
import os
import signal
import sys
import traceback


class Gate:
    """installed in the child; .hit(name) blocks until released"""
    def __init__(self, conn):
        self.conn = conn
        self.enabled = set()

    def hit(self, name):
        if name in self.enabled:
            self.conn.send(("gate", name))
            msg = self.conn.recv()
            assert msg == ("go",), msg


class GatedModule:
    """proxy for a module (os, fcntl, ...) whose listed functions pass a gate first"""
    def __init__(self, real, gate, names, prefix=""):
        self._real, self._gate, self._names, self._prefix = real, gate, set(names), prefix

    def __getattr__(self, name):
        val = getattr(self._real, name)
        if name in self._names:
            def wrapped(*a, **kw):
                self._gate.hit(self._prefix + name)
                return val(*a, **kw)
            return wrapped
        return val


def _serve(conn, setup):
    signal.signal(signal.SIGINT, signal.SIG_IGN)
    gate = Gate(conn)
    loop = asyncio.new_event_loop()
    asyncio.set_event_loop(loop)
    env = {"gate": gate, "loop": loop, "objs": {}}
    funcs = setup(env)

    def pump(n=6):
        for _ in range(n):
            loop.run_until_complete(asyncio.sleep(0))
    env["pump"] = pump
    while True:
        try:
            msg = conn.recv()
        except EOFError:
            break
        if msg[0] == "quit":
            break
        if msg[0] == "gates":
            gate.enabled = set(msg[1])
            conn.send(("ok", None))
            continue
        _, name, args = msg
        try:
            val = funcs[name](*args)
            conn.send(("ok", val))
        except BaseException as e:          # report, never die
            conn.send(("exc", type(e).__name__, str(e)[:300], traceback.format_exc()[-600:]))
    os._exit(0)


class Child:
    def __init__(self, setup):
        self.conn, child_conn = mp.Pipe()
        self.pid = os.fork()
        if self.pid == 0:
            try:
                self.conn.close()
                _serve(child_conn, setup)
            finally:
                os._exit(0)
        child_conn.close()
        self.at_gate = None

    def _reply(self, timeout):
        if not self.conn.poll(timeout):
            return ("timeout",)
        r = self.conn.recv()
        self.at_gate = r[1] if r[0] == "gate" else None
        return r

    def gates(self, names):
        self.conn.send(("gates", list(names)))
        return self._reply(300)

    def call(self, name, *args, timeout=300):
        assert self.at_gate is None, "child is blocked at a gate"
        self.conn.send(("call", name, args))
        return self._reply(timeout)

    def release(self, timeout=300):
        assert self.at_gate is not None
        self.conn.send(("go",))
        return self._reply(timeout)

    def close(self):
        try:
            if self.at_gate is not None:
                self.conn.send(("go",))
            self.conn.send(("quit",))
        except (OSError, BrokenPipeError):
            pass
        try:
            os.kill(self.pid, signal.SIGKILL)
        except ProcessLookupError:
            pass
        try:
            os.waitpid(self.pid, 0)
        except ChildProcessError:
            pass
        self.conn.close()
