From Verif Require Import Lib.Base Ebpf.Isa.

Definition v_status (st : status) : V :=
  match st with
  | Running => VL [VZ 0] | Exited => VL [VZ 1] | TailCalled k => VL [VZ 2; VZ k] | Fault w => VL [VZ 3; VZ w]
  end.

Definition mk (op : Z) (d s : nat) (off imm : Z) : instr :=
  {| i_op := op; i_dst := d; i_src := s; i_off := off; i_imm := imm |}.

(* run a program on a packet; result: status, r0, packet, map values, stack, registers r6..r9 *)
Definition exec_full (prog : list instr) (pk : list Z) (ms : list (list Z)) (orc : list Z) : mstate * status :=
  run (4 * length prog + 64) prog 0 (init_state pk ms orc).

Definition exec (prog : list instr) (pk : list Z) (ms : list (list Z)) (orc : list Z) : V :=
  let '(s, st) := exec_full prog pk ms orc in
  VL [v_status st; VZ (reg s 0 mod W32); VR (pkt s); VL (map VR (maps s))].

(* with preset stack contents (the last bytes of the stack: local variables) *)
Definition with_stack (s : mstate) (bytes : list Z) : mstate :=
  {| regs := regs s; stack := firstn (512 - length bytes) (stack s) ++ bytes; pkt := pkt s; maps := maps s;
     oracle := oracle s; trace := trace s |}.

Definition exec_vars (prog : list instr) (pk : list Z) (ms : list (list Z)) (orc : list Z) (stk : list Z) : V :=
  let '(s, st) := run (4 * length prog + 64) prog 0 (with_stack (init_state pk ms orc) stk) in
  VL [v_status st; VR (pkt s); VL (map VB (maps s)); VB (skipn (512 - length stk) (stack s));
      VL (map VZ (firstn 10 (regs s)))].

(* with the low stack bytes (for local variables) *)
Definition exec_stack (prog : list instr) (pk : list Z) (ms : list (list Z)) (orc : list Z) (n : nat) : V :=
  let '(s, st) := exec_full prog pk ms orc in
  VL [v_status st; VZ (reg s 0 mod W32); VR (pkt s); VL (map VR (maps s)); VB (skipn (512 - n) (stack s))].
