"""C15: mailbox serialisation and the mailbox counter.
 A) lock.MailboxLock / ParallelMailboxLock used by tasks of one process,
 B) lock.LockFile + ParallelMailboxLock used by several real processes whose
    steps are interleaved by the harness (incl. the file-creation window),
against Sys/MbxLock.v"""
import asyncio
import os
import shutil
import tempfile

from .common import Check, Err, clist, cnat
from .procs import Child, GatedModule


def child_setup(env):
    """runs inside a forked child: commands on the real lock objects"""
    import ebpfcat.lock as lock
    gate, loop, objs = env["gate"], env["loop"], env["objs"]
    lock.os = GatedModule(os, gate, ["write", "ftruncate"], prefix="os.")
    state = {}

    def do_open(path, lo, hi):
        objs["lf"] = lock.LockFile(path, lo, hi)
        return True

    def do_newlock(no):
        objs["lk"] = lock.ParallelMailboxLock(objs["lf"], no)
        return True

    # several terminals used by one process (kind C): one lock object per terminal, all on the shared lock file
    def t_newlock(no):
        objs["lk", no] = lock.ParallelMailboxLock(objs["lf"], no)
        return True

    def loop_newlock(key, path, no):
        """a master object of its own for another EtherCAT loop (its own lock file); the lock comes from the master's get_mbx_lock"""
        from ebpfcat.ebpfcat import ParallelEtherCat
        ec = ParallelEtherCat(f"verif{key}")
        ec.mbx_lock_file = lock.LockFile(path, 1000, 1010)
        objs["ec", key] = ec
        objs["lf", key] = ec.mbx_lock_file
        objs["lk", key] = ec.get_mbx_lock(no)
        return True

    def loop_peek(key, off):
        return list(os.pread(objs["lf", key].fd, 1, off))

    def t_enter(no):
        state["t", no] = loop.create_task(objs["lk", no].__aenter__())
        return t_poll(no)

    def t_poll(no):
        env["pump"](6)
        t = state["t", no]
        if not t.done():
            return "blocked"
        t.result()
        return "entered"

    def t_send(no):
        return objs["lk", no].next_counter()

    def t_exit(no):
        loop.run_until_complete(objs["lk", no].__aexit__(None, None, None))
        return True

    def do_enter(slot=0):
        state[slot] = loop.create_task(objs["lk"].__aenter__())
        return do_poll(slot)

    def do_poll(slot=0):
        env["pump"](6)
        t = state[slot]
        if not t.done():
            return "blocked"
        t.result()
        return "entered"

    def do_send():
        return objs["lk"].next_counter()

    def do_exit():
        loop.run_until_complete(objs["lk"].__aexit__(None, None, None))
        return True

    def do_peek(no_off):
        return list(os.pread(objs["lf"].fd, 1, no_off))

    def do_copydrop():
        """the lock file object is pickled (as when it is sent to a worker) and the unpickled copy is dropped again"""
        import gc
        import pickle
        c = pickle.loads(pickle.dumps(objs["lf"]))
        del c
        gc.collect()
        return True

    return {"open": do_open, "newlock": do_newlock, "enter": do_enter, "poll": do_poll,
            "send": do_send, "exit": do_exit, "peek": do_peek, "copydrop": do_copydrop,
            "t_newlock": t_newlock, "loop_newlock": loop_newlock, "loop_peek": loop_peek, "t_enter": t_enter, "t_poll": t_poll, "t_send": t_send, "t_exit": t_exit}


class C15(Check):
    pid = "C15"
    props_file = "Props/C15.v"
    corr_imports = ["Sys.MbxLock", "Corr.C15"]
    technique = "Coq invariant proofs over all interleavings (asyncio lock with FIFO hand-over; byte-range lock + counter byte across processes) + trace-replay correspondence with the real locks (tasks in one loop; real child processes stepped by the harness)"
    trusted = ["POSIX: fcntl byte-range locks exclude other processes; pread/pwrite/ftruncate are atomic steps",
               "asyncio.Lock hands the lock to the first waiter (modelled in Sys/MbxLock.v astep)"]
    assumptions = ["crashes of a lock holder are not modelled"]

    # case A: {"kind": "A", "impl": "MailboxLock"|"Parallel", "users": [sends per exchange ...], "yields": seed}
    # case B: {"kind": "B", "n": procs, "script": [(proc, cmd)], "window": bool}
    def corpus(self):
        return [
            {"kind": "A", "impl": "MailboxLock", "users": [[1], [2], [1, 1]], "seed": 1},
            {"kind": "A", "impl": "Parallel", "users": [[1], [1]], "seed": 2},
            {"kind": "A", "impl": "Parallel", "users": [[2, 1], [1], [3]], "seed": 3},
            {"kind": "A", "impl": "Parallel", "users": [[-1, 1], [-2], [1]], "seed": 4},
            {"kind": "A", "impl": "MailboxLock", "users": [[-1, 1], [-2], [1]], "seed": 5},
            {"kind": "B", "n": 2, "window": True, "script": [(1, "enter"), (1, "send"), (1, "exit"), (0, "init"), (0, "enter"), (0, "send"), (0, "exit")]},
            {"kind": "B", "n": 2, "window": True, "script": [(1, "enter"), (1, "send"), (1, "send"), (1, "exit"), (0, "init"), (1, "enter"), (1, "send"), (1, "exit")]},
            {"kind": "B", "n": 2, "window": False, "script": [(0, "enter"), (1, "enter"), (0, "send"), (0, "exit"), (1, "poll"), (1, "send"), (1, "exit")]},
            # P is inside an exchange with terminal 0, finishes one with terminal 1; Q then wants terminal 0
            {"kind": "C", "n": 2, "script": [(0, "enter", 0), (0, "send", 0), (0, "copydrop", 0), (1, "enter", 0), (1, "send", 0), (0, "send", 0), (0, "exit", 0),
                                            (1, "poll", 0), (1, "send", 0), (1, "exit", 0)]},
            {"kind": "C", "n": 2, "script": [(0, "enter", 0), (0, "send", 0), (0, "enter", 1), (0, "send", 1), (0, "exit", 1), (1, "enter", 0), (1, "send", 0),
                                            (0, "send", 0), (0, "exit", 0), (1, "poll", 0), (1, "send", 0), (1, "exit", 0)]},
            {"kind": "B", "n": 2, "slots": 2, "window": False,
             "script": [(0, "enter", 0), (0, "enter", 1), (1, "enter", 0), (0, "send", 0), (0, "exit", 0), (0, "poll", 1), (1, "poll", 0),
                        (0, "send", 1), (1, "send", 0), (0, "exit", 1), (1, "exit", 0)]},
        ]

    def gen_cases(self):
        rng = self.rng
        out = []
        for _ in range(60 if self.tier == "quick" else 600):
            # a negative entry -k: the exchange sends k messages and then fails (the body raises, e.g. an SDO abort)
            users = [[rng.randint(1, 3) * (-1 if rng.random() < 0.25 else 1) for _ in range(rng.randint(1, 3))] for _ in range(rng.randint(2, 4))]
            out.append({"kind": "A", "impl": rng.choice(["MailboxLock", "Parallel"]), "users": users, "seed": rng.randrange(1 << 30)})
        for _ in range(25 if self.tier == "quick" else 250):
            n = rng.randint(2, 3)
            window = rng.random() < 0.5
            script, st = [], ["idle"] * n          # idle / want / in
            inited = not window
            for _ in range(rng.randint(6, 22)):
                p = rng.randrange(n)
                if window and not inited and rng.random() < 0.15:
                    script.append((0, "init"))
                    inited = True
                    continue
                if st[p] == "idle":
                    if p == 0 and window and not inited:
                        continue            # the creator is still inside LockFile.__init__
                    script.append((p, "enter"))
                    st[p] = "want"
                elif st[p] == "want":
                    script.append((p, "poll"))
                else:
                    script.append((p, rng.choice(["send", "send", "exit"])))
                # the harness resolves want->in when the real call reports "entered"
                st[p] = {"want": "want?", "idle": "idle"}.get(st[p], st[p])
            out.append({"kind": "B", "n": n, "window": window, "script": script, "dynamic": True})
        # mixed: several tasks per process AND several processes on one terminal
        for _ in range(25 if self.tier == "quick" else 250):
            n, slots = 2, 2
            script = []
            for _ in range(rng.randint(10, 30)):
                p, sl = rng.randrange(n), rng.randrange(slots)
                script.append((p, rng.choice(["enter", "poll", "poll", "send", "send", "exit"]), sl))
            out.append({"kind": "B", "n": n, "slots": slots, "window": False, "script": script})
        # two processes, each using TWO terminals that share the lock file: an exchange with one terminal must not disturb the other
        for _ in range(25 if self.tier == "quick" else 250):
            script = []
            for _ in range(rng.randint(10, 30)):
                script.append((rng.randrange(2), rng.choice(["enter", "poll", "send", "send", "exit", "copydrop"]), rng.randrange(2)))
            out.append({"kind": "C", "n": 2, "script": script, "loops": rng.random() < 0.4})
        import random
        rng = random.Random(self.seed + 15)      # its own stream: the cases above stay what they were
        for _ in range(6 if self.tier == "quick" else 60):
            # participants of one loop (the REAL ParallelEtherCat.run() in forked processes) come and go while others keep running;
            # everybody exchanges mailbox messages with the same terminal.  At least one participant is running at any time.
            n = 3
            running, script, started = [0], [["start", 0]], {0}
            for _ in range(rng.randint(6, 14)):
                r = rng.random()
                idle = [p for p in range(n) if p not in running and p not in started]
                if r < 0.2 and idle:
                    p = rng.choice(idle)
                    running.append(p)
                    started.add(p)
                    script.append(["start", p])
                elif r < 0.4 and len(running) > 1:
                    script.append(["stop", running.pop(rng.randrange(len(running)))])
                else:
                    script.append(["mbx", rng.choice(running)])
            out.append({"kind": "L", "n": n, "script": script})
        return out

    # ------------------------------------------------------------------ A
    def run_A(self, case):
        import random
        import ebpfcat.lock as lock
        rng = random.Random(case["seed"])
        evs, log = [], []

        async def go():
            if case["impl"] == "MailboxLock":
                lk = lock.MailboxLock()
                tmp = None
            else:
                tmp = tempfile.mkdtemp(prefix="verif_c15_")
                lf = lock.LockFile(tmp + "/run/mbx", 1000, 1010)
                lk = lock.ParallelMailboxLock(lf, 1003)

            async def user(u, exchanges):
                for sends in exchanges:
                    for _ in range(rng.randint(0, 2)):
                        await asyncio.sleep(0)
                    evs.append(("acquire", u))
                    try:
                        async with lk:
                            log.append([0, u])
                            for _ in range(abs(sends)):
                                for _ in range(rng.randint(0, 2)):
                                    await asyncio.sleep(0)
                                c = lk.next_counter()
                                evs.append(("send", u))
                                log.append([1, u, c])
                            for _ in range(rng.randint(0, 2)):
                                await asyncio.sleep(0)
                            evs.append(("release", u))
                            log.append([2, u])
                            if sends < 0:
                                raise RuntimeError("the exchange failed after its messages were sent")
                    except RuntimeError:
                        pass
            try:
                await asyncio.wait_for(asyncio.gather(*[user(u, ex) for u, ex in enumerate(case["users"])]), 120)
            finally:
                if tmp:
                    shutil.rmtree(tmp, ignore_errors=True)
            return lk
        lk = asyncio.run(go())
        counter = getattr(lk, "counter", None)
        return {"evs": evs, "log": log, "counter": counter}

    # ------------------------------------------------------------------ B
    def run_B(self, case):
        tmp = tempfile.mkdtemp(prefix="verif_c15_")
        path = tmp + "/run/mbx"
        n = case["n"]
        kids = [Child(child_setup) for _ in range(n)]
        evs, trace, notes = [], [], []
        st = ["idle"] * n
        try:
            if case["window"]:
                kids[0].gates(["os.write", "os.ftruncate"])
                r = kids[0].call("open", path, 1000, 1010)
                if r[0] != "gate":
                    return Err(7, f"creator did not stop at the initialising call: {r}")
            else:
                r = kids[0].call("open", path, 1000, 1010)
                if r[0] != "ok":
                    return Err(7, f"open failed: {r}")
                evs.append("init")
            inited = not case["window"]
            for k in range(1, n):
                r = kids[k].call("open", path, 1000, 1010)
                if r[0] != "ok":
                    return Err(7, f"open failed in participant {k}: {r}")
            opened = [False] * n
            slots = case.get("slots", 1)
            sst = {}                     # (p, slot) -> idle / want / in
            def refresh(p, skip=None):
                """any waiting task of process p may have got in while the child ran its loop"""
                for (q, sl), v in list(sst.items()):
                    if q == p and v == "want" and sl != skip:
                        r2 = kids[p].call("poll", sl)
                        if r2[0] == "ok" and r2[1] == "entered":
                            evs.extend([("lock", p), ("read", p)])
                            sst[(p, sl)] = "in"
                        elif r2[0] != "ok":
                            return Err(5, f"participant {p} failed to take the mailbox lock: {r2[1]}: {r2[2]}")
                return None

            for entry in case["script"]:
                p, cmd = entry[0], entry[1]
                slot = entry[2] if len(entry) > 2 else 0
                st[p] = sst.get((p, slot), "idle")
                if cmd == "init":
                    if inited:
                        continue
                    r = kids[0].release()
                    if r[0] != "ok":
                        return Err(7, f"initialisation failed: {r}")
                    inited = True
                    evs.append("init")
                    continue
                if p == 0 and not inited:
                    continue
                if not opened[p]:
                    kids[p].call("newlock", 1003)
                    opened[p] = True
                if st[p] == "idle" and cmd in ("enter", "poll"):
                    r = kids[p].call("enter", slot)
                elif st[p] == "want" and cmd in ("enter", "poll"):
                    r = kids[p].call("poll", slot)
                elif st[p] == "in" and cmd == "send":
                    r = kids[p].call("send")
                    if r[0] == "ok":
                        evs.append(("send", p))
                        trace.append([p, r[1]])
                    else:
                        return Err(5, f"next_counter failed in participant {p}: {r[1]} {r[2]}")
                    continue
                elif st[p] == "in" and cmd == "exit":
                    r = kids[p].call("exit")
                    if r[0] != "ok":
                        return Err(5, f"release failed in participant {p}: {r[1]} {r[2]}")
                    evs += [("write", p), ("unlock", p)]
                    sst[(p, slot)] = "idle"
                    err = refresh(p)
                    if err is not None:
                        return err
                    continue
                else:
                    continue
                if r[0] == "exc":
                    return Err(5, f"participant {p} failed to take the mailbox lock: {r[1]}: {r[2]}")
                if r[0] != "ok":
                    return Err(7, f"unexpected reply {r}")
                if r[1] == "entered":
                    evs += [("lock", p), ("read", p)]
                    sst[(p, slot)] = "in"
                else:
                    sst[(p, slot)] = "want"
                    n_before = len(evs)
                    err = refresh(p, skip=slot)
                    if err is not None:
                        return err
                    if len(evs) == n_before and not any(v == "in" for (q, _), v in sst.items() if q == p):
                        evs.append(("lockfail", p))
            if not inited:
                r = kids[0].release()
                evs.append("init")
            byte = kids[1].call("peek", 3)
            st = ["in" if any(v == "in" for (q, _), v in sst.items() if q == p) else "idle" for p in range(n)]
            return {"evs": evs, "trace": trace, "st": st, "byte": byte[1] if byte[0] == "ok" else None}
        finally:
            for k in kids:
                k.close()
            shutil.rmtree(tmp, ignore_errors=True)

    TERMS = [1003, 1005]

    def run_C(self, case):
        tmp = tempfile.mkdtemp(prefix="verif_c15_")
        path = tmp + "/run/mbx"
        kids = [Child(child_setup) for _ in range(2)]
        evs, trace, viol = {0: ["init"], 1: ["init"]}, {0: [], 1: []}, []
        sst = {}
        try:
            two_loops = case.get("loops", False)
            for k in kids:
                r = k.call("open", path, 1000, 1010)
                if r[0] != "ok":
                    return Err(7, f"open failed: {r}")
                if two_loops:
                    # the two "terminals" have the SAME station address 1003 on two different loops (two masters, two lock files)
                    for key, pth in ((self.TERMS[0], path), (self.TERMS[1], path + "_b")):
                        r = k.call("loop_newlock", key, pth, 1003)
                        if r[0] != "ok":
                            return Err(7, f"creating the master / lock of a loop failed: {r}")
                else:
                    for no in self.TERMS:
                        k.call("t_newlock", no)
            def entered(p, t):
                other = [q for q in range(2) if q != p and sst.get((q, t)) == "in"]
                if other:
                    viol.append(f"process {p} entered an exchange with terminal {t} while process {other[0]} was inside its own")
                evs[t] += [("lock", p), ("read", p)]
                sst[(p, t)] = "in"

            def refresh(p, skip=None):
                """a waiting task of process p may have got its lock while the child ran its event loop"""
                for (q, t2), v in list(sst.items()):
                    if q == p and v == "want" and t2 != skip:
                        r2 = kids[p].call("t_poll", self.TERMS[t2])
                        if r2[0] == "ok" and r2[1] == "entered":
                            entered(p, t2)

            for p, cmd, t in case["script"]:
                no = self.TERMS[t]
                st = sst.get((p, t), "idle")
                if cmd in ("enter", "poll") and st in ("idle", "want"):
                    r = kids[p].call("t_enter" if st == "idle" else "t_poll", no)
                    if r[0] != "ok":
                        return Err(5, f"participant {p} failed to take the mailbox lock of terminal {t}: {r[1:3]}")
                    if r[1] == "entered":
                        entered(p, t)
                    else:
                        if st == "idle":
                            evs[t].append(("lockfail", p))
                        sst[(p, t)] = "want"
                    refresh(p, skip=t)
                elif cmd == "copydrop":
                    # a second LockFile object of this process comes and goes: the locks held through the first one must stay
                    kids[p].call("copydrop")
                    refresh(p)
                elif cmd == "send" and st == "in":
                    r = kids[p].call("t_send", no)
                    if r[0] != "ok":
                        return Err(5, f"next_counter failed in participant {p}: {r[1:3]}")
                    evs[t].append(("send", p))
                    trace[t].append([p, r[1]])
                    refresh(p)
                elif cmd == "exit" and st == "in":
                    r = kids[p].call("t_exit", no)
                    if r[0] != "ok":
                        return Err(5, f"release failed in participant {p}: {r[1:3]}")
                    evs[t] += [("write", p), ("unlock", p)]
                    sst[(p, t)] = "idle"
                    refresh(p)
            bytes_ = [kids[1].call("loop_peek", no, 3) for no in self.TERMS] if two_loops else [kids[1].call("peek", no - 1000) for no in self.TERMS]
            return {"evs": evs, "trace": trace, "viol": viol, "byte": [b[1] if b[0] == "ok" else None for b in bytes_],
                    "st": {t: ["in" if sst.get((p, t)) == "in" else "idle" for p in range(2)] for t in (0, 1)}}
        finally:
            for k in kids:
                k.close()
            shutil.rmtree(tmp, ignore_errors=True)

    def run_L(self, case):
        from .c23 import child_setup_factory
        root = tempfile.mkdtemp(prefix="verif_c15_")
        for d in ("/run/lock", "/sys/fs/bpf", "/run/ebpf"):
            os.makedirs(root + d)
        kids = [Child(child_setup_factory(root, i)) for i in range(case["n"])]
        trace = []
        try:
            for op, p in case["script"]:
                if op == "start":
                    r = kids[p].call("start", [1 + p % 3, 1 + (p + 1) % 3, 1 + (p + 2) % 3], [10 + p])
                elif op == "stop":
                    r = kids[p].call("stop")
                else:
                    r = kids[p].call("mbx", 1003)
                    if r[0] == "ok":
                        trace.append([p, r[1]])
                if r[0] != "ok":
                    return Err(5, f"{op} of participant {p} failed: {r}")
            try:
                with open(root + "/run/ebpf/verif0", "rb") as f:
                    byte = f.read()[3:4]
            except OSError:
                byte = b""
            return {"trace": trace, "byte": list(byte)}
        finally:
            for k in kids:
                k.close()
            shutil.rmtree(root, ignore_errors=True)

    def run_impl(self, case):
        if case["kind"] == "L":
            try:
                o = self.run_L(case)
            except Exception as e:      # noqa
                o = Err(5, f"{type(e).__name__}: {e}")
            case["_o"] = o
            return o
        try:
            o = self.run_C(case) if case["kind"] == "C" else self.run_A(case) if case["kind"] == "A" else self.run_B(case)
        except asyncio.TimeoutError:
            o = Err(8, "tasks did not finish")
        except Exception as e:
            o = Err(5, f"a mailbox user failed with {type(e).__name__}: {e}")
        case["_o"] = o
        return o

    # ------------------------------------------------------------------ model
    def model_term(self, case):
        o = case["_o"]
        if isinstance(o, Err):
            return "(VZ 0)"
        if case["kind"] == "L":
            evs = ["BInit"]
            for op, p in case["script"]:
                if op == "mbx":
                    evs += [f"BLock {cnat(p)}", f"BRead {cnat(p)}", f"BSend {cnat(p)}", f"BWrite {cnat(p)}", f"BUnlock {cnat(p)}"]
            return f"(runB {cnat(case['n'])} {clist(evs)})"
        if case["kind"] == "A":
            names = {"acquire": "Acquire", "send": "Send", "release": "Release"}
            return "(runA " + clist([f"{names[k]} {cnat(u)}" for k, u in o["evs"]]) + ")"
        if case["kind"] == "C":
            def conv(l):
                out = []
                for e in l:
                    if e == "init":
                        out.append("BInit")
                    elif e[0] == "lockfail":
                        out.append(f"BLock {cnat(e[1])}")
                    else:
                        out.append({"lock": "BLock", "read": "BRead", "send": "BSend", "write": "BWrite", "unlock": "BUnlock"}[e[0]] + f" {cnat(e[1])}")
                return clist(out)
            return f"(VL [runB 2 {conv(o['evs'][0])}; runB 2 {conv(o['evs'][1])}])"
        evs = []
        for e in o["evs"]:
            if e == "init":
                evs.append("BInit")
            elif e[0] == "lockfail":
                evs.append(f"BLock {cnat(e[1])}")        # must be a no-op in the model too
            else:
                evs.append({"lock": "BLock", "read": "BRead", "send": "BSend", "write": "BWrite", "unlock": "BUnlock"}[e[0]] + f" {cnat(e[1])}")
        return f"(runB {cnat(case['n'])} {clist(evs)})"

    def model_value(self, case, o):
        if isinstance(o, Err):
            return 0
        if case["kind"] == "L":
            return [o["trace"], (o["byte"][0] if o["byte"] else None), None, [0] * case["n"]]
        if case["kind"] == "A":
            return [o["log"], o["counter"] if o["counter"] is not None else self._next(o["log"])]
        if case["kind"] == "C":
            vals = []
            for t in (0, 1):
                tr = o["trace"][t]
                holder = [p for p, s_ in enumerate(o["st"][t]) if s_ == "in"]
                procs = [[2, (tr[-1][1] % 7 + 1 if tr else 0)] if s_ == "in" else 0 for s_ in o["st"][t]]
                byte = o["byte"][t]
                vals.append([tr, (byte[0] if byte else None), holder[0] if holder else None, procs])
            return vals
        holder = [p for p, s in enumerate(o["st"]) if s == "in"]
        procs = []
        for p, s in enumerate(o["st"]):
            if s == "in":
                procs.append([2, self._next_b(o["trace"], o, p)])
            else:
                procs.append(0)
        byte = o["byte"]
        return [o["trace"], (byte[0] if byte else None), holder[0] if holder else None, procs]

    @staticmethod
    def _next(log):
        sent = [e[2] for e in log if e[0] == 1]
        return sent[-1] % 7 + 1 if sent else 0

    @staticmethod
    def _next_b(trace, o, p):
        return trace[-1][1] % 7 + 1 if trace else 0

    # ------------------------------------------------------------------ property
    def holds(self, case, o):
        if isinstance(o, Err):
            return o.what
        if case["kind"] == "L":
            prev = None
            for k, (p, c) in enumerate(o["trace"]):
                if (prev is None and c != 0) or (prev is not None and c != prev % 7 + 1):
                    return (f"message {k} (participant {p}) carries counter {c} after {prev}: the counters seen by the terminal are {[x[1] for x in o['trace']]} "
                            f"while participants come and go ({case['script']})")
                prev = c
            return True
        if case["kind"] == "A":
            cur = None
            for e in o["log"]:
                if e[0] == 0:
                    if cur is not None:
                        return f"user {e[1]} entered the mailbox exchange while user {cur} was inside"
                    cur = e[1]
                elif e[0] == 1:
                    if cur != e[1]:
                        return f"user {e[1]} sent a mailbox message while the exchange belonged to {cur}"
                else:
                    if cur != e[1]:
                        return f"user {e[1]} released an exchange owned by {cur}"
                    cur = None
            sent = [e[2] for e in o["log"] if e[0] == 1]
        elif case["kind"] == "C":
            if o["viol"]:
                return o["viol"][0] + f"; script {case['script']}"
            for t in (0, 1):
                prev = None
                for _, c in o["trace"][t]:
                    want = 0 if prev is None else prev % 7 + 1
                    if c != want:
                        return f"terminal {t}: mailbox counters {[x for _, x in o['trace'][t]]}: {c} follows {prev}, expected {want}; script {case['script']}"
                    prev = c
            return True
        else:
            sent = [c for _, c in o["trace"]]
        prev = None
        for c in sent:
            want = 0 if prev is None else prev % 7 + 1
            if c != want:
                return f"mailbox counters {sent}: {c} follows {prev}, expected {want}"
            prev = c
        return True

    def extra_checks(self):
        """tie to ethercat.py: every mailbox send/receive of Terminal happens lexically inside
        `async with self.mbx_lock` (the users of the model follow acquire; messages; release)"""
        import ast
        from .common import REPO
        src = open(os.path.join(REPO, "ebpfcat/ethercat.py")).read()
        tree = ast.parse(src)
        bad, seen = [], 0
        term = [n for n in ast.walk(tree) if isinstance(n, ast.ClassDef) and n.name == "Terminal"][0]

        def visit(node, locked, fname):
            nonlocal seen
            if isinstance(node, ast.AsyncWith):
                ctx = [ast.unparse(i.context_expr) for i in node.items]
                inner = locked or "self.mbx_lock" in ctx
                for ch in node.body:
                    visit(ch, inner, fname)
                return
            if isinstance(node, ast.Call) and isinstance(node.func, ast.Attribute) and node.func.attr in ("mbx_send", "mbx_recv") \
                    and ast.unparse(node.func.value) == "self":
                seen += 1
                if not locked:
                    bad.append(f"{fname}: line {node.lineno}")
            for ch in ast.iter_child_nodes(node):
                visit(ch, locked, fname)
        for fn in term.body:
            if isinstance(fn, ast.AsyncFunctionDef) and fn.name not in ("mbx_send", "mbx_recv"):
                visit(fn, False, fn.name)
        ok = not bad and seen >= 6
        return [("mailbox-calls-inside-lock", ok, f"{seen} mailbox calls found; outside `async with self.mbx_lock`: {bad}"),
                self.lock_follows_address()]

    def lock_follows_address(self):
        """the lock a Terminal object uses is the one of the station address it talks to - after every initialize() / gentle_initialize(),
        also when the object had another address (and lock) before: the users of one terminal exclude each other only if they all
        lock its address"""
        import random
        from ebpfcat.ethercat import Terminal, ECCmd
        rng = random.Random(self.seed + 115)
        bad, calls = [], 0

        class Lock:
            def __init__(self, no):
                self.no = no

        async def run(script):
            nonlocal calls
            bus = {"station": script[0][2], "state": 1, "next": 1100}

            class Ec:
                def get_mbx_lock(self, no):
                    return Lock(no)

                async def find_free_address(self):
                    bus["next"] += 1
                    return bus["next"]

                async def roundtrip(self, cmd, pos, offset, *args, data=None, idx=0):
                    if cmd is ECCmd.APRD and offset == 0x10:
                        return (bus["station"],)
                    if cmd is ECCmd.APWR and offset == 0x10:
                        bus["station"] = args[1]
                        return ()
                    if cmd is ECCmd.FPRD and offset == 0x130:
                        return (bus["state"], 0)
                    if cmd is ECCmd.FPWR and offset == 0x120:
                        bus["state"] = args[1] & 15
                        return ()
                    if cmd is ECCmd.FPRD and offset == 4:
                        return (3,)
                    if cmd is ECCmd.FPRD and data is not None:
                        return bytes(data) if isinstance(data, int) else data
                    return ()
            t = Terminal(Ec())

            async def nothing(*a, **kw):
                return None
            t.apply_eeprom = t.read_eeprom = nothing
            t.parse_sync_managers = lambda sm: None
            for how, kw, stale, state in script:
                bus["state"] = state
                if "relative" in kw:
                    bus["station"] = stale
                calls += 1
                await getattr(t, how)(**kw)
                if getattr(t.mbx_lock, "no", None) != t.position:
                    bad.append(f"after {[(h, k) for h, k, _, _ in script[:script.index((how, kw, stale, state)) + 1]]} the terminal talks to station {t.position} "
                               f"and locks the mailbox of station {getattr(t.mbx_lock, 'no', None)}")
                    return
        for _ in range(60 if self.tier == "quick" else 600):
            script = []
            for _ in range(rng.randint(1, 3)):
                how = rng.choice(["initialize", "gentle_initialize"])
                kw = rng.choice([{"relative": -rng.randint(0, 5)}, {"absolute": rng.choice([1003, 1007, 1050])}] +
                                ([{"relative": -1, "absolute": rng.choice([1003, 1009])}] if how == "initialize" else []))
                script.append((how, kw, rng.choice([0, 0, 1200, 1201]), rng.choice([1, 1, 2, 8])))
            try:
                asyncio.run(run(script))
            except Exception as e:      # noqa
                bad.append(f"{script}: {type(e).__name__}: {e}")
        return ("lock-follows-address", not bad, f"{calls} initialize / gentle_initialize calls on re-used Terminal objects; {bad[:1]}")

    def nontrivial(self, case, o):
        if isinstance(o, Err):
            return False
        if case["kind"] == "C":
            return len(o["trace"][0]) + len(o["trace"][1]) >= 4
        return (len(o["log"]) if case["kind"] == "A" else len(o["trace"])) >= 4

    def search_cases(self):
        out = []
        for s in range(30):
            out.append({"kind": "A", "impl": "Parallel", "users": [[1, 2], [2], [1]], "seed": s})
            out.append({"kind": "A", "impl": "MailboxLock", "users": [[1, 2], [2], [1]], "seed": s})
        return out

    def rule(self):
        return ("A: 2-4 tasks in one event loop doing 1-3 exchanges of 1-3 messages each on one MailboxLock or one ParallelMailboxLock, random yields; "
                "B: 2-3 real processes sharing one lock file, commands (enter/poll/send/exit, creator's late initialisation) interleaved by the harness, half of "
                "the cases start inside the creation window; C: two processes each using TWO terminals on the shared lock file (an exchange with one terminal running "
                "while exchanges with the other begin and end, and pickled copies of the lock file object come and go; 40%: the two terminals have the same station address on two different loops - two master objects and lock files per process, locks from get_mbx_lock); plus scripts in which 3-4 participants of one loop (the real ParallelEtherCat.run() in forked processes, shared objects in a scratch root) start, exchange mailbox messages with one terminal and stop while at least one other keeps running; non-trivial = at least 4 log entries / messages")

    def distribution(self, cases, observed):
        d = {"A": 0, "B": 0, "C": 0, "L": 0, "B_window": 0, "messages": 0, "blocked_enters": 0}
        for c, o in zip(cases, observed):
            d[c["kind"]] += 1
            d["B_window"] += c.get("window", False)
            if isinstance(o, Err):
                continue
            if c["kind"] == "A":
                d["messages"] += sum(1 for e in o["log"] if e[0] == 1)
            elif c["kind"] == "C":
                d["messages"] += len(o["trace"][0]) + len(o["trace"][1])
                d["blocked_enters"] += sum(1 for t in (0, 1) for e in o["evs"][t] if e != "init" and e[0] == "lockfail")
            elif c["kind"] == "L":
                d["messages"] += len(o["trace"])
            else:
                d["messages"] += len(o["trace"])
                d["blocked_enters"] += sum(1 for e in o["evs"] if e != "init" and e[0] == "lockfail")
        return d

    def describe(self, case):
        return {k: v for k, v in case.items() if not k.startswith("_")}

    def case_from_json(self, w):
        if w["kind"] in ("B", "C"):
            w["script"] = [tuple(x) for x in w["script"]]
        return w


CHECK = C15
