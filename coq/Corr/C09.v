From Verif Require Import Lib.Base Lib.ListX Ebpf.Isa Corr.Exec Sys.HashMapSpec.
(* Hash maps for the executable ISA model, kept outside Ebpf/Isa.v: helper calls
   1 / 2 / 3 whose map argument is a hash-map pseudo descriptor (>= 100) are
   served here; the value of an entry lives in its own memory region (an extra
   element of `maps`), so that the pointer returned by a lookup works with the
   ISA's loads and stores. *)
Record htab := { h_id : Z; h_key : nat; h_value : nat; h_max : Z; h_tab : @table nat }.

Definition load_bytes (s : mstate) (addr : Z) (n : nat) : option (list Z) :=
  (* byte-wise, so that any size works *)
  let fix go (k : nat) (a : Z) : option (list Z) :=
    match k with
    | O => Some []
    | S k' => match load s a 1, go k' (a + 1) with Some b, Some tl => Some (b :: tl) | _, _ => None end
    end in go n addr.

Definition set_maps (s : mstate) (m : list (list Z)) : mstate :=
  {| regs := regs s; stack := stack s; pkt := pkt s; maps := m; oracle := oracle s; trace := trace s |}.

Fixpoint find_tab (id : Z) (l : list htab) : option htab :=
  match l with [] => None | t :: tl => if h_id t =? id then Some t else find_tab id tl end.
Fixpoint put_tab (t : htab) (l : list htab) : list htab :=
  match l with [] => [] | x :: tl => if h_id x =? h_id t then t :: tl else x :: put_tab t tl end.

Definition errno (e : Z) : Z := (- e) mod W64.

Definition hash_call (s : mstate) (tabs : list htab) (id : Z) : option (mstate * list htab * status) :=
  let m := reg s 1 - region MAPFD in
  match find_tab m tabs with
  | None => None
  | Some t =>
      match load_bytes s (reg s 2) (h_key t) with
      | None => Some (s, tabs, Fault 21)
      | Some key =>
          if id =? 1 then
            match t_lookup key (h_tab t) with
            | Some idx => Some (clobber s (region (MAP0 + Z.of_nat idx)) 1, tabs, Running)
            | None => Some (clobber s 0 1, tabs, Running)
            end
          else if id =? 2 then
            match load_bytes s (reg s 3) (h_value t) with
            | None => Some (s, tabs, Fault 22)
            | Some v =>
                let flags := reg s 4 in
                match t_lookup key (h_tab t) with
                | Some _ =>
                    if flags =? 1 then Some (clobber s (errno 17) 2, tabs, Running)
                    else
                      (* the kernel installs a NEW element; a pointer from an earlier lookup keeps pointing to the old one,
                         which is no longer part of the map *)
                      let idx' := length (maps s) in
                      let t' := {| h_id := h_id t; h_key := h_key t; h_value := h_value t; h_max := h_max t;
                                   h_tab := t_update key idx' (h_tab t) |} in
                      Some (clobber (set_maps s (maps s ++ [v])) 0 2, put_tab t' tabs, Running)
                | None =>
                    if flags =? 2 then Some (clobber s (errno 2) 2, tabs, Running)
                    else if h_max t <=? zlen (h_tab t) then Some (clobber s (errno 7) 2, tabs, Running)
                    else
                      let idx := length (maps s) in
                      let t' := {| h_id := h_id t; h_key := h_key t; h_value := h_value t; h_max := h_max t;
                                   h_tab := t_update key idx (h_tab t) |} in
                      Some (clobber (set_maps s (maps s ++ [v])) 0 2, put_tab t' tabs, Running)
                end
            end
          else if id =? 3 then
            match t_lookup key (h_tab t) with
            | Some _ =>
                let t' := {| h_id := h_id t; h_key := h_key t; h_value := h_value t; h_max := h_max t;
                             h_tab := t_delete key (h_tab t) |} in
                Some (clobber s 0 3, put_tab t' tabs, Running)
            | None => Some (clobber s (errno 2) 3, tabs, Running)
            end
          else None
      end
  end.

Fixpoint hrun (fuel : nat) (prog : list instr) (pc : nat) (s : mstate) (tabs : list htab) : mstate * list htab * status :=
  match fuel with
  | O => (s, tabs, Fault 99)
  | S k =>
      let served :=
        match nth_error prog pc with
        | Some i => if i_op i =? 133 then hash_call s tabs (i_imm i) else None
        | None => None
        end in
      match served with
      | Some (s', tabs', Running) => hrun k prog (S pc) s' tabs'
      | Some (s', tabs', st) => (s', tabs', st)
      | None =>
          let '(s', st, pc') := step prog pc s in
          match st with
          | Running => hrun k prog pc' s' tabs
          | _ => (s', tabs, st)
          end
      end
  end.

Definition v_tab (t : htab) : V :=
  VL [VZ (h_id t); VL (map (fun e => VL [VB (fst e); VZ (Z.of_nat (snd e))]) (h_tab t))].

Definition exec_hash (prog : list instr) (ms : list (list Z)) (tabs : list htab) (stk : list Z) : V :=
  let '(s, tabs', st) := hrun (4 * length prog + 64) prog 0 (with_stack (init_state [] ms []) stk) tabs in
  VL [v_status st; VL (map VB (maps s)); VL (map v_tab tabs'); VB (skipn (512 - length stk) (stack s)); VZ (reg s 0)].

(* ---- one step (for the multi-instance scheduler of C06 on hash-map variables) ---- *)
Definition hstep (prog : list instr) (pc : nat) (s : mstate) (tabs : list htab) : mstate * list htab * status * nat :=
  let served :=
    match nth_error prog pc with
    | Some i => if i_op i =? 133 then hash_call s tabs (i_imm i) else None
    | None => None
    end in
  match served with
  | Some (s', tabs', st) => (s', tabs', st, S pc)
  | None => let '(s', st, pc') := step prog pc s in (s', tabs, st, pc')
  end.

(* with a packet (validation of the helper calls against the running kernel: harness/hash_check.py) *)
Definition exec_hash_pkt (prog : list instr) (pk : list Z) (ms : list (list Z)) (tabs : list htab) : V :=
  let '(s, tabs', st) := hrun (4 * length prog + 64) prog 0 (init_state pk ms []) tabs in
  VL [v_status st; VZ (reg s 0 mod W32); VR (pkt s); VL (map VB (maps s)); VL (map v_tab tabs')].
