"""Writes /verif/MANIFEST.json from the table below (kept valid at all times)."""
import json
import os

VERIF = os.path.dirname(os.path.dirname(os.path.abspath(__file__)))

TB = ("Trusted: Coq 8.16.1 kernel (vm_compute, no native_compute); no axioms declared; Print Assumptions of every theorem is "
      "recorded in the evidence file; harness/gen_consts.py (ast reader of /repo constants); the correspondence harness "
      "(real Python code vs. Gallina model evaluated by coqc). ")

CLAIMED = {
    "C13": dict(
        text="Theorems C13_encode / C13_decode / C13_struct_roundtrip / C13_echo (Coq, all argument lists, all values, all response bytes) about "
             "the Gallina transliteration of EtherCat.roundtrip; the model is tied to the code by running both on generated argument "
             "lists (valid + malformed, empty raw data over-represented) every run; an independent oracle re-checks payload and result on the real code.",
        note=TB + "Modelled not verified: CPython struct for the '<' formats BHIQbhiq/x/s (Lib/Struct.v, diffed each run); format strings are complete items.",
        technique="Coq proof by induction on struct formats + differential model/code correspondence",
        ref="5/C13"),
    "C11": dict(
        text="Theorem C11_wellformed (induction over every accepted non-empty datagram list; lengths, commands, addresses, wkc presets, index and ethertype "
             "universally quantified): the assembled frame is read back by an independent ETG.1000.4 parser as exactly the identification datagram plus the "
             "given datagrams, data at the positions append reported, header length = payload, padded to 46, never above MAXSIZE; C11_rejects characterises "
             "rejection. Constants (MAXSIZE, header sizes, count limit, padding) are regenerated from the source each run. C11_sterile: the sterile copy equals the "
             "frame assembled from the same datagrams with NOP in place of every write command.",
        note=TB + "Modelled: Packet.append/assemble/full, SterilePacket.append_writer/sterile (Ecat/Frame.v); struct '<' formats.",
        technique="Coq proof against an independent frame parser + differential correspondence",
        ref="5/C11"),
    "C20": dict(
        text="Theorems C20_distinct_slots (invariant over ALL map/unmap sequences, any FMMU count, by induction on the operation list), C20_takes_free, "
             "C20_full_fails, C20_release_own about a model of Terminal.map_fmmu that keeps Python's reversed-slice clipping, list.index and negative-index "
             "assignment semantics; tied to the code by running random (thorough: exhaustive to length 5) operation sequences through the real async context manager. Several sync groups sharing one terminal have their own model (Ecat/FmmuGroup.v: SyncGroupBase.map_fmmu, output then input image in one exit stack) with "
             "C20_refused_group_restores (a refused group - also after its output image was already mapped - leaves the bookings exactly as it found them) and "
             "C20_accepted_group (only free, distinct FMMUs, nothing else changes); tied by scripts of whole groups through the real SyncGroupBase.map_fmmu.",
        note=TB + "Modelled: slot choice and release in Terminal.map_fmmu; the FMMU register writes are assumed to succeed (failure paths belong to C24).",
        technique="Coq invariant proof over operation sequences + differential correspondence",
        ref="5/C20"),
    "C27": dict(
        text="Theorems C27_follow, C27_timeout_default, C27_timeout (both safe states), C27_follow_any_safe, C27_lastgood hold for every valve state, switch "
             "reading and clock value, hence along every history; tied to devices.Valve by running random histories through the real device with real "
             "TerminalVar/PacketVar/DeviceVar descriptors and a scripted clock.",
        note=TB + "Modelled: Valve.update/reset (Dev/Valve.v); time.monotonic replaced by a scripted integer clock.",
        technique="Coq proof by case analysis over all states + differential correspondence",
        ref="5/C27"),
    "C14": dict(
        text="Theorem C14_order: for every target, every valid non-BOOTSTRAP first status word and EVERY further stream of AL-status words (unbounded polls, "
             "errors anywhere) the trace of Terminal.to_operational acknowledges an initial error first, requests a prefix of the states above the start up "
             "to the target in order, requests a state only after the previous one was reported without error, returns only after the target was reported, "
             "raises only on a reported error; proved by induction over the reply stream. MachineState values/order regenerated from source; model tied to the "
             "code by scripted-terminal runs (structured behaviours + unstructured streams).",
        note=TB + "Modelled: to_operational/get_state (Ecat/StateMachine.v); ec.roundtrip replaced by a scripted terminal.",
        technique="Coq proof by induction over reply streams + differential correspondence",
        ref="5/C14"),
    "C18": dict(
        text="Theorem C18_regions (induction over ANY terminal list; FMMU, direct and Aerotech-style allocators; all sizes/flags): accepted allocations give "
             "pairwise disjoint regions of the declared sizes, direct regions inside their own datagram, FMMU regions inside the LRD/LWR data, logical address "
             "= window base + same offset, frame <= MAXSIZE, windows shorter than their spacing; C18_windows_disjoint: windows of different sync groups of one "
             "master never overlap (stride and window increment regenerated from source); rejection characterised by C18_too_large_rejected. Tied to "
             "SyncGroup.allocate by differential runs incl. sets steered onto the 1500-byte boundary; an independent frame parser checks every region.",
        note=TB + "Modelled: EBPFTerminal.allocate, AerotechBase.allocate, SterilePacket.append_fmmu, SyncGroupBase.allocate (Ecat/Alloc.v). Assumes "
             "non-negative sizes and positive Aerotech packet sizes; for ParallelEtherCat the window base comes from FMMULock (C23).",
        technique="Coq invariant proof over the allocation fold + differential correspondence",
        ref="5/C18"),
    "C30": dict(
        text="Theorems C30_inputs_before_update, C30_outputs_next_frame, C30_wkc_cleared, C30_error_iff_mismatch hold for every response frame, counter table and "
             "device behaviour (devices = arbitrary function from the data seen to byte writes). The model of update_devices is tied to the code by running the "
             "REAL SyncGroupBase.run/update_devices cycle (real terminals, map_fmmu, to_operational, sendloop) on a register-level simulated EtherCAT segment, "
             "with random inputs, device outputs, working counters tampered per datagram (low byte, high byte, both) and lost frames.",
        note=TB + "Modelled: SyncGroup.update_devices (Ecat/Cycle.v). harness/sim_bus.py (bus simulator) and asyncio are trusted for the correspondence; devices "
             "are assumed not to write working-counter bytes.",
        technique="Coq proof over all frames/devices + differential correspondence on a simulated bus",
        ref="5/C30"),
    "C17": dict(
        text="Theorems C17_read_one (8 image bytes per access for both interface widths and any junk), C17_categories (for ANY image whose category area is the "
             "SII encoding of any category list: identity fields and every category returned exactly; proved by an invariant of the buffered reader), "
             "C17_sync_managers, C17_pdo_entries (decoders invert the SII encoders, by induction over entry lists), C17_pdo_layout / _total (offsets and bit "
             "positions are the running sums of the stored lengths). Tied to the code by running Terminal.read_eeprom/parse_sync_managers/parse_pdos through "
             "the real roundtrip/sendloop against a simulated ESC EEPROM interface (4/8-byte reads, random busy polls) on random SII images.",
        note=TB + "Modelled: _eeprom_read_one, read_eeprom, parse_sync_managers, parse_pdos (EEPROM source) in Ecat/Eeprom.v; busy polling is abstracted (the loops "
             "skip busy replies), the SDO source of parse_pdos is not modelled; harness/sim_bus.py EEPROM interface trusted.",
        technique="Coq proof (reader invariant + codec inversion by induction) + differential correspondence on a simulated EEPROM interface",
        ref="5/C17"),
    "C25": dict(
        text="Theorem C25_unique / C25_invariant: in the labelled transition system whose steps are the atomic code sections of find_free_address / "
             "assigned_address (between awaits), for every bus, every interleaving of any number of tasks and every sequence of random draws, handed-out "
             "addresses are in range, pairwise distinct and different from every address at which a terminal answered (induction over the event list). "
             "Tied to the code by recording the real event trace (scripted randint, probe results, register writes) of concurrent assigned_address tasks on "
             "the simulated bus and replaying it in the model; scan_serial_numbers runs are checked by the oracle.",
        note=TB + "Modelled: the three atomic sections of find_free_address/assigned_address (Ecat/Addr.v); asyncio atomicity between awaits is assumed; "
             "pre-assigned addresses are assumed stable.",
        technique="Coq invariant proof over all interleavings + trace-replay correspondence",
        ref="5/C25"),
    "C12": dict(
        text="Theorems C12_sent_once_in_order (induction over ANY list of queued requests: each goes into exactly one frame, in submission order, every frame "
             "within the size/count limits, never-fitting requests fail; the packing function is total, i.e. sendloop returns to awaiting), C12_frames_fit, "
             "C12_independent / C12_own_bytes_or_error / C12_at_most_once (completion is a pointwise function of the request's own future state, working counter "
             "and response bytes). Tied to the code by running the real sendloop/process_packet/roundtrip/datagram_received with a scripted transport: concurrent "
             "requests, overflow of size and count limits, cancellation before packing and in flight, wkc 0/1/2, lost, duplicated, delayed and truncated frames; "
             "a watchdog turns an event-loop stall into a failure.",
        note=TB + "Modelled: sendloop packing and process_packet completion (Ecat/SendLoop.v). Partial: asyncio's FIFO scheduling is assumed (random orderings of "
             "ready callbacks are not explored); lost frames/duplicates are handled by wait_futures bookkeeping, which is exercised by the correspondence and "
             "the oracle but has no theorem of its own.",
        technique="Coq proof by induction over request lists + differential correspondence with scripted bus",
        ref="5/C12"),
    "C28": dict(
        text="Theorems C28_tx_exactly_once_in_order, C28_rx_exactly_once_in_order, C28_kept_until_ack, C28_one_toggle_per_chunk, C28_invariant: an invariant over "
             "EVERY history of application writes and cycles, for every timing of the terminal (oracle: init reaction, accept delay, announcements), both "
             "directions active at once, proved by induction over the event list (exhaustive case analysis of one cycle inside Coq). Tied to serial.Serial by "
             "running the real device (real pipes, real TerminalVar/PacketVar descriptors on a frame buffer) against a Python twin of the modelled terminal "
             "and comparing the complete state after every event. The theorems are about one channel; C28_EL6002_channels_independent / C28_EL6022_channels_independent "
             "/ C28_channel_layout carry them to a terminal with both channels in use: on the descriptor layout REGENERATED from terminals.py on every run "
             "(Generated/SerialLayout.v; compared with the live descriptor objects) a write of any variable of one channel changes no byte of any variable of the "
             "other, and the strings carry exactly the model's chunk size. The differential runs use the real EL6002 with traffic on both channels at once.",
        note=TB + "Modelled: Serial.update, os.read(...,22) on the out pipe, the EL6002 handshake (Dev/Serial.v `react`: the terminal never re-announces before an "
             "acknowledge and hands nothing over before initialisation completed - this terminal model is trusted). Every cyclic frame is assumed to come back.",
        technique="Coq invariant proof over all histories + state-by-state differential correspondence",
        ref="5/C28"),
    "C15": dict(
        text="Theorems C15_in_process (any number of tasks, any interleaving of acquire/send/release under asyncio's FIFO hand-over: the log is a sequence of "
             "whole exchanges and the counters form the chain 0,1..7,1..), C15_cross_process (n processes, any interleaving of lock attempt / read / message / "
             "write-back / unlock and the creator's late initialisation: one counter chain across all processes, only the lock holder is inside an exchange), "
             "C15_open_during_create. Ties: the real MailboxLock / ParallelMailboxLock are run by concurrent tasks and the recorded trace is replayed in the "
             "model; real LockFile/ParallelMailboxLock objects in 2-3 forked processes are stepped command by command by the harness (half of the cases inside "
             "the creation window, the creator stopped before its initialising call) and replayed; an ast check ties ethercat.py to the model's users: every "
             "mbx_send/mbx_recv of Terminal is lexically inside `async with self.mbx_lock`.",
        note=TB + "Partial for the cross-process part: POSIX atomicity of pread/pwrite/ftruncate/lockf and exclusion of fcntl record locks between processes are "
             "assumed, crashes of a lock holder are not modelled; asyncio.Lock's hand-over to the first waiter is assumed as modelled.",
        technique="Coq invariant proofs over interleavings + trace replay against real locks in real processes",
        ref="5/C15"),
    "C16": dict(
        text="Theorems C16_download (for EVERY value length, every mailbox size >= 24, subindex or complete access: the messages sdo_write produces make a "
             "strict ETG.1000.6 SDO server - which aborts on wrong sizes or toggle bits - store exactly the value; induction over the segment sequence), "
             "C16_upload (sdo_read applied to the server's responses returns exactly the value, requested toggles alternate from 0), C16_fits (every mailbox "
             "message fits). Tied to the code by running the real sdo_write/sdo_read through the real mbx_send/mbx_recv/roundtrip/sendloop against a strict "
             "Python SDO server behind simulated mailbox sync managers: the CoE payloads sent by the client and the responses of the server are compared "
             "byte for byte with the Coq client and server; boundary lengths for several mailbox sizes, delays, unrelated mail.",
        note=TB + "Modelled: the message sequence of sdo_write and the assembly of sdo_read (Ecat/Sdo.v), positive responses only. The SDO server / mailbox "
             "behaviour (harness/sim_mailbox.py and its Coq twin) is written from ETG.1000.6 and trusted. Unrelated mail is only tolerated before the first "
             "upload response (the client raises otherwise; not covered).",
        technique="Coq proof of client||server composition by induction over segments + byte-exact differential correspondence",
        ref="5/C16"),
    "C24": dict(
        text="Theorem C24_cleanup: for EVERY prefix of bus-level events the run coroutine can have produced when it is cancelled (any number of cycles, any subset "
             "of the OPERATIONAL requests already sent, slow and fast groups), the clean-up asks every terminal that was asked to go OPERATIONAL back to "
             "SAFE-OPERATIONAL and unregisters a registered program (induction over the event list of the control automaton). Tie: the REAL SyncGroup.run / "
             "FastSyncGroup.run (real map_fmmu, to_operational, register_sync_group, sendloop) are cancelled after every event-loop iteration of start-up and "
             "the first cycles on the simulated bus; the events submitted before the cancellation must be accepted by the automaton and the events after it "
             "must equal the model's clean-up; the oracle additionally checks outcome = cancelled, FMMU tables freed, registry empty; wait_for_process is "
             "cancelled with a stand-in child process.",
        note=TB + "Partial: asyncio's cancellation semantics are assumed; the abstraction of the coroutine to its bus-level events is validated only by the "
             "correspondence; process-based groups are covered only through wait_for_process (no real ParallelEtherCat/subprocess_run); a task cancelled "
             "before its coroutine first runs executes no clean-up at all (outside the quantifier: no await point reached).",
        technique="Coq proof over all admissible event prefixes + cancellation injected at every loop iteration of the real coroutines",
        ref="5/C24"),
    "C01": dict(
        text="Theorem C01_exact (structural induction over ALL expression trees, all operand values, via the invariant C01_invariant: at every node the register "
             "value is congruent to the exact value modulo the width it is computed at): the n-byte destination receives the exact value reduced to n bytes, "
             "under the property's range precondition. The theorem is about Gen/Denote.v `impl`, the width/sign propagation of the generator; it excludes "
             "exactly the three recorded defects, for which C01_refuted_* give machine-checked witnesses. Ties: (1) the REAL generator's bytecode for random "
             "statements is executed in the Coq ISA model and must equal `impl` (all cases, also outside the precondition) and the exact meaning (inside it); "
             "(2) the ISA model is compared with the running kernel (BPF_PROG_TEST_RUN) on random programs each run.",
        note=TB + "Partial: register allocation / instruction emission are not modelled (tie by execution of the emitted code, sampled); coq/Ebpf/Isa.v is "
             "trusted and cross-checked against the kernel when bpf() is permitted (skipped otherwise). Known findings: signed // and %, w/sw registers with "
             "non-extended upper half, abs of unsigned values with bit 63.",
        technique="Coq proof by structural induction over expression trees + execution of real generated bytecode in a kernel-validated ISA model",
        ref="5/C01"),
    "C03": dict(
        text="Theorems C03_combination / C03_with_block (induction over ALL condition trees built with & | ~: the code of compare(negative) jumps away exactly "
             "when the condition is false resp. true, so the body runs iff the condition holds and the Else part iff not), C03_atom_signed / C03_atom_unsigned / "
             "C03_bit_test (for all operand expressions and values: the jump of a comparison atom tests the exact comparison when the values fit the width "
             "it is evaluated at - the model Gen/Cond.v transcribes SimpleComparison.compare's choice of 32/64-bit jump, re-extension and operand widths on "
             "top of C01's operand model). Tie: the REAL generator's code for random nested / sequenced with-blocks (with and without Else, and/or/not trees, "
             "bit and truth tests) runs in the kernel-validated Coq ISA model; every reached block must take the branch the model predicts (all cases) and "
             "the branch the exact truth selects (inside the range precondition); execution must continue after the construct.",
        note=TB + "Partial: jump patching, Else splicing and register ownership merging are not modelled (covered by execution of the emitted code, sampled); "
             "signed bit tests are covered by execution only.",
        technique="Coq proof by induction over condition trees + execution of real generated bytecode in a kernel-validated ISA model",
        ref="5/C03"),
    "C07": dict(
        text="Theorems C07_read (for every format BHIQbhiq, every byte order and every byte content: load + byte swap + sign extension deliver struct.unpack's "
             "value, reduced to the destination), C07_write (for every value: struct.pack's bytes are stored at [p, p+n), no other packet byte and not the "
             "length changes), C07_roundtrip, C07_guard / C07_guard_read / C07_guard_write (the body runs iff the packet is longer than the minimum size, and "
             "then every access inside the guarded size is inside the packet). The model Gen/Packet.v composes the instruction semantics of Ebpf/Isa.v. Tie: "
             "the REAL generator's XDP code for random programs (reads, constant / variable writes, updates, in-place additions, overlapping variables) runs in "
             "the kernel-validated Coq ISA model on packets of every length around the guard; final packet and locals must equal the model's (all cases) "
             "and struct.pack/unpack's (oracle); an access outside the packet faults.",
        note=TB + "Partial: register allocation / instruction emission are not modelled (tie by execution, sampled); packet array accessors pB/pH/pI/pQ with "
             "register offsets are exercised by directed cases that the struct oracle decides (the model has no indexed reads).",
        technique="Coq proof about byte-level load/store/guard composition + execution of real generated XDP code in a kernel-validated ISA model",
        ref="5/C07"),
    "C06": dict(
        text="Theorem C06_no_lost_update: for ANY number of instances, ANY instruction counts and ANY interleaving of their instructions (induction over the "
             "interleaving relation), the shared cell ends up changed by exactly the sum of all amounts modulo its width, provided every instruction either "
             "leaves the cell alone or is the atomic add; C06_isa_xadd_atomic: the ISA's XADD is ONE step adding the source register to the cell; "
             "C06_rmw_refuted: a load/add/store lowering loses an update (machine-checked witness). Tie: 2-3 instances of the REAL generated statement for "
             "every 4/8-byte format, += and -=, constant / register / expression amounts run on a shared array map or hash-map variable in the kernel-validated Coq ISA model, one "
             "instruction at a time under round-robin, sequential, adversarial and random schedules; the final value must equal the model's and the exact "
             "sum, neighbouring bytes must be untouched.",
        note=TB + "Partial: the abstraction of the generated code to Priv/Add events is validated by the sampled executions, not proved; sequentially "
             "consistent instruction interleaving is assumed (the atomicity of BPF_XADD itself is the kernel's / hardware's guarantee); the hash-map helper calls of the executor are those of coq/Corr/C09.v (not kernel-validated).",
        technique="Coq proof over all interleavings + multi-instance execution of real generated code in a kernel-validated ISA model",
        ref="5/C06"),
    "C26": dict(
        text="Theorems C26_control_law (for ALL inputs in the property's ranges - unbounded integers, no bit-width enumeration: the machine-level model of "
             "Motor.program with 64-bit stmp, 32-bit DeviceVars, 16-bit output equals gain*(target-position) limited to the acceleration limit around the "
             "previous velocity, then to +-velocity limit, zero when a switch blocks the direction) and C26_safe (never above the limit, never into an active "
             "switch, never changing by more than the acceleration limit except to stop); C26_pinned_refuted documents the repaired defect. Tie: the REAL "
             "program generated for a FastSyncGroup with a Motor on an EL7041 is executed in the kernel-validated Coq ISA model on boundary and random inputs; "
             "velocity output must equal the model's (all cases) and the control law (oracle); enable bit, neighbouring bits, inputs and map must be as expected.",
        note=TB + "Partial: the statement-level model is hand-written (tie by execution of the generated code, sampled); only the EL7041 layout (16-bit "
             "velocity, 32-bit encoder) is exercised.",
        technique="Coq proof over all inputs (lia over unbounded integers) + execution of the real generated device program in a kernel-validated ISA model",
        ref="5/C26"),
    "C19": dict(
        text="Theorems C19_bit_write_bits / C19_bit_write_frame (for every frame, position, bit number and value: a bit write changes exactly that bit; all other "
             "bits, all other bytes and the length are unchanged), C19_bit_paths_agree_write / _read (the byte the generated code computes - OR / AND with the "
             "64-bit mask, stored as one byte - equals Python's |= / &= ~mask; the bit it reads equals Python's), C19_bytes_paths_agree / C19_bytes_write_frame "
             "(multi-byte variables: same bytes on both paths, exactly n of them at the position). Tie: random terminals (bit and byte entries, Structs with "
             "offsets), a device linking them; the REAL slow path (PacketVar.get/set on current_data) and the REAL generated FastSyncGroup program (in the "
             "kernel-validated Coq ISA model) run on the same random frames; both results must equal the model's and the own-bits/bytes-only oracle, "
             "and both groups must place the terminal regions identically.",
        note=TB + "Partial: the PDO table behind ProcessDesc is hand-made (not parsed from a terminal); register allocation / emission are covered by "
             "execution only; a little-endian host is assumed.",
        technique="Coq proofs at bit level (Z.testbit) + execution of the real Python path and the real generated program on the same frames",
        ref="5/C19"),
    "C02": dict(
        text="Theorems C02_ring_ops / C02_divisions / C02_remainder (QArith, for ALL operand values and every mix of integer / fixed-point operands: the "
             "integer computation the DSL elaborates equals the exact rational result dropped to the result's representation), C02_elaboration (at every "
             "node the elaborated expression computes it), C02_assignment (integer <-> fixed conversion drops the fraction), C02_stored (the generated code "
             "stores it: C01's theorem instantiated); C02_refuted_negative documents the open finding. Tie: the REAL generator's code for random statements "
             "mixing x variables, x registers, integer variables, integer and decimal constants (incl. 0.29, 0.57, 1.15) with + - * / // % runs in the "
             "kernel-validated Coq ISA model; the stored value must equal the model's (all cases) and exact Fraction arithmetic (inside the precondition); 30% of the cases are with-blocks "
             "comparing mixed operands (C02_comparisons + C03's comparison model), constants placed next to the other side's value.",
        note=TB + "Partial: the elaboration model is hand-written (tie by execution, sampled); assignment of fixed-point values from Python is "
             "covered by C08. Known finding: negative operands of the scaling divisions (unsigned DIV).",
        technique="Coq proof over rationals (QArith) for all operand values + execution of real generated code in a kernel-validated ISA model",
        ref="5/C02"),
    "C04": dict(
        text="Theorems C04_locals_disjoint (ANY list of local declarations: pairwise disjoint byte ranges), C04_scratch_disjoint (get_stack scratch lies below "
             "every local of the program), C04_array_vars_disjoint (ANY set of array-map variables), C04_store_frame (a store changes only its own bytes); "
             "C04_refuted_subprogram_locals documents the open finding. Tie: for random declaration sets (main program, subprogram classes and instances, "
             "locals and array-map variables of all formats) the REAL layout (descriptor addresses, collect positions, scratch address) must equal the "
             "model's, and real generated programs that write one variable (constants and expressions of other variables) are executed in the "
             "kernel-validated Coq ISA model: every other variable must keep its value. C04_dict_layout / C04_items_disjoint / C04_scratch_below_items: "
             "Dict key and value structures between locals in ANY declaration order are pairwise disjoint and temporaries lie below all of them; tie: "
             "programs declaring Dicts, locals and hash-map variables in random order, every local, member and hash variable written once in random order "
             "(hash-variable writes take temporaries in between), optionally update(): real key / value offsets must equal the model's and every variable "
             "and the stored map entry must hold what was written. Bit-field variables sharing a byte of a packet (fmt = (pos, bits)) have their own model (Gen/BitField.v: the mask expression of Memory._set on "
             "unbounded integers) and theorems C04_bitfield_store_bits / _other_unchanged / _reads_back / _stays_byte / C04_flag_store_bits: a store of ANY value changes "
             "no bit outside its field; tied by executing generated XDP programs with fields sharing bytes (constants that fit and that do not, run-time values, "
             "reads) on a packet and on its complement and comparing every byte with the model.",
        note=TB + "Partial: packet variables are C07's; hash-map helper calls are served by coq/Corr/C09.v (kernel-validated by random call sequences); temporaries "
             "of expression evaluation are covered by execution only. Known finding: subprogram locals share their bytes (golden-pinned).",
        technique="Coq proof by induction over declaration lists + layout comparison + execution of real generated programs in a kernel-validated ISA model",
        ref="5/C04"),
    "C08": dict(
        text="Theorems C08_one_slot_per_name (for ANY class hierarchy: one slot per variable name, sized by the declaration attribute lookup finds), "
             "C08_slots_disjoint (ANY collection: pairwise disjoint slots), C08_value_roundtrip (native pack / unpack on one side, load / store on the other); "
             "C08_pinned_refuted documents the repaired defect. Tie: random declaration sets over a base and a derived program class with redefinitions, "
             "subprogram class pairs with 1-2 instances, scalar, fixed-point and multi-element formats: the REAL positions and map size must equal the model's; "
             "values written through the real Python descriptors are read by the real generated program (kernel-validated Coq ISA model) and values the program "
             "stores are read back through the descriptors (decimals for x, tuples for multi-element formats); per-CPU maps: one value per CPU on the Python side.",
        note=TB + "Partial: the per-CPU case exercises only the Python side (PerCPUVar indexing over a hand-made per-CPU blob); a map declared in a base class of "
             "the program is not initialised by EBPF.__init__ (only the program class's own dict is searched) - the maps are declared in the program class.",
        technique="Coq proof over declaration lists + layout comparison + values passed both ways between real descriptors and the real generated program",
        ref="5/C08"),
    "C10": dict(
        text="Theorem C10_buffers_suffice: for EVERY operation of the Python map API (hash variable get / set, per-CPU read, Dict set / get / pop / del / "
             "iteration), EVERY declared map (any structure sizes, any per-CPU variable set) and EVERY number of possible CPUs, the key and value buffers the "
             "library passes are at least as large as what the kernel accesses through them (key_size, value_size, round_up(value_size, 8) * possible CPUs); "
             "C10_online_cpus_refuted documents a repaired defect. Tie: the real API (load, hash variables, per-CPU read and indexing, Dict operations) runs "
             "against a stand-in for the bpf() system call that knows the length of every Python buffer whose address it receives and checks it BEFORE "
             "touching memory; per call the four sizes must equal the model's, and no overrun may be recorded (machine simulated with fewer online than possible CPUs).",
        note=TB + "Partial: the sizes the kernel accesses are those of harness/sim_bpf.py (transcribed from the kernel's map syscalls), not observed from a "
             "real kernel; obj_pin / obj_get / prog_test_run buffers are not covered.",
        technique="Coq proof over all API operations and map declarations + interposition of the bpf() system call with a buffer-length registry",
        ref="5/C10"),
    "C09": dict(
        text="Theorems C09_lookup_update_same, C09_cells_independent, C09_delete (for ALL tables, keys and values: what is stored under a key is found under it; "
             "every other key - every other hash-map variable - is an independent cell; delete / pop removes exactly that key, absent keys are not found) and "
             "C09_members_disjoint (structure members of any sizes occupy disjoint bytes). Tie: random hash-map variable sets with defaults and random Structure "
             "key / value definitions; the REAL Python API (load, defaults, variable get / set, Dict insert / lookup / iteration) runs against a stand-in for "
             "bpf(); the map contents are handed to the REAL generated program (reads / writes of hash variables, lookups of present and absent keys with member "
             "reads / writes and Else branch, updates incl. a full map) executed in the Coq ISA model extended with hash-map helper calls, and handed back; "
             "every value and entry must be what the other side stored.",
        note=TB + "Partial: the hash-map helper calls of the executable model (coq/Corr/C09.v) are validated against the kernel's hash maps only by random helper-call sequences (harness/hash_check.py, every run, including pointers kept across an update of the same key); deletion from the program "
             "side and LRU maps are not exercised; no model/implementation correspondence term beyond the oracle (the tie is the exchange of map contents).",
        technique="Coq proof of the table laws + both real sides (Python API on a bpf() stand-in, generated program in the ISA model with hash maps) on shared map contents",
        ref="5/C09"),
    "C29": dict(
        text="Theorems C29_one_slot_per_variable, C29_no_shared_storage (ANY set of device classes / instances: every device variable has exactly one slot of "
             "the size attribute lookup uses; slots are pairwise disjoint), C29_write_frame, C29_value_roundtrip (a write changes only its own bytes of the "
             "shared array; the value is read back unchanged). Tie: the REAL ProcessSyncGroup with real Device / DeviceVar classes (all formats, a derived "
             "device class redefining a variable): the layout of the shared array must equal the model's; values written in the controlling process are "
             "read in a SPAWNED child process that received the pickled group, the child writes other variables, the parent reads everything back.",
        note=TB + "Partial: parent and child access the variables in turns (no concurrent access is exercised); the sync group's run loop in the child "
             "(subprocess_run) is not started - only the sharing of the device variables is exercised; three fixed device classes.",
        technique="Coq proof over declaration lists (shared with C08) + the real ProcessSyncGroup across a real spawned process",
        ref="5/C29"),
    "C22": dict(
        text="Theorems C22_never_drops, C22_foreign_unchanged, C22_unregistered_group (for ALL frames and counter maps: no frame is dropped; non-EtherCAT frames, "
             "frames not starting with the identification datagram and frames of at most 30 bytes pass unchanged; frames of a group without registered "
             "program are never handed to a program and reach user space with the ethertype of the identification datagram) and C22_no_two_bypasses (after a "
             "frame went straight back to the bus, the next frame of the group - whatever its index - is handed to the program or to user space). Tie: the REAL "
             "dispatcher bytecode (EtherXDP.program) is executed in the kernel-validated Coq ISA model on foreign frames and group frames of every relation "
             "between index and loop counter (incl. wrap-around at 2**32), registered or not; frame, counter map and action must equal the model's; a bounded "
             "exploration of frame histories (deliveries in any order, losses, injections, at most three in flight) runs on the model and reports the longest run "
             "of frames without the program.",
        note=TB + "Partial: the clause 'no more than two consecutive frames pass without running the group's program' is proved only in the form "
             "C22_no_two_bypasses; counting frames handed to user space as well, the exploration finds a history with three after three injections in a row "
             "(inject x3, deliver 0: bus, deliver 0: program, deliver 0: bus, deliver 3: program, deliver 2: user space, inject, deliver 0: bus, deliver 4: "
             "user space) - whether the clause counts those is ambiguous, so it is reported in the evidence, not raised. The random dropper (rate > 0) is off.",
        technique="Coq proof over all frames / counters + execution of the real dispatcher bytecode in a kernel-validated ISA model + bounded history exploration (support only)",
        ref="5/C22"),
    "C21": dict(
        text="Theorems C21_disabled_untouched, C21_activate_one, C21_activate_frame, C21_errors_bound (the group's program re-enables exactly the write "
             "datagrams: command byte written back, working counter cleared, one error per wrong counter, nothing else changes, nothing at all with output "
             "disabled), C21_dispatcher_enables_nothing (the dispatcher writes only frame index and ethertype) and C21_no_enabled_bypass: in EVERY history of a "
             "group's frames - any number in flight, deliveries in any order, losses, injections of sterile frames - a frame that goes back to the bus without "
             "the group's program has no enabled write datagrams (invariant: enabled frames carry an odd index, bypassing frames an even one; induction over "
             "event lists). Tie: the REAL sterile() and the REAL generated FastSyncGroup program (kernel-validated Coq ISA model) on frames with right and wrong "
             "working counters, output enabled and disabled, against the model; the counter logic against the real dispatcher bytecode in C22's check. The user-space half "
             "(Ecat/UserLoop.v: FastSyncGroup.run / SyncGroupBase.run / update_devices with its timeout-and-resend branch) has its own theorems "
             "C21_user_space_sends_sterile / C21_user_loop_invariant: whatever comes back or is lost, for any number of cycles, every cyclic frame handed to the "
             "socket is the sterile one; tied by running the REAL FastSyncGroup.run() on the simulated bus against scripts of sterile / activated / lost frames "
             "and comparing every frame it sends with the model's.",
        note=TB + "Partial: the abstraction of a frame to (index, enabled) and of the program run to 'enables the writes and gets the new index' is tied to the "
             "code only through the two correspondences; the devices' own output computation in that pass is C19 / C26.",
        technique="Coq invariant proof over all frame histories + execution of the real group program and dispatcher bytecode in a kernel-validated ISA model",
        ref="5/C21"),
    "C23": dict(
        text="Theorems C23_two_participants (two participants, EVERY interleaving of their start / stop steps and every outcome of the ethertype draws - closed "
             "finite set of states with closure and invariants checked inside the kernel: at most one installs the dispatcher at a time, running participants "
             "have distinct ethertypes), C23_three_participants (the same for three participants: structural closure proof over the 25860 reachable states), "
             "C23_windows_distinct / _disjoint / C23_groups_in_window (EVERY history of window allocations and releases of any number of processes: distinct "
             "window numbers, disjoint windows, sync-group blocks inside the window); C23_refuted_stays_installed gives the machine-checked schedule of the "
             "recorded race. Tie: the REAL ParallelEtherCat.run() runs in forked processes whose operations on the lock directory, the pinned table and the "
             "attachment are gated and interleaved by random schedules (and the race schedule); the final shared state and every participant's position must "
             "equal the model's, the properties are checked after every step; the REAL FMMULock is created concurrently with colliding draws and the creator "
             "interrupted after creating the file; allocations run against removals on the same map byte (one side stopped between reading and writing the "
             "byte, the other side must report that it waits for the file lock), the windows handed out must equal the model's for the order in which the lock "
             "was held (C23_split_release_refuted: without that exclusion a window is handed out twice). C23_remove_clears_only_own_bit / C23_alloc_sets_only_own_bit "
             "/ C23_map_bytes_refine take the list model down to the 64 BYTES of the map file (byte | (1 << k), byte & ~(1 << k) on unbounded integers as lock.py "
             "computes them): after any sequence of allocations and removals the file marks exactly the numbers the abstract state holds; tied by running the real "
             "FMMULock on files with arbitrary initial content and comparing every byte with the model after scripted allocations and removals.",
        note=TB + "Partial: netlink attach / detach, bpf obj_pin / obj_get / create_map and the raw socket are stand-ins inside the children (files in a scratch "
             "root; the file-system calls are real); crashes between operations are not modelled; Known finding: the dispatcher does not stay installed (leaver / fresh starter race).",
        technique="Coq finite-state closure proof + invariant proof over histories + real multi-process executions gated at every shared operation",
        ref="5/C23"),
}

REASONS_NOT_YET = "no check built yet in this round (planned, see DESIGN.md section 7); nothing is claimed for it"


def main():
    props = [json.loads(l)["id"] for l in open(os.path.join(VERIF, "properties.jsonl"))]
    checks = []
    for pid in props:
        if pid not in CLAIMED:
            continue
        c = CLAIMED[pid]
        checks.append({
            "property_id": pid,
            "quick_cmd": f"bin/check {pid} quick",
            "thorough_cmd": f"bin/check {pid} thorough",
            "evidence_file": f"/verif/evidence/{pid}.json",
            "replay_cmd_template": f"bin/check {pid} --replay {{path}}",
            "engine": "coq-proof+correspondence",
            "level_claimed": {"category": "proof", "text": c["text"], "design_ref": c["ref"]},
            "level_note": c["note"],
            "technique": c["technique"],
        })
    na = [{"property_id": p, "reason": NOT_APPLICABLE.get(p, REASONS_NOT_YET)} for p in props if p not in CLAIMED]
    man = {
        "version": 1,
        "setup_cmd": "bin/setup",
        "hooks": {"guard": "EBPFCAT_VERIF", "enable": "no source hooks are used: the harness replaces the environment of the code (transport, queue, clock, bpf syscall) from outside",
                  "baseline_off_cmd": "cd /repo && /venv/bin/python -m pytest -ra -q -p no:cacheprovider --timeout=900 --continue-on-collection-errors",
                  "source_commits": [], "add_only": True},
        "engines": [{"name": "coq-proof+correspondence", "path": "/verif/bin/check",
                     "serves_properties": [c["property_id"] for c in checks],
                     "kind_free_text": "Coq 8.16 theorems over Gallina models (coq/), tied to /repo by constants regenerated from source and by differential runs of model (coqc vm_compute) vs real code"}],
        "checks": checks,
        "notes": "fix: commits in /repo are listed in known_findings.json (status fixed).",
        "not_applicable": na,
    }
    with open(os.path.join(VERIF, "MANIFEST.json"), "w") as f:
        json.dump(man, f, indent=1)
    print(f"{len(checks)} checks, {len(na)} unclaimed")


NOT_APPLICABLE = {
    "C05": ("the deciding component is the Linux eBPF verifier, outside the repository: a Gallina model able to decide acceptance would be a "
            "re-implementation of the verifier that could only be validated by differential testing against the kernel, so a theorem about it "
            "would add nothing over loading the programs; what a proof can carry (no out-of-bounds access in the ISA model, locals inside the stack, "
            "packet accesses inside the guard) is part of C04 / C07 / C09; see DESIGN.md section 7"),
}

if __name__ == "__main__":
    main()
