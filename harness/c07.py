"""C07: packet variables: the real generator's code for XDP programs with a
minimum packet size is executed in the Coq ISA model on packets of every length
around the guard; reads / writes / updates are compared with struct.pack/unpack."""
import struct

from .common import Check, Err, clist, cz, cnat, cbool
from . import dsl, exprs, isa_check, ebpf_exec
from .c01 import GenCheck, read_var

LETTERS = "BHIQbhiq"
ORDERS = ["", "", "<", ">", "!"]
RINGOPS = ["+", "-", "|", "&", "^"]


def wrap(fmt, v):
    return dsl.from_bytes(fmt, dsl.to_bytes(fmt, v))


class C07(GenCheck):
    pid = "C07"
    props_file = "Props/C07.v"
    corr_imports = ["Ebpf.Isa", "Corr.Exec", "Gen.Denote", "Gen.Packet", "Corr.C07"]
    technique = ("Coq theorems about the packet access model (load + byte swap = struct.unpack, store = struct.pack into exactly the declared bytes, "
                 "guard implies in-bounds) + execution of the REAL generated XDP code in the Coq ISA model on packets around the guard boundary")
    trusted = ["coq/Ebpf/Isa.v (kernel-validated; packet bounds are enforced by faulting)", "Python struct module as the oracle"]
    assumptions = []
    known_classes = {}

    def rand_const(self, rng, fmt):
        """constants around the immediate-field boundaries, before and after the byte swap"""
        if rng.random() < 0.4:
            return exprs.rand_value(rng, fmt)
        letter = fmt[-1]
        n, sg = dsl.fmt_size(fmt), dsl.fmt_signed(fmt)
        base = exprs.BOUNDARY64 + [0x80000001, 0xfffffffe, 0x7ffffffe, -0x7fffffff, -0x100000000, 0x8000000000, 0x123456789a, rng.randrange(2 ** 31, 2 ** 32)]
        cands = []
        for c in base:
            for v in (c, int.from_bytes((c % (1 << 64)).to_bytes(8, "little")[:n][::-1], "little")):
                v = wrap(letter, v)
                cands.append(v)
        return rng.choice(cands)

    def make_case(self, rng):
        G = rng.choice([8, 9, 14, 16, 20, 31, 32, 48])
        decls, values = [("ran", "local", "B")], {"ran": 0}
        pvars = []
        for k in range(rng.randint(1, 4)):
            letter = rng.choice(LETTERS)
            fmt = rng.choice(ORDERS) + letter
            n = dsl.fmt_size(fmt)
            p = rng.choice([0, G - n, G - n, rng.randint(0, G - n)])
            decls.append((f"p{k}", "packet", (p, fmt)))
            pvars.append((f"p{k}", p, fmt))
        locs = []
        for k in range(rng.randint(1, 3)):
            fmt = rng.choice(LETTERS)
            decls.append((f"l{k}", "local", fmt))
            values[f"l{k}"] = exprs.rand_value(rng, fmt)
            locs.append((f"l{k}", fmt))
        stmts = []
        for _ in range(rng.randint(1, 5)):
            name, p, fmt = rng.choice(pvars)
            r = rng.random()
            if r < 0.1 and len(pvars) > 1:
                # one packet variable assigned directly from another (different sizes / byte orders)
                other = rng.choice([v for v in pvars if v[0] != name])
                stmts.append(["set", ["v", name], ["v", other[0]]])
            elif r < 0.35:
                stmts.append(["set", ["v", rng.choice(locs)[0]], ["v", name]])
            elif r < 0.5:
                c = self.rand_const(rng, fmt)
                n_ = dsl.fmt_size(fmt)
                q = rng.random()
                if q < 0.15:
                    # a constant wider than the variable: its low bytes are stored (in the variable's byte order) - preferably
                    # into a multi-byte variable with an explicit byte order, with low bytes that differ from each other
                    wide = [v for v in pvars if 1 < dsl.fmt_size(v[2]) < 8 and len(v[2]) > 1]
                    if wide:
                        name, p, fmt = rng.choice(wide)
                        n_ = dsl.fmt_size(fmt)
                        c = rng.choice([0x1234, 0x12345678, 0x0a0b0c0d, c]) % (1 << (8 * n_))
                    if n_ < 8:
                        c += rng.choice([1, 3, -1, -2, 0x10, 255]) << (8 * n_)
                elif q < 0.3:
                    # a decimal constant into an integer variable: its whole part is stored
                    c = rng.choice([2.5, 7.25, 0.99999, 123.5, 1.0, 41.50001, 200.75])
                stmts.append(["set", ["v", name], ["c", c]])
            elif r < 0.7:
                stmts.append(["set", ["v", name], ["v", rng.choice(locs)[0]]])
            elif r < 0.85:
                stmts.append(["set", ["v", name], [rng.choice(RINGOPS), ["v", name], ["c", rng.choice([1, 3, 0x80, 0xff, 0x1234, -1, -7])]]])
            else:
                stmts.append([rng.choice(["iadd", "isub"]), ["v", name], ["c", rng.choice([1, 2, 5, 255, 1000, 70000])]])
        reginit = {}
        if rng.random() < 0.2:
            # a register stored into packet variables, the SAME register several times (the store must not change it)
            no = rng.choice([2, 3, 4, 5])
            reginit[no] = rng.choice([0x1122334455667788, 0x4a26, 0x80000000, 0xfffffffe, rng.randrange(2 ** 64), rng.randrange(2 ** 16)])
            for _ in range(rng.randint(2, 3)):
                stmts.insert(rng.randrange(len(stmts) + 1), ["set", ["v", rng.choice(pvars)[0]], ["r", "r", no]])
        need = max(p + dsl.fmt_size(f) for _, p, f in pvars)
        L = rng.choice([G - 2, G - 1, G, G, G + 1, G + 1, G + 2, G + 9, need - 1, need, 0, 64, 100])
        L = max(L, 0)
        r = rng.random()
        packet = bytes(rng.choice([0, 0xff, 0x80, 0x7f, rng.randrange(256)]) if r < 0.3 else rng.randrange(256) for _ in range(L))
        case = {"G": G, "decls": decls, "values": values, "stmts": stmts, "packet": packet.hex(), "xdp_min": G}
        if reginit:
            case["reginit"] = reginit
        if rng.random() < 0.12:
            # the statements from position `at` on sit in a second size guard; r9 (the packet base of the first guard) has been
            # used as an ordinary register in between
            case["second"] = {"G2": rng.choice([G - 4, G, G, G + 1, G + 8]), "at": rng.randrange(len(stmts) + 1), "junk": rng.choice([0, 0x1234, -1])}
        return case

    def gen_cases(self):
        cases = [self.make_case(self.rng) for _ in range(500 if self.tier == "quick" else 8000)]
        # directed, on their own stream: after the usual statements a packet ELEMENT at a run-time offset (`pH[r3 + 8]`) is combined with
        # another register, the result going to the index register itself or to a third one, and stored in a local variable.  These
        # cases are decided by the struct oracle only (Gen/Packet.v has no indexed reads)
        import random
        rng = random.Random(self.seed + 707)
        for _ in range(30 if self.tier == "quick" else 400):
            c = self.make_case(rng)
            c.pop("reginit", None)
            c.pop("second", None)
            c["stmts"] = [s for s in c["stmts"] if s[2][0] != "r"]
            G = c["G"]
            letter = rng.choice("BHIQ" if G >= 16 else "BHI")
            n = dsl.fmt_size(letter)
            K = rng.choice([k for k in (0, 1, 8, G - n - 7) if 0 <= k <= G - n])
            I = rng.randint(0, min(7, G - n - K))
            c["decls"].append(("lq", "local", "Q"))
            c["values"]["lq"] = 0
            c["pm"] = {"letter": letter, "K": K, "I": I, "A": rng.choice([0, 1, 7, 0x1000, 2 ** 40 + 3]), "op": rng.choice(["+", "+", "|", "^"]),
                       "dst": rng.choice([3, 3, 3, 4]), "swap": rng.random() < 0.3}
            c["packet"] = bytes(rng.randrange(256) for _ in range(G + rng.choice([1, 2, 9]))).hex()
            cases.append(c)
        return cases

    def stmts(self, case):
        pre = [["set", ["r", "r", int(no)], ["c", v]] for no, v in sorted(case.get("reginit", {}).items())]
        return pre + self.stmts_(case)

    def stmts_(self, case):
        pm = case.get("pm")
        if pm:
            elem = ["pm", pm["letter"], 3, pm["K"]]
            expr = [pm["op"], elem, ["r", "r", 2]] if pm["swap"] else [pm["op"], ["r", "r", 2], elem]
            return ([["set", ["v", "ran"], ["c", 1]]] + case["stmts"]
                    + [["set", ["r", "r", 2], ["c", pm["A"]]], ["set", ["r", "r", 3], ["c", pm["I"]]],
                       ["set", ["r", "r", pm["dst"]], expr], ["set", ["v", "lq"], ["r", "r", pm["dst"]]]])
        sec = case.get("second")
        if sec:
            return ([["set", ["v", "ran"], ["c", 1]]] + case["stmts"][:sec["at"]]
                    + [["set", ["r", "r", 9], ["c", sec["junk"]]], ["guard", sec["G2"], case["stmts"][sec["at"]:]]])
        return [["set", ["v", "ran"], ["c", 1]]] + case["stmts"]

    def prepare(self, cases):
        for c in cases:
            c["packet"] = bytes.fromhex(c["packet"]) if isinstance(c["packet"], str) else c["packet"]
        return self.execute(cases)

    OPN = {"+": "OAdd", "-": "OSub", "|": "OOr", "&": "OAnd", "^": "OXor"}

    def cloc(self, case, name):
        storage, fmt, addr = case["_built"].layout[name]
        if storage == "packet":
            order = {"": 0, "<": 1, ">": 2, "!": 2}[fmt[:-1]]
            return f"(LPkt {cz(addr)} {{| pf_n := {cnat(dsl.fmt_size(fmt))}; pf_signed := {cbool(dsl.fmt_signed(fmt))}; pf_order := {order} |}})"
        return f"(LLoc {cz(case['_built'].stack_size + addr)} {cnat(dsl.fmt_size(fmt))} {cbool(dsl.fmt_signed(fmt))})"

    def cstmt(self, case, s):
        tgt = s[1][1]
        fmt = case["_built"].layout[tgt][1]
        if s[0] in ("iadd", "isub"):
            k = s[2][1] if s[0] == "iadd" else -s[2][1]
            if fmt in ("q", "Q", "i", "I"):
                return f"(SXadd {self.cloc(case, tgt)} {cz(k)})"
            return f"(SSet {self.cloc(case, tgt)} (POp {'OAdd' if s[0] == 'iadd' else 'OSub'} {self.cloc(case, tgt)} {cz(s[2][1])}))"
        e = s[2]
        if e[0] == "c":
            ce = f"(PConst {cz(int(e[1] // 1))})"
        elif e[0] == "r":
            # a register holds the constant it was loaded with: storing it is storing that constant
            ce = f"(PConst {cz(case['reginit'][e[2]] if e[2] in case['reginit'] else case['reginit'][str(e[2])])})"
        elif e[0] == "v":
            ce = f"(PLeaf {self.cloc(case, e[1])})"
        else:
            ce = f"(POp {self.OPN[e[0]]} {self.cloc(case, e[1][1])} {cz(e[2][1])})"
        return f"(SSet {self.cloc(case, tgt)} {ce})"

    def model_term(self, case):
        o = case.get("_o")
        if o is None or isinstance(o, Err) or case.get("pm"):
            return None
        sec = case.get("second")
        if sec:
            l1 = clist([self.cstmt(case, s) for s in [["set", ["v", "ran"], ["c", 1]]] + case["stmts"][:sec["at"]]])
            l2 = clist([self.cstmt(case, s) for s in case["stmts"][sec["at"]:]])
            return (f"(run2 {cz(case['G'])} {l1} {cz(sec['G2'])} {l2} {ebpf_exec.cbytes(case['packet'])} {ebpf_exec.cbytes(case['_init'][0])})")
        stmts = clist([self.cstmt(case, s) for s in self.stmts_(case)])
        return f"(run {cz(case['G'])} {stmts} {ebpf_exec.cbytes(case['packet'])} {ebpf_exec.cbytes(case['_init'][0])})"

    def model_value(self, case, o):
        return [list(bytes.fromhex(o["pkt"])), list(case["_stack"])]

    def run_impl(self, case):
        b = case["_built"]
        if b.error is not None:
            return Err(6, b.error)
        r = case["_run"]
        if r is None:
            return Err(9, "model evaluation failed")
        status, pkt, maps, stack, regs = r
        if status != [1]:
            return Err(7, f"program did not exit normally: status {status} (3,2 / 3,3 = access outside the packet)")
        pkt = bytes(b for b, n in pkt for _ in range(n))
        out = {"pkt": pkt.hex(), "r0": regs[0] % (1 << 32)}
        case["_stack"] = list(stack)
        for n, (storage, fmt, addr) in b.layout.items():
            if storage == "local":
                out[n] = read_var(n, b, stack, b"")
        case["_o"] = out
        return out

    # ---- the oracle: struct.pack / struct.unpack
    def expected(self, case):
        pkt = bytearray(case["packet"])
        fm = {n: f for n, s, f in case["decls"]}
        loc = dict(case["values"])
        loc["ran"] = 1

        def pget(name):
            p, fmt = fm[name]
            return struct.unpack_from(fmt, pkt, p)[0]

        def pset(name, v):
            p, fmt = fm[name]
            n = dsl.fmt_size(fmt)
            v = wrap(fmt[-1], v)
            struct.pack_into(fmt, pkt, p, v)

        def ev(x):
            if x[0] == "c":
                return int(x[1] // 1)
            if x[0] == "r":
                ri = case["reginit"]
                return ri[x[2]] if x[2] in ri else ri[str(x[2])]
            if x[0] == "v":
                return pget(x[1]) if isinstance(fm[x[1]], tuple) else loc[x[1]]
            a, b = ev(x[1]), ev(x[2])
            return {"+": a + b, "-": a - b, "|": a | b, "&": a & b, "^": a ^ b}[x[0]]
        sec = case.get("second")
        todo = case["stmts"] if not sec or len(case["packet"]) > sec["G2"] else case["stmts"][:sec["at"]]
        for s in todo:
            tgt = s[1][1]
            if s[0] == "set":
                v = ev(s[2])
            elif s[0] == "iadd":
                v = ev(["v", tgt]) + ev(s[2])
            else:
                v = ev(["v", tgt]) - ev(s[2])
            if isinstance(fm[tgt], tuple):
                pset(tgt, v)
            else:
                loc[tgt] = wrap(fm[tgt], v)
        pm = case.get("pm")
        if pm:
            el = struct.unpack_from("<" + pm["letter"], pkt, pm["I"] + pm["K"])[0]
            a = pm["A"]
            loc["lq"] = {"+": a + el, "|": a | el, "^": a ^ el}[pm["op"]] % (1 << 64)
        return bytes(pkt), loc

    def holds(self, case, o):
        G, L = case["G"], len(case["packet"])
        need = max(f[0] + dsl.fmt_size(f[1]) for n, s, f in case["decls"] if s == "packet")
        if isinstance(o, Err):
            if o.code == 6:
                return f"generator refused a well-typed program: {o.what}"
            return f"{o.what}; G={G} len={L} stmts={case['stmts']} decls={case['decls']}"
        ran = o["ran"] == 1
        if L > G and not ran:
            return f"packet of {L} bytes is longer than the minimum size {G} but the body did not run"
        if L < need and ran:
            return f"body ran on a packet of {L} bytes, its accesses need {need}"
        if o["r0"] != 2:
            return f"exit code {o['r0']} instead of the default XDP_PASS"
        if not ran:
            if bytes.fromhex(o["pkt"]) != case["packet"]:
                return "packet changed although the body did not run"
            return True
        pkt, loc = self.expected(case)
        if bytes.fromhex(o["pkt"]) != pkt:
            return (f"packet bytes differ from struct.pack: got {o['pkt']} expected {pkt.hex()} from {case['packet'].hex()}; "
                    f"decls={case['decls']} stmts={case['stmts']} values={case['values']}")
        for n, v in loc.items():
            if o[n] != v:
                return (f"local {n} is {o[n]}, struct.unpack semantics give {v}; packet {case['packet'].hex()} decls={case['decls']} "
                        f"stmts={case['stmts']} values={case['values']}")
        return True

    def nontrivial(self, case, o):
        return not isinstance(o, Err) and o["ran"] == 1

    def extra_checks(self):
        return [isa_check.check(self.seed + 2, 60 if self.tier == "quick" else 400)]

    def rule(self):
        return ("XDP programs with minimumPacketSize G in {8..48}, 1-3 packet variables (formats BHIQbhiq with native, <, > and ! order) at offsets 0, G-n and random "
                "inside the guarded size (overlaps allowed), 1-5 statements: read into a local of any format, write a constant / a local, update with + - | & ^, "
                "in-place += / -=; 12%: the last statements sit in a second size guard (G-4, G, G+1, G+8) after r9 has been used as an ordinary register; packets of length G-2..G+2, G+9, need-1, need, 0, 64, 100 with random / extreme bytes")

    def distribution(self, cases, observed):
        d = {"ran": 0, "skipped": 0, "len_eq_G": 0, "explicit_order": 0, "signed_explicit": 0, "statements": 0}
        for c, o in zip(cases, observed):
            if not isinstance(o, Err):
                d["ran" if o["ran"] == 1 else "skipped"] += 1
            d["len_eq_G"] += len(c["packet"]) == c["G"]
            d["statements"] += len(c["stmts"])
            for n, s, f in c["decls"]:
                if s == "packet" and len(f[1]) > 1:
                    d["explicit_order"] += 1
                    d["signed_explicit"] += f[1][-1].islower()
        return d

    def describe(self, case):
        d = {k: v for k, v in case.items() if not k.startswith("_")}
        d["packet"] = case["packet"].hex() if isinstance(case["packet"], bytes) else case["packet"]
        d["decls"] = [list(x) for x in case["decls"]]
        return d

    def case_from_json(self, w):
        w["decls"] = [(n, s, tuple(f) if isinstance(f, list) else f) for n, s, f in w["decls"]]
        return w


CHECK = C07
