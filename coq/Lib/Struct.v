(* Python's struct module for the standard-size little-endian ("<") formats
   ebpfcat uses: integers of 1/2/4/8 bytes (signed or not), pad bytes and
   fixed-size byte strings.  Out-of-range values and wrong argument counts are
   struct.error (None). *)
From Verif Require Export Lib.Bytes.

Inductive fitem := FInt (size : nat) (signed : bool) | FPad | FStr (n : nat).
Definition fmt := list fitem.
Inductive sval := SInt (z : Z) | SBytes (l : list Z).

Definition isize (it : fitem) : nat :=
  match it with FInt n _ => n | FPad => 1%nat | FStr n => n end.
Fixpoint calcsize (f : fmt) : nat :=
  match f with [] => O | it :: tl => (isize it + calcsize tl)%nat end.

Definition in_range (n : nat) (signed : bool) (z : Z) : bool :=
  if signed then (- 2 ^ (8 * Z.of_nat n - 1) <=? z) && (z <? 2 ^ (8 * Z.of_nat n - 1))
  else (0 <=? z) && (z <? 2 ^ (8 * Z.of_nat n)).

Definition fit_str (n : nat) (l : list Z) : list Z := firstn n (l ++ zeros n).

Fixpoint pack (f : fmt) (vs : list sval) : option (list Z) :=
  match f, vs with
  | [], [] => Some []
  | FPad :: tl, _ => option_map (cons 0) (pack tl vs)
  | FInt n s :: tl, SInt z :: vs' =>
      if in_range n s z then option_map (app (le_bytes n z)) (pack tl vs') else None
  | FStr n :: tl, SBytes l :: vs' => option_map (app (fit_str n l)) (pack tl vs')
  | _, _ => None
  end.

Definition decode_int (n : nat) (signed : bool) (l : list Z) : Z :=
  if signed then sx n (le_val l) else le_val l.

(* unpack requires len(bytes) = calcsize *)
Fixpoint unpack (f : fmt) (b : list Z) : option (list sval) :=
  match f with
  | [] => match b with [] => Some [] | _ => None end
  | it :: tl =>
      let n := isize it in
      if (length b <? n)%nat then None else
      match unpack tl (skipn n b) with
      | None => None
      | Some vs =>
          Some match it with
               | FPad => vs
               | FInt _ s => SInt (decode_int n s (firstn n b)) :: vs
               | FStr _ => SBytes (firstn n b) :: vs
               end
      end
  end.

(* values for which struct round-trips (strings exactly of the declared size,
   made of bytes) *)
Fixpoint vals_ok (f : fmt) (vs : list sval) : Prop :=
  match f, vs with
  | [], [] => True
  | FPad :: tl, _ => vals_ok tl vs
  | FInt n s :: tl, SInt z :: vs' => vals_ok tl vs'
  | FStr n :: tl, SBytes l :: vs' => length l = n /\ Forall is_byte l /\ vals_ok tl vs'
  | _, _ => False
  end.

(* the all-zero bytes decode to these *)
Fixpoint zero_vals (f : fmt) : list sval :=
  match f with
  | [] => []
  | FPad :: tl => zero_vals tl
  | FInt _ _ :: tl => SInt 0 :: zero_vals tl
  | FStr n :: tl => SBytes (zeros n) :: zero_vals tl
  end.
