"""A register-level EtherCAT segment for the correspondence checks.

Only the *environment* of the code under test lives here: frames handed to
`transport.sendto` are processed datagram by datagram in ring order, exactly
as ETG.1000.4 prescribes (auto-increment / configured-address / broadcast /
logical addressing, working-counter rules), against simulated SubDevices with
ESC registers.  EtherCat.roundtrip, sendloop, process_packet, Terminal.* are
the real ones.
"""
import asyncio
import struct

NOP, APRD, APWR, APRW, FPRD, FPWR, FPRW, BRD, BWR, BRW, LRD, LWR, LRW, ARMW, FRMW = range(15)


class SimTerminal:
    """one SubDevice: 64 KiB of ESC address space plus behaviours"""

    def __init__(self, station=0, fmmus=4, eeprom=None, eeprom8=True, al_delay=0,
                 busy_polls=0, rng=None):
        self.mem = bytearray(0x10000)
        self.station = station
        self.mem[4] = fmmus
        self.al_state = 1          # INIT
        self.al_error = False
        self.al_pending = None     # (state, polls left)
        self.al_delay = al_delay
        self.al_error_at = None    # raise the error flag when this many status polls were answered
        self.al_polls = 0
        self.al_writes = []        # history of AL control writes
        self.refuse_state = None   # a requested state the terminal answers with an error
        self.eeprom = eeprom or bytes(0x100)
        self.eeprom8 = eeprom8
        self.busy_polls = busy_polls
        self.ee_busy = 0
        self.ee_log = []
        self.mailbox = None        # set by harness: object with .receive(bytes) -> None and .pending list
        self.mbx_in_full = False
        self.writes = []           # (ado, bytes) of every register write, in order
        self.rng = rng

    # -- station address register 0x10
    @property
    def station(self):
        return self.mem[0x10] | self.mem[0x11] << 8

    @station.setter
    def station(self, v):
        self.mem[0x10:0x12] = struct.pack("<H", v)

    # -- reads
    def read(self, ado, n):
        if ado <= 0x131 and ado + n > 0x130:
            self._refresh_al()
        if ado <= 0x50f and ado + n > 0x502:
            self._refresh_eeprom()
        if ado <= 0x80f and ado + n > 0x800:
            self._refresh_sm()
        data = bytes(self.mem[ado:ado + n])
        if self.mailbox is not None:
            self.mailbox.after_read(self, ado, n)
        return data

    def _refresh_al(self):
        self.al_polls += 1
        if self.al_pending is not None:
            st, left = self.al_pending
            if left <= 0:
                self.al_state, self.al_pending = st, None
            else:
                self.al_pending = (st, left - 1)
        if self.al_error_at is not None and self.al_polls >= self.al_error_at:
            self.al_error = True
        word = self.al_state | (0x10 if self.al_error else 0)
        self.mem[0x130:0x132] = struct.pack("<H", word)
        self.mem[0x134:0x136] = struct.pack("<H", 0x1d if self.al_error else 0)

    def _refresh_eeprom(self):
        busy = 0
        if self.ee_busy > 0:
            self.ee_busy -= 1
            busy = 0x8000
        elif getattr(self, "ee_pending", None) is not None:
            self.mem[0x508:0x508 + 8] = self.ee_pending
            self.ee_pending = None
        word = busy | (0x40 if self.eeprom8 else 0)
        self.mem[0x502:0x504] = struct.pack("<H", word)

    def _refresh_sm(self):
        # SM0 status (0x805) bit 3: write mailbox full; SM1 status (0x80D) bit 3: read mailbox full
        if self.mailbox is not None:
            self.mailbox.refresh_status(self)

    # -- writes
    def write(self, ado, data):
        self.writes.append((ado, bytes(data)))
        self.mem[ado:ado + len(data)] = data
        end = ado + len(data)
        if ado <= 0x120 < end:
            self._al_control()
        if ado <= 0x502 < end:
            self._eeprom_control()
        if self.mailbox is not None:
            self.mailbox.after_write(self, ado, len(data))

    def _al_control(self):
        word = self.mem[0x120] | self.mem[0x121] << 8
        self.al_writes.append(word)
        req = word & 0xf
        if word & 0x10:
            self.al_error = False
            self.al_error_at = None
        if req == self.refuse_state:
            self.al_error = True
            return
        self.al_pending = (req, self.al_delay)
        if self.al_delay == 0:
            self.al_state, self.al_pending = req, None

    def _eeprom_control(self):
        ctl = self.mem[0x502] | self.mem[0x503] << 8
        addr, = struct.unpack_from("<I", self.mem, 0x504)
        if ctl & 0x100:       # read
            self.ee_log.append(addr)
            n = 8 if self.eeprom8 else 4
            chunk = self.eeprom[addr * 2:addr * 2 + n]
            chunk = chunk + bytes([0xff]) * (n - len(chunk))
            # the data register shows the new data only once the busy flag has cleared (until then: the stale contents)
            self.ee_pending = chunk + bytes(8 - n) if not self.eeprom8 else chunk
            self.ee_busy = self.busy_polls if self.rng is None else self.rng.randint(0, self.busy_polls)
            if self.ee_busy == 0:
                self.mem[0x508:0x508 + 8] = self.ee_pending
                self.ee_pending = None

    # -- FMMU lookup: list of (logical, length, phys, type) for active entries
    def fmmus(self):
        out = []
        for i in range(self.mem[4]):
            base = 0x600 + 0x10 * i
            logical, length, sbit, ebit, phys, pbit, typ, act = struct.unpack_from("<IHBBHBBB", self.mem, base)
            if act & 1:
                out.append((logical, length, phys, typ))
        return out


class SimBus:
    """the segment: ring of terminals + the wire"""

    def __init__(self, terminals):
        self.terminals = terminals
        self.frames = []          # every frame put on the wire (bytes)
        self.log = []             # (cmd, adp, ado, len, wkc_out)

    def process(self, frame):
        f = bytearray(frame)
        hdr = f[0] | f[1] << 8
        end = 2 + (hdr & 0x7ff)
        pos = 2
        while pos + 12 <= end:
            cmd, idx, adp, ado, lf, irq = struct.unpack_from("<BBHHHH", f, pos)
            n, more = lf & 0x7ff, lf >> 15
            dstart = pos + 10
            data = f[dstart:dstart + n]
            wkc, = struct.unpack_from("<H", f, dstart + n)
            laddr = adp | ado << 16
            for t in self.terminals:
                if cmd in (APRD, APWR, APRW):
                    if adp == 0:
                        wkc += self._rw(t, cmd - APRD, ado, data)
                    adp = (adp + 1) & 0xffff
                elif cmd in (FPRD, FPWR, FPRW):
                    if t.station == adp:
                        wkc += self._rw(t, cmd - FPRD, ado, data)
                elif cmd in (BRD, BWR, BRW):
                    if cmd == BRD or cmd == BRW:
                        got = t.read(ado, n)
                        for i in range(n):
                            data[i] |= got[i]
                        wkc += 1
                    if cmd == BWR or cmd == BRW:
                        t.write(ado, bytes(data))
                        wkc += 1
                    adp = (adp + 1) & 0xffff
                elif cmd in (LRD, LWR, LRW):
                    for logical, length, phys, typ in t.fmmus():
                        lo, hi = max(logical, laddr), min(logical + length, laddr + n)
                        if lo >= hi:
                            continue
                        if cmd in (LRD, LRW) and typ & 1:
                            data[lo - laddr:hi - laddr] = t.read(phys + lo - logical, hi - lo)
                            wkc += 1
                        if cmd in (LWR, LRW) and typ & 2:
                            t.write(phys + lo - logical, bytes(data[lo - laddr:hi - laddr]))
                            wkc += 1 if cmd == LWR else 2
            if cmd in (APRD, APWR, APRW, BRD, BWR, BRW):
                struct.pack_into("<H", f, pos + 2, adp)
            f[dstart:dstart + n] = data
            struct.pack_into("<H", f, dstart + n, wkc & 0xffff)
            self.log.append((cmd, adp, ado, n, wkc))
            pos = dstart + n + 2
            if not more:
                break
        return bytes(f)

    @staticmethod
    def _rw(t, kind, ado, data):
        """kind 0 read, 1 write, 2 read-write; returns wkc increment"""
        inc = 0
        n = len(data)
        if kind in (0, 2):
            data[:] = t.read(ado, n)
            inc += 1
        if kind in (1, 2):
            t.write(ado, bytes(data))
            inc += 1 if kind == 1 else 2
        return inc


class SimTransport:
    """stands in for the AF_PACKET datagram transport of EtherCat"""

    def __init__(self, ec, bus, deliver=None):
        self.ec, self.bus = ec, bus
        self.deliver = deliver      # callable(frame_no, request, response) -> list of responses to deliver (default: one)
        self.sent = []

    def sendto(self, frame, addr=None):
        frame = bytes(frame)
        self.sent.append(frame)
        resp = self.bus.process(frame)
        outs = [resp] if self.deliver is None else self.deliver(len(self.sent) - 1, frame, resp)
        loop = asyncio.get_event_loop()
        for r in outs:
            loop.call_soon(self.ec.datagram_received, r, addr)


def attach(ec, bus, deliver=None):
    """what connection_made does, without a socket"""
    ec.send_queue = asyncio.Queue()
    ec.transport = SimTransport(ec, bus, deliver)
    ec._sendloop_task = asyncio.ensure_future(ec.sendloop())
    return ec.transport
