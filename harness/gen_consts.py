"""Tie G1: read literal constants (and tiny integer expressions) out of
/repo's sources with `ast` and write them to coq/Generated/Consts.v.

Fail-closed: anything that is not found, or is not a plain integer literal /
tuple of integer literals / simple arithmetic over them, raises."""
import ast
import os


class ConstError(Exception):
    pass


def _eval(node, env):
    if isinstance(node, ast.Constant) and isinstance(node.value, int) and not isinstance(node.value, bool):
        return node.value
    if isinstance(node, ast.Constant) and isinstance(node.value, bool):
        return int(node.value)
    if isinstance(node, ast.Tuple):
        return tuple(_eval(e, env) for e in node.elts)
    if isinstance(node, ast.Name) and node.id in env:
        return env[node.id]
    if isinstance(node, ast.UnaryOp) and isinstance(node.op, ast.USub):
        return -_eval(node.operand, env)
    if isinstance(node, ast.BinOp):
        a, b = _eval(node.left, env), _eval(node.right, env)
        ops = {ast.Add: lambda: a + b, ast.Sub: lambda: a - b, ast.Mult: lambda: a * b,
               ast.LShift: lambda: a << b, ast.BitOr: lambda: a | b, ast.BitAnd: lambda: a & b,
               ast.FloorDiv: lambda: a // b}
        for k, f in ops.items():
            if isinstance(node.op, k):
                return f()
    raise ConstError(f"unsupported constant expression: {ast.dump(node)[:200]}")


class Module:
    def __init__(self, repo, rel):
        self.path = os.path.join(repo, rel)
        self.src = open(self.path).read()
        self.tree = ast.parse(self.src)

    def klass(self, name):
        for n in ast.walk(self.tree):
            if isinstance(n, ast.ClassDef) and n.name == name:
                return n
        raise ConstError(f"class {name} not found in {self.path}")

    def func(self, cls, name):
        body = self.klass(cls).body if cls else self.tree.body
        for n in body:
            if isinstance(n, (ast.FunctionDef, ast.AsyncFunctionDef)) and n.name == name:
                return n
        raise ConstError(f"function {cls}.{name} not found in {self.path}")

    def class_consts(self, cls):
        env = {}
        for n in self.klass(cls).body:
            if isinstance(n, ast.Assign) and len(n.targets) == 1 and isinstance(n.targets[0], ast.Name):
                try:
                    env[n.targets[0].id] = _eval(n.value, env)
                except ConstError:
                    pass
        return env

    def class_const(self, cls, name):
        env = self.class_consts(cls)
        if name not in env:
            raise ConstError(f"{cls}.{name} is not a literal integer constant in {self.path}")
        return env[name]

    def enum(self, cls):
        env = self.class_consts(cls)
        if not env:
            raise ConstError(f"enum {cls} has no literal members")
        return env

    def segment(self, node):
        return ast.get_source_segment(self.src, node)


def find_compare_const(fn, left_pred, op_type):
    """the integer literal c in the (unique) comparison `<left> <op> c` inside fn"""
    hits = []
    for n in ast.walk(fn):
        if isinstance(n, ast.Compare) and len(n.ops) == 1 and isinstance(n.ops[0], op_type) \
                and left_pred(n.left) and isinstance(n.comparators[0], ast.Constant) \
                and isinstance(n.comparators[0].value, int):
            hits.append(n.comparators[0].value)
    if len(hits) != 1:
        raise ConstError(f"expected exactly one matching comparison in {fn.name}, found {hits}")
    return hits[0]


def is_len_self_data(n):
    return (isinstance(n, ast.Call) and isinstance(n.func, ast.Name) and n.func.id == "len"
            and len(n.args) == 1 and isinstance(n.args[0], ast.Attribute)
            and n.args[0].attr == "data")


def generate(repo, outdir):
    from .common import write_if_changed
    ec = Module(repo, "ebpfcat/ethercat.py")
    cat = Module(repo, "ebpfcat/ebpfcat.py")
    lock = Module(repo, "ebpfcat/lock.py")
    c = {}
    for k in ("MAXSIZE", "ETHERNET_HEADER", "PACKET_HEADER", "PACKET_INDEX",
              "DATAGRAM_HEADER", "DATAGRAM_TAIL"):
        c["Packet_" + k] = ec.class_const("Packet", k)
    c["Packet_append_maxcount"] = find_compare_const(ec.func("Packet", "append"), is_len_self_data, ast.Gt)
    c["Packet_full_maxcount"] = find_compare_const(ec.func("Packet", "full"), is_len_self_data, ast.Gt)
    # minimum Ethernet payload in assemble: `if self.size < 46`
    c["Packet_minpayload"] = find_compare_const(
        ec.func("Packet", "assemble"),
        lambda n: isinstance(n, ast.Attribute) and n.attr == "size", ast.Lt)
    rng = ec.class_const("EtherCat", "terminal_addr_range")
    c["addr_range_lo"], c["addr_range_hi"] = rng
    for name, val in ec.enum("ECCmd").items():
        c["ECCmd_" + name] = val
    for name, val in ec.enum("MachineState").items():
        c["MachineState_" + name] = val
    c["SterilePacket_logical_addr_inc"] = cat.class_const("SterilePacket", "logical_addr_inc")
    c["FastEtherCat_MAX_PROGS"] = cat.class_const("FastEtherCat", "MAX_PROGS")
    c["EtherXDP_INDEX0"] = cat.class_const("EtherXDP", "INDEX0")
    c["EtherXDP_minimumPacketSize"] = cat.class_const("EtherXDP", "minimumPacketSize")
    # EtherCat.get_fmmu_addr: self.next_logical_addr += <stride>
    incs = [n for n in ast.walk(ec.func("EtherCat", "get_fmmu_addr")) if isinstance(n, ast.AugAssign)]
    if len(incs) != 1 or not isinstance(incs[0].op, ast.Add):
        raise ConstError("EtherCat.get_fmmu_addr is not a single += of a constant")
    c["EtherCat_fmmu_stride"] = _eval(incs[0].value, {})
    c["SyncManager_OUT"] = ec.enum("SyncManager")["OUT"]
    c["SyncManager_IN"] = ec.enum("SyncManager")["IN"]
    lines = ["(* GENERATED from /repo by harness/gen_consts.py on every run - do not edit *)",
             "From Coq Require Import ZArith.", "Open Scope Z_scope.", ""]
    for k in sorted(c):
        v = c[k]
        lines.append(f"Definition {k} : Z := {'(%d)' % v if v < 0 else v}.")
    # order of list(MachineState) as Python's Enum iteration gives it (definition order)
    order = [n.targets[0].id for n in ec.klass("MachineState").body
             if isinstance(n, ast.Assign) and isinstance(n.targets[0], ast.Name)]
    lines.append("Definition MachineState_order : list Z := (" +
                 " :: ".join(f"MachineState_{n}" for n in order) + " :: nil)%list.")
    text = "\n".join(lines) + "\n"
    write_if_changed(os.path.join(outdir, "Consts.v"), text)
    return {"Consts.v": len(c)}
