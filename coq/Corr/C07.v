From Verif Require Import Lib.Base Gen.Denote Gen.Packet.
(* straight-line packet programs: state = (packet, the bytes of the local variables) *)
Inductive loc := LPkt (p : Z) (f : pfmt) | LLoc (pos : Z) (n : nat) (sg : bool).
Inductive pexp := PLeaf (l : loc) | PConst (c : Z) | POp (op : binop) (l : loc) (c : Z).
Inductive stmt := SSet (tgt : loc) (e : pexp) | SXadd (tgt : loc) (c : Z).

Definition state := (list Z * list Z)%type.
Definition rd (st : state) (l : loc) : option expr :=
  match l with
  | LPkt p f => option_map (read_expr f) (read_bytes (fst st) p (pf_n f))
  | LLoc pos n sg => option_map (fun bs => EVar (le_val bs) n sg) (read_bytes (snd st) pos n)
  end.
Definition lsize (l : loc) : nat := match l with LPkt _ f => pf_n f | LLoc _ n _ => n end.
Definition wr (st : state) (l : loc) (v : Z) : option state :=
  match l with
  | LPkt p f => option_map (fun pk => (pk, snd st)) (pkt_write f (fst st) p v)
  | LLoc pos n _ => option_map (fun s => (fst st, s)) (write_bytes (snd st) pos (le_bytes n v))
  end.
Definition ev (st : state) (e : pexp) : option expr :=
  match e with
  | PLeaf l => rd st l
  | PConst c => Some (EConst c)
  | POp op l c => option_map (fun x => EBin op x (EConst c)) (rd st l)
  end.
Definition exec_stmt (st : state) (s : stmt) : option state :=
  match s with
  | SSet tgt e => match ev st e with Some x => wr st tgt (stored x (lsize tgt)) | None => None end
  | SXadd tgt c =>      (* atomic add: no byte order, no sign *)
      match tgt with
      | LPkt p f => match read_bytes (fst st) p (pf_n f) with
                    | Some bs => option_map (fun pk => (pk, snd st)) (write_bytes (fst st) p (le_bytes (pf_n f) (le_val bs + c)))
                    | None => None end
      | LLoc pos n _ => match read_bytes (snd st) pos n with
                    | Some bs => option_map (fun s => (fst st, s)) (write_bytes (snd st) pos (le_bytes n (le_val bs + c)))
                    | None => None end
      end
  end.
Fixpoint exec_stmts (st : state) (l : list stmt) : option state :=
  match l with
  | [] => Some st
  | s :: tl => match exec_stmt st s with Some st' => exec_stmts st' tl | None => None end
  end.
Definition run (G : Z) (l : list stmt) (pk stk : list Z) : V :=
  if guard_passes G (zlen pk) then
    match exec_stmts (pk, stk) l with
    | Some st => VL [VB (fst st); VB (snd st)]
    | None => VZ (-1)
    end
  else VL [VB pk; VB stk].

(* a second size guard inside the body (the generated code establishes the packet base anew for it) *)
Definition run2 (G : Z) (l1 : list stmt) (G2 : Z) (l2 : list stmt) (pk stk : list Z) : V :=
  if guard_passes G (zlen pk) then
    match exec_stmts (pk, stk) l1 with
    | Some st =>
        if guard_passes G2 (zlen pk) then
          match exec_stmts st l2 with
          | Some st' => VL [VB (fst st'); VB (snd st')]
          | None => VZ (-1)
          end
        else VL [VB (fst st); VB (snd st)]
    | None => VZ (-1)
    end
  else VL [VB pk; VB stk].
