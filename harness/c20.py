"""C20: Terminal.map_fmmu slot allocation under overlapping mappings."""
import asyncio
import itertools

from .common import Check, Err, cbool, clist, cnat, cz


class C20(Check):
    pid = "C20"
    props_file = "Props/C20.v"
    corr_imports = ["Ecat.Fmmu", "Ecat.FmmuGroup", "Corr.C20"]
    technique = "Coq proof (invariant over all map/unmap sequences, induction on the operation list) + differential correspondence with Terminal.map_fmmu"
    trusted = ["Python list slicing/index/negative-index semantics as modelled in Ecat/Fmmu.v (exercised by the correspondence)"]
    assumptions = ["the register writes inside map_fmmu succeed (failure/cancellation paths are covered by C24)",
                   "code between two awaits is atomic (asyncio): choosing and booking a slot are one step of the model"]

    # case: {"n": fmmus, "ops": [("map", write, logical) | ("unmap", k)]}
    def corpus(self):
        return [
            {"n": 4, "ops": [("map", False, 100), ("map", True, 200), ("map", True, 300), ("map", True, 400)]},
            {"n": 2, "ops": [("map", True, 1), ("map", True, 2), ("map", True, 3), ("unmap", 0), ("map", False, 4)]},
            {"n": 1, "ops": [("map", True, 1), ("map", False, 2), ("unmap", 0), ("map", False, 3)]},
            {"n": 3, "ops": [("map", True, 4096), ("map", False, 6144), ("map", True, 8192), ("unmap", 0), ("map", True, 12288)]},
            {"n": 0, "ops": [("map", True, 1), ("map", False, 1)]},
            {"n": 3, "ops": [("map", False, 0), ("map", False, 0x1000), ("unmap", 0), ("map", False, 0)]},
            {"n": 2, "ops": [("map", True, 0), ("map", True, 0), ("map", True, 0), ("map", False, 0)]},
        ]

    def gen_cases(self):
        rng = self.rng
        out = []
        if self.tier == "thorough":
            # exhaustive: all op sequences of length <= 5 over n in 1..4
            alphabet = [("map", True), ("map", False), ("unmap", 0), ("unmap", 1), ("unmap", 2)]
            for n in range(1, 5):
                for L in range(1, 6):
                    for seq in itertools.product(alphabet, repeat=L):
                        ops = [(o[0], o[1], 0x1000 * i) if o[0] == "map" else o for i, o in enumerate(seq)]
                        out.append({"n": n, "ops": ops})
        for _ in range(400 if self.tier == "quick" else 3000):
            n = rng.choice([1, 2, 2, 3, 3, 4, 4, 4])
            ops, live = [], 0
            for i in range(rng.randint(1, 12)):
                if live and rng.random() < 0.4:
                    ops.append(("unmap", rng.randrange(live + (rng.random() < 0.1))))
                    live = max(0, live - 1)
                else:
                    # logical address 0 is valid (and falsy in Python): keep it frequent
                    ops.append(("map", rng.random() < 0.5, rng.choice([0, 0, 0x1000 * (i + 1) + rng.randrange(16)])))
                    live += 1
            out.append({"n": n, "ops": ops})
        # mappings made by concurrent tasks: every bus write of map_fmmu takes as long as the script says
        for _ in range(150 if self.tier == "quick" else 2000):
            out.append(self.conc_case(rng))
        import random
        rng = random.Random(self.seed + 20)      # its own stream: the cases above stay what they were
        for _ in range(80 if self.tier == "quick" else 800):
            # while mappings are alive the terminal is brought to a state again (a second sync group does that right after its own
            # mapping) - with and without an error flag to acknowledge: the bookings of the live mappings stay what they are
            n = rng.choice([1, 2, 3, 4, 4])
            ops, live = [], 0
            for i in range(rng.randint(2, 10)):
                r = rng.random()
                if r < 0.08:
                    # a second look at the terminal that somebody else has set up (the documented way for parallel users)
                    ops.append(("toop", 0, rng.choice([2, 4, 8])))
                elif r < 0.25:
                    ops.append(("toop", rng.choice([2, 4, 8]), rng.choice([0x12, 0x14, 0x18, 0x11, 2, 4, 8, 1])))
                elif live and r < 0.5:
                    ops.append(("unmap", rng.randrange(live)))
                    live -= 1
                else:
                    ops.append(("map", rng.random() < 0.5, rng.choice([0, 0x1000 * (i + 1) + rng.randrange(16)])))
                    live += 1
            out.append({"n": n, "ops": ops})
        for _ in range(80 if self.tier == "quick" else 800):
            # several sync GROUPS share one terminal: each maps its output and / or input image in one go (SyncGroupBase.map_fmmu) and is
            # refused as a whole when the terminal has no FMMU left - which must not touch the bookings of the groups that are running
            n = rng.choice([1, 2, 2, 3, 4])
            script, live, g = [], [], 0
            for i in range(rng.randint(2, 9)):
                if live and rng.random() < 0.35:
                    script.append(("gunmap", live.pop(rng.randrange(len(live)))))
                else:
                    out_, in_ = rng.choice([(True, True), (True, True), (True, False), (False, True)])
                    script.append(("gmap", g, out_, in_, 0x1000 * (g + 1)))
                    live.append(g)
                    g += 1
            out.append({"n": n, "kind": "groups", "script": script, "ops": []})
        return out

    def run_groups(self, case):
        from ebpfcat.ebpfcat import SyncGroupBase
        from ebpfcat.ethercat import Terminal, SyncManager
        writes = []

        class FakeEc:
            async def roundtrip(self, cmd, pos, offset, *args, data=None, idx=0):
                writes.append((cmd.name, offset, args))
                return ()

        async def go():
            t = Terminal(FakeEc())
            t.position = 1001
            t.name = "T1001"
            t.fmmu_used = [None] * case["n"]
            t.pdo_out_off, t.pdo_out_sz, t.pdo_in_off, t.pdo_in_sz = 0x1100, 4, 0x1180, 6
            cms, res = {}, []
            for op in case["script"]:
                writes.clear()
                if op[0] == "gmap":
                    _, g, out_, in_, base = op
                    sg = SyncGroupBase.__new__(SyncGroupBase)
                    sg.fmmu_maps = {t: {**({SyncManager.OUT: base + 0x800} if out_ else {}), **({SyncManager.IN: base} if in_ else {})}}
                    cm = sg.map_fmmu()
                    try:
                        await cm.__aenter__()
                        cms[g] = cm
                        r = "mapped"
                    except ValueError:
                        r = "refused"
                else:
                    cm = cms.pop(op[1], None)
                    if cm is not None:
                        await cm.__aexit__(None, None, None)
                    r = "unmapped"
                slots = [(w[1] - 0x600) // 16 for w in writes if w[0] == "FPWR" and 0x600 <= w[1] < 0x700 and w[1] % 16 == 0]
                res.append([r, list(t.fmmu_used), slots])
            return res
        return asyncio.run(go())

    def holds_groups(self, case, o):
        n = case["n"]
        held = {}          # group -> {slot: logical address}
        for op, (r, table, slots) in zip(case["script"], o):
            if op[0] == "gmap":
                _, g, out_, in_, base = op
                want = ([base + 0x800] if out_ else []) + ([base] if in_ else [])
                free = n - sum(len(v) for v in held.values())
                if r == "mapped":
                    if len(want) > free:
                        return f"group {g} needing {len(want)} FMMUs was accepted with {free} free ones; {case['script']}"
                    taken = {s_ for v in held.values() for s_ in v}
                    mine = [s_ for s_ in slots if table[s_] in want]
                    if any(s_ in taken for s_ in mine):
                        return (f"group {g} was given FMMU {[s_ for s_ in mine if s_ in taken]} of this terminal, which a running group still uses "
                                f"(bookings {table}); {case['script']}")
                    held[g] = {s_: table[s_] for s_ in range(n) if table[s_] in want and s_ not in taken}
                # (a refusal with free FMMUs left is possible: the slot search of an output / input mapping does not cover all of them -
                # that rule is the terminal-level model's, checked by the other families)
            else:
                held.pop(op[1], None)
            expect = [None] * n
            for v in held.values():
                for s_, a in v.items():
                    expect[s_] = a
            if table != expect:
                return f"after {op} the terminal's bookings are {table}, the running groups hold {expect}; {case['script']}"
        return True

    @staticmethod
    def conc_case(rng):
        """script of ("begin", id, write, logical) / ("finish", id) / ("unbegin", id) / ("unfinish", id): a mapping task starts and runs to its first
        bus write; that write completes; the task starts to give the mapping up (second bus write); that write completes"""
        n = rng.choice([1, 2, 2, 3, 4])
        script, state, nid = [], {}, 0
        for _ in range(rng.randint(3, 16)):
            moves = [("new",)] if nid < 6 else []
            for i, stt in state.items():
                if stt == "begun":
                    moves += [("finish", i)] * 2
                elif stt == "mapped":
                    moves.append(("unbegin", i))
                elif stt == "unbegun":
                    moves += [("unfinish", i)] * 2
            m = rng.choice(moves + [("new",)] * (2 if nid < 6 else 0)) if moves else None
            if m is None:
                break
            if m[0] == "new":
                script.append(("begin", nid, rng.random() < 0.5, rng.choice([0, 0x1000 * (nid + 1), 0x1000 * (nid + 1) + 7])))
                state[nid] = "begun"
                nid += 1
            else:
                script.append(m)
                state[m[1]] = {"finish": "mapped", "unbegin": "unbegun", "unfinish": "done"}[m[0]]
        return {"n": n, "kind": "conc", "script": script, "ops": []}

    def run_conc(self, case):
        from ebpfcat.ethercat import Terminal
        gates, first_reg = {}, {}

        class FakeEc:
            async def roundtrip(self, cmd, pos, offset, *args, data=None, idx=0):
                me = asyncio.current_task().get_name()
                first_reg.setdefault(me, offset)
                fut = asyncio.get_event_loop().create_future()
                gates.setdefault(me, []).append(fut)
                await fut
                return ()

        async def go():
            t = Terminal(FakeEc())
            t.position = 1001
            t.fmmu_used = [None] * case["n"]
            t.pdo_out_off, t.pdo_out_sz, t.pdo_in_off, t.pdo_in_sz = 0x1100, 4, 0x1180, 6
            tasks, results, leave, rec_of, failed = {}, {}, {}, {}, set()
            mops, recs, live = [], [], []

            async def user(i, write, logical):
                cm = t.map_fmmu(logical, write)
                results[i] = await cm.__aenter__()
                await leave[i].wait()
                await cm.__aexit__(None, None, None)

            async def settle():
                for _ in range(4):
                    await asyncio.sleep(0)

            def release(i):
                g = gates.get(f"u{i}", [])
                for f in g:
                    if not f.done():
                        f.set_result(None)
                        return True
                return False
            for step in case["script"]:
                if step[0] == "begin":
                    _, i, write, logical = step
                    leave[i] = asyncio.Event()
                    tasks[i] = asyncio.ensure_future(user(i, write, logical))
                    tasks[i].set_name(f"u{i}")
                    await settle()
                    mops.append(("map", write, logical))
                    if tasks[i].done():
                        e = tasks[i].exception()
                        failed.add(i)
                        recs.append([Err(4, "no free fmmu") if isinstance(e, ValueError) else Err(5, f"{type(e).__name__}: {e}"), list(t.fmmu_used)])
                    else:
                        rec_of[i] = len(recs)
                        recs.append([None, list(t.fmmu_used)])
                        live.append(i)
                elif step[1] in failed:
                    continue
                elif step[0] == "finish":
                    release(step[1])
                    await settle()
                    recs[rec_of[step[1]]][0] = results.get(step[1], Err(5, "the mapping did not complete after its bus write"))
                elif step[0] == "unbegin":
                    leave[step[1]].set()
                    await settle()
                elif step[0] == "unfinish":
                    release(step[1])
                    await settle()
                    mops.append(("unmap", live.index(step[1])))
                    live.remove(step[1])
                    recs.append([0, list(t.fmmu_used)])
            # learn the slot of every mapping whose first write is still outstanding
            for i, k in rec_of.items():
                if recs[k][0] is None:
                    release(i)
                    await settle()
                    recs[k][0] = results.get(i, Err(5, "the mapping did not complete after its bus write"))
            for tk in tasks.values():
                tk.cancel()
            case["_regs"] = [(results[i], first_reg.get(f"u{i}")) for i in results]
            case["_mops"] = mops
            return recs
        return asyncio.run(go())

    def run_impl(self, case):
        if case.get("kind") == "groups":
            return self.run_groups(case)
        if case.get("kind") == "conc":
            return self.run_conc(case)
        from ebpfcat.ethercat import Terminal

        writes = []

        al = {"state": 2}

        class FakeEc:
            def get_mbx_lock(self, no):
                return None

            async def roundtrip(self, cmd, pos, offset, *args, data=None, idx=0):
                writes.append((cmd.name, offset, args))
                if offset == 0x130 and cmd.name == "FPRD":       # AL status (and status code) of a conformant terminal
                    return (al["state"], 0)
                if offset == 0x120 and cmd.name == "FPWR":
                    al["state"] = args[1] & 15                    # the acknowledge (0x11) clears the error flag
                if offset == 4 and cmd.name == "FPRD":
                    return (case["n"],)                            # the number of FMMUs the terminal has
                return ()

        if any(op[0] == "toop" for op in case["ops"]):
            case["_mops"] = [op for op in case["ops"] if op[0] != "toop"]

        async def go():
            from ebpfcat.ethercat import MachineState
            t = Terminal(FakeEc())
            t.position = 1001
            t.fmmu_used = [None] * case["n"]
            t.pdo_out_off, t.pdo_out_sz, t.pdo_in_off, t.pdo_in_sz = 0x1100, 4, 0x1180, 6
            live, res = [], []
            for op in case["ops"]:
                if op[0] == "toop":
                    al["state"] = op[2]
                    if op[1] == 0:
                        async def nothing(*a, **kw):
                            return None
                        t.read_eeprom = nothing
                        t.parse_sync_managers = lambda sm: None
                        await t.gentle_initialize(absolute=1001)
                    else:
                        await t.to_operational(MachineState(op[1]))
                    continue
                if op[0] == "map":
                    cm = t.map_fmmu(op[2], op[1])
                    writes.clear()
                    try:
                        idx = await cm.__aenter__()
                    except ValueError:
                        r = Err(4, "no free fmmu")
                    except IndexError:
                        r = Err(5, "index error")
                    else:
                        live.append(cm)
                        r = idx
                        reg = [w for w in writes if w[0] == "FPWR"]
                        case.setdefault("_regs", []).append((idx, reg[0][1] if reg else None))
                else:
                    if op[1] < len(live):
                        cm = live.pop(op[1])
                        await cm.__aexit__(None, None, None)
                    r = 0
                res.append([r, [x for x in t.fmmu_used]])
            return res
        return asyncio.run(go())

    def model_term(self, case):
        if case.get("kind") == "groups":
            opt = lambda v: f"(Some {cz(v)})" if v is not None else "None"      # noqa
            gops = [f"GMap {cnat(o[1])} {opt(o[4] + 0x800 if o[2] else None)} {opt(o[4] if o[3] else None)}" if o[0] == "gmap" else f"GUnmap {cnat(o[1])}"
                    for o in case["script"]]
            return f"(run_groups {cnat(case['n'])} {clist(gops)})"
        # concurrent tasks: the model sees a mapping when its task starts (slot choice and booking are one step) and an
        # unmapping when its last bus write has completed
        ops = [f"Map {cbool(o[1])} {cz(o[2])}" if o[0] == "map" else f"Unmap {cnat(o[1])}" for o in case.get("_mops", case["ops"])]
        return f"(run {cnat(case['n'])} {clist(ops)})"

    def model_value(self, case, o):
        if case.get("kind") == "groups" and not isinstance(o, Err):
            return [[{"mapped": 1, "refused": 0, "unmapped": 2}[r], table] for r, table, slots in o]
        return o

    def holds(self, case, o):
        if isinstance(o, Err):
            return f"harness error: {o.what}"
        if case.get("kind") == "groups":
            return self.holds_groups(case, o)
        n = case["n"]
        live = []   # (slot, logical)
        prev = [None] * n
        for op, (r, tbl) in zip(case.get("_mops", case["ops"]), o):
            if op[0] == "map":
                if isinstance(r, Err):
                    if r.code != 4:
                        return f"mapping failed with {r.what}"
                    if tbl != prev:
                        return "failed mapping changed the FMMU table"
                else:
                    if not (isinstance(r, int) and 0 <= r < n):
                        return f"mapping returned FMMU index {r} outside 0..{n - 1}"
                    if r in [s for s, _ in live]:
                        return f"FMMU {r} handed to a second live mapping (live: {live})"
                    live.append((r, op[2]))
                    exp = list(prev)
                    exp[r] = op[2]
                    if tbl != exp:
                        return f"table after mapping is {tbl}, expected {exp}"
            else:
                if op[1] < len(live):
                    s, _ = live.pop(op[1])
                    exp = list(prev)
                    exp[s] = None
                    if tbl != exp:
                        return f"unmapping FMMU {s} changed the table to {tbl}, expected {exp}"
            if len(set(s for s, _ in live)) != len(live):
                return "two live mappings share an FMMU"
            prev = tbl
        for idx, reg in case.get("_regs", []):
            if reg != 0x600 + 0x10 * idx:
                return f"FMMU {idx} configured at register {reg:#x}"
        return True

    def nontrivial(self, case, o):
        if case.get("kind") == "groups":
            return sum(1 for op in case["script"] if op[0] == "gmap") >= 2
        return sum(1 for op in case.get("_mops", case["ops"]) if op[0] == "map") >= 2

    def search_cases(self):
        out = []
        alphabet = [("map", True), ("map", False), ("unmap", 0), ("unmap", 1)]
        for n in range(1, 5):
            for L in range(1, 5):
                for seq in itertools.product(alphabet, repeat=L):
                    out.append({"n": n, "ops": [(o[0], o[1], 0x1000 * i) if o[0] == "map" else o for i, o in enumerate(seq)]})
        return out

    def rule(self):
        return ("map(write/read)/unmap(k-th live) sequences of length 1-12 on terminals with 1-4 FMMUs (thorough: all sequences up to length 5 exhaustively); "
                "plus scripts of up to 6 concurrent mapping tasks whose bus writes complete when the script says (a task starts while the configuration write "
                "of another is outstanding, gives its mapping up while others start); plus sequences in which the terminal is brought to a state again (to_operational, "
                "with and without an error flag to acknowledge - or looked at again with gentle_initialize) while mappings are alive; plus scripts of whole sync groups sharing one terminal (each maps its output and / or input image through "
                "SyncGroupBase.map_fmmu and is refused as a whole when no FMMU is left); non-trivial = at least two map operations; distinct by content")

    def distribution(self, cases, observed):
        d = {"maps": 0, "unmaps": 0, "failed_maps": 0}
        for c, o in zip(cases, observed):
            if isinstance(o, Err):
                continue
            d["concurrent"] = d.get("concurrent", 0) + (c.get("kind") == "conc")
            if c.get("kind") == "groups":
                d["group_scripts"] = d.get("group_scripts", 0) + 1
                d["groups_refused"] = d.get("groups_refused", 0) + sum(1 for r in o if r[0] == "refused")
                continue
            for op, (r, _) in zip(c.get("_mops", c["ops"]), o):
                d["maps" if op[0] == "map" else "unmaps"] += 1
                d["failed_maps"] += isinstance(r, Err)
        return d

    def describe(self, case):
        if case.get("kind") in ("conc", "groups"):
            return {"n": case["n"], "kind": case["kind"], "script": [list(o) for o in case["script"]], "ops": []}
        return {"n": case["n"], "ops": [list(o) for o in case["ops"]]}

    def case_from_json(self, w):
        if w.get("kind") in ("conc", "groups"):
            return {"n": w["n"], "kind": w["kind"], "script": [tuple(o) for o in w["script"]], "ops": []}
        return {"n": w["n"], "ops": [tuple(o) for o in w["ops"]]}


CHECK = C20
