"""C02: fixed-point arithmetic: the real generator's code for `dest = expr` mixing
integer and fixed-point operands is executed in the Coq ISA model and compared
with Gen/Fixed.v (elaboration + C01's operand model) and with exact rationals."""
from fractions import Fraction
import json
import math

from .common import Check, Err, cz, cnat, cbool
from . import dsl, exprs, isa_check
from .c01 import GenCheck, read_var, C01

FB = 100000
OPS = ["+", "-", "*", "/", "//", "%"]
DECIMALS = ["0.29", "0.1", "1.5", "2.75", "0.00001", "123.456", "0.57", "1.1", "0.07", "3.0", "99999.99999", "0.3", "4.35", "0.58", "1.15", "2.675"]
INTFMTS = ["B", "H", "I", "Q", "i", "q"]


# ---------------------------------------------------------------- decimals assigned from Python
PYDECIMALS = DECIMALS + ["-1.3", "-2", "-0.00001", "-0.29", "-99999.99999", "-0.57", "-2.675", "-123.456", "0", "7", "-0.5", "0.5", "2.5", "-2.5", "1e-05", "41.50001"]


def py_case(rng):
    return {"kind": "py", "storage": rng.choice(["array", "array", "hash"]), "decimals": [rng.choice(PYDECIMALS) for _ in range(rng.randint(1, 5))],
            "others": rng.randint(0, 2)}


def py_run(case):
    """x-format map variables of a loaded program are assigned from Python through the real descriptors; returns the
    stored 64-bit integers (read from the map bytes) and the values read back through the descriptors"""
    import struct
    from ebpfcat.arraymap import ArrayMap
    from ebpfcat.hashmap import HashMap
    from ebpfcat.ebpf import EBPF
    from ebpfcat.bpf import ProgType
    from . import sim_kernel, sim_bpf
    n = len(case["decimals"])
    try:
        if case["storage"] == "array":
            amap = ArrayMap()
            ns = {"amap": amap}
            for k in range(case["others"]):
                ns[f"o{k}"] = amap.globalVar("B")
            for k in range(n):
                ns[f"x{k}"] = amap.globalVar("x")
            P = type("P", (EBPF,), ns)
            with sim_kernel.installed():
                e = P(ProgType.XDP, "GPL")
                e.r0 = 2
                e.exit()
                e.loaded = True
                for k, d in enumerate(case["decimals"]):
                    setattr(e, f"x{k}", float(d))
                data = bytes(e.__dict__["amap"][:])
                stored = [struct.unpack_from("q", data, e.__dict__[f"x{k}"])[0] for k in range(n)]
                back = [getattr(e, f"x{k}") for k in range(n)]
        else:
            sim = sim_bpf.BpfSim()
            with sim_bpf.installed(sim):
                hm = HashMap()
                ns = {"hm": hm}
                for k in range(n):
                    ns[f"x{k}"] = hm.globalVar("x", default=0)
                P = type("P", (EBPF,), ns)
                e = P(ProgType.XDP, "GPL")
                e.r0 = 2
                e.exit()
                e.load()
                for k, d in enumerate(case["decimals"]):
                    setattr(e, f"x{k}", float(d))
                fd = list(sim.maps)[0]
                cells = sim.maps[fd]["data"]
                stored = [struct.unpack("q", cells[bytes([P.__dict__[f"x{k}"].count])][:8])[0] for k in range(n)]
                back = [getattr(e, f"x{k}") for k in range(n)]
    except Exception as ex:      # noqa
        import traceback
        return Err(5, f"assigning decimals from Python raised {type(ex).__name__}: {ex} {traceback.format_exc()[-300:]}")
    return {"stored": stored, "back": back}


def py_holds(case, o):
    if isinstance(o, Err):
        return f"{o.what}; {case['decimals']}"
    for d, st, bk in zip(case["decimals"], o["stored"], o["back"]):
        want = Fraction(d) * FB
        if want.denominator != 1:
            continue
        if st != want:
            return f"the decimal {d} assigned from Python to an x-format {case['storage']}-map variable is stored as {st}, its exact representation is {want}"
        if abs(bk - float(d)) > 1e-12:
            return f"the decimal {d} assigned from Python reads back as {bk!r}"
    return True


class C02(GenCheck):
    pid = "C02"
    props_file = "Props/C02.v"
    corr_imports = ["Ebpf.Isa", "Corr.Exec", "Gen.Denote", "Gen.Fixed", "Corr.C02"]
    technique = ("Coq theorems: every operator on every mix of integer / fixed operands yields the exact rational result dropped to the result's representation "
                 "(QArith, all operand values), and the elaborated integer expression computes it (on top of C01's theorem) + execution of the REAL generated "
                 "code in the Coq ISA model against the model and exact Fractions")
    trusted = ["coq/Ebpf/Isa.v (kernel-validated)", "Python's fractions module as the oracle"]
    assumptions = []
    known_classes = {"signed_division_fixed": lambda case, o: case.get("_negdiv", False)}

    def rand_leaf(self, rng, names, case):
        r = rng.random()
        if r < 0.5 and names:
            return ["v", rng.choice(names)]
        if r < 0.6 and case["regs"]:
            kind, no = rng.choice(case["regs"])
            if kind == "x" and rng.random() < 0.4:
                # the SAME register read through its integer view: its content is the scaled number
                return ["r", "sr", no]
            return ["r", kind, no]
        if r < 0.8:
            return ["c", rng.choice([0, 1, 2, 3, 7, 10, 100, 1000, 12345, 21474, 21475, 30000, 42949, 42950, 250000, -30000, -21475])]
        return ["c", float(rng.choice(DECIMALS))]

    def rand_expr(self, rng, names, case, depth):
        if depth == 0 or rng.random() < 0.2:
            return self.rand_leaf(rng, names, case)
        a = self.rand_expr(rng, names, case, depth - 1)
        b = self.rand_expr(rng, names, case, depth - 1)
        if a[0] == "c" and b[0] == "c":
            a = ["v", rng.choice(names)]
        return [rng.choice(OPS), a, b]

    def make_case(self, rng):
        decls, values = [], {}
        for k in range(rng.randint(1, 3)):
            fmt = rng.choice(["x", "x", "x"] + INTFMTS)
            decls.append((f"v{k}", rng.choice(["local", "array"]), fmt))
            if fmt == "x":
                values[f"v{k}"] = rng.choice([0, 1, 29000, 150000, 275000, 100000, 99999, 12345678, 50000, 7, 4295067296, 3000000000, 2 ** 31, 2 ** 32 + 100000, rng.randint(0, 10 ** 7), rng.randint(0, 10 ** 9), rng.randint(0, 10 ** 11)])
            else:
                hi = min((1 << 8 * dsl.fmt_size(fmt) - (1 if dsl.fmt_signed(fmt) else 0)) - 1, 10 ** 6)
                values[f"v{k}"] = rng.choice([0, 1, 2, 3, 10, 100, rng.randint(0, hi), rng.randint(0, min(hi, 200))])
        case = {"regs": [], "reginit": {}}
        if rng.random() < 0.35:
            case["regs"] = [("x", 3)]
            case["reginit"] = {3: rng.choice([0, 1.5, 0.29, 2.75, 10.0, 123.456, -1.5, -0.29, -2.75, -123.456])}
            if rng.random() < 0.5:
                # a 32-bit integer register next to the fixed-point one
                case["regs"].append((rng.choice(["w", "sw"]), 2))
                case["reginit"][2] = rng.choice([0, 1, 2, 3, 10, 100, 1000])
        dfmt = rng.choice(["x", "x", "q", "Q", "i", "I"])
        decls.append(("d", rng.choice(["local", "array"]), dfmt))
        values["d"] = 1
        case.update(decls=decls, values=values, dest="d")
        names = [n for n, _, _ in decls[:-1]]
        e = self.rand_expr(rng, names, case, rng.choice([1, 1, 2, 2, 3]))
        if e[0] == "c":
            e = ["+", ["v", names[0]], e]
        if rng.random() < 0.08:
            # a bare decimal constant assigned to the destination (conversion at the assignment only)
            e = ["c", float(rng.choice(DECIMALS + ["2.7", "3.5", "0.99999", "7.6", "41.50001", "1234.56789", "0.5", "2.5"]))]
        case["expr"] = e
        if rng.random() < 0.08:
            # a 64-bit integer register plus an integer constant (the generator folds these into one node), and THEN a decimal
            kind = rng.choice(["r", "sr"])
            case["regs"] = list(case["regs"]) + [(kind, 4)]
            case["reginit"][4] = rng.choice([0, 1, 7, 100, 1000, 12345])
            R = ["r", kind, 4]
            inner = [rng.choice(["+", "-"]), R, ["c", rng.choice([1, 2, 3, 10, 1000])]]
            dec = ["c", float(rng.choice(["0.5", "0.25", "2.75", "0.29", "0.00001", "123.456"]))]
            case["expr"] = rng.choice([[rng.choice(["+", "-"]), inner, dec], ["+", dec, inner], [rng.choice(["+", "-"]), [rng.choice(["+", "-"]), inner, dec], ["v", names[0]]]])
            return case
        if case["regs"] and rng.random() < 0.3:
            # the destination is the fixed-point register, which the expression itself reads (left or right of an integer or
            # fixed-point operand): e.x3 = e.w2 * e.x3
            case["regdest"] = ["x", 3]
            R = ["r", "x", 3]
            A = self.rand_leaf(rng, names, case)
            if rng.random() < 0.5 and len(case["regs"]) > 1:
                A = ["r", case["regs"][1][0], 2]
            op = rng.choice(["+", "-", "*", "*"])
            case["expr"] = rng.choice([[op, A, R], [op, R, A], [op, A, [rng.choice(["+", "-"]), R, self.rand_leaf(rng, names, case)]]])
            return case
        if rng.random() < 0.3:
            # a comparison mixing integer and fixed-point operands; the constant is placed next to the other side's value
            a = self.rand_expr(rng, names, case, rng.choice([0, 0, 1]))
            if a[0] == "c":
                a = ["v", names[0]]
            if rng.random() < 0.5:
                b = self.rand_expr(rng, names, case, rng.choice([0, 0, 1]))
            else:
                q = self.meaning(case, a)[0]
                b = ["c", rng.choice([math.floor(q), math.floor(q) + 1, float(round(float(q), 5)), float(round(float(q) + rng.choice([-0.00001, 0.00001, 0.5]), 5))])]
            if len(case["regs"]) > 1 and rng.random() < 0.6:
                # the 32-bit integer register against a decimal constant whose whole part is the register's value
                kind, no = case["regs"][1]
                a = ["r", kind, no]
                b = ["c", float(case["reginit"][no]) + rng.choice([0.5, 0.29, 0.00001, 0.99999, -0.5, -0.00001, 0.0])]
            if rng.random() < 0.2:
                a, b = b, a
            if a[0] == "c" and b[0] == "c":
                a = ["v", names[0]]
            case["cmp"] = [rng.choice(["==", "!=", "<", "<=", ">", ">="]), a, b]
            xs = [n for n, _, f in case["decls"][:-1] if f == "x"]
            if xs and rng.random() < 0.5:
                # a fixed-point variable against a decimal limit too large for an immediate (the constant has to be loaded into a
                # scratch register), the variable just below / at / just above the limit
                lim = rng.choice([50000.5, 21474.83648, 30000.0, 123456.78901])
                case["values"][xs[0]] = round(lim * 100000) + rng.choice([-1, 0, 0, 1, 100000])
                case["cmp"] = [rng.choice(["==", "!=", "<", "<=", ">", ">="]), ["v", xs[0]], ["c", lim]]
                case["wrap"] = True
            case["decls"][-1] = ("d", "local", "B")
        return case

    def gen_cases(self):
        n = 500 if self.tier == "quick" else 8000
        return [self.make_case(self.rng) for _ in range(n)] + [py_case(self.rng) for _ in range(n // 12)]

    def corpus(self):
        mk = lambda e, dfmt="x": {"regs": [], "reginit": {}, "decls": [("v0", "local", "x"), ("d", "local", dfmt)], "values": {"v0": 100000, "d": 1}, "dest": "d", "expr": e}
        return [mk(["+", ["v", "v0"], ["c", 0.29]]), mk(["*", ["v", "v0"], ["c", 0.57]]), mk(["-", ["v", "v0"], ["c", 0.58]]),
                mk(["//", ["v", "v0"], ["c", 0.29]], "q")]

    def dest_fmt(self, case):
        return "x" if case.get("regdest") else self.fmt_of(case, case["dest"])

    def stmts(self, case):
        kinds = {no: k for k, no in case["regs"]}
        st = [["set", ["r", kinds.get(no, "x"), no], ["c", v]] for no, v in sorted(case["reginit"].items())]
        if case.get("regdest"):
            st.append(["set", ["r", case["regdest"][0], case["regdest"][1]], case["expr"]])
            return st
        if "cmp" in case:
            if case.get("wrap") or len(json.dumps(case["cmp"])) % 2 == 0:
                # the comparison follows a conditional block that is SKIPPED at run time (d is 1) and contains the same comparison:
                # nothing the generator prepared inside that block (a constant loaded into a scratch register) exists at run time
                st.append(["if", ["==", ["v", "d"], ["c", 7]], [["if", case["cmp"], [["set", ["v", "d"], ["c", 3]]], None]], None])
            st.append(["if", case["cmp"], [["set", ["v", "d"], ["c", 1]]], [["set", ["v", "d"], ["c", 2]]]])
        else:
            st.append(["set", ["v", case["dest"]], case["expr"]])
        return st

    def prepare(self, cases):
        gen = [c for c in cases if c.get("kind") != "py"]
        for c in gen:
            c["decls"] = [tuple(d) for d in c["decls"]]
        return self.execute(gen)

    # ---- kinds
    def fmt_of(self, case, name):
        return [f for n, _, f in case["decls"] if n == name][0]

    def leaf(self, case, x):
        """(exact Fraction value, fixed?, scaled integer representation)"""
        if x[0] == "c":
            if isinstance(x[1], float):
                q = Fraction(str(x[1]))
                return q, True
            return Fraction(x[1]), False
        if x[0] == "r":
            v = case["reginit"][x[2]]
            if x[1] == "sr" and ("x", x[2]) in [tuple(r) for r in case["regs"]]:
                return Fraction(self.const_scaled(v)), False          # the fixed-point register seen as an integer
            return (Fraction(str(v)), True) if x[1] == "x" else (Fraction(v), False)
        fmt = self.fmt_of(case, x[1])
        v = case["values"][x[1]]
        return (Fraction(v, FB), True) if fmt == "x" else (Fraction(v), False)

    def meaning(self, case, x):
        """exact rational semantics with the drop of each operation; returns (value, fixed, ok, negdiv)"""
        if x[0] in ("c", "v", "r"):
            q, f = self.leaf(case, x)
            return q, f, True, False
        a, fa, oka, na = self.meaning(case, x[1])
        b, fb, okb, nb = self.meaning(case, x[2])
        ok, neg = oka and okb, na or nb
        op = x[0]

        def drop(q, fixed):
            return Fraction(math.floor(q * FB), FB) if fixed else Fraction(math.floor(q))
        if op in ("+", "-"):
            return (a + b if op == "+" else a - b), fa or fb, ok, neg
        if op == "*":
            r = a * b
            if fa and fb:
                if r < 0:
                    neg = True
                r = drop(r, True)
            return r, fa or fb, ok, neg
        if b == 0:
            return Fraction(0), True, False, neg
        if a < 0 or b < 0:
            neg = True
        if op == "/":
            return drop(a / b, True), True, ok, neg
        if op == "//":
            return Fraction(math.floor(a / b)), False, ok, neg
        return a - b * math.floor(a / b), fa or fb, ok, neg

    def fits(self, case, x, W):
        """all scaled operands and intermediate results fit W bits (signed)"""
        lim = 1 << (W - 1)

        def rep(q, f):
            return q * FB if f else q

        def go(x):
            q, f, ok, _ = self.meaning(case, x)
            if not ok or not -lim <= rep(q, f) < lim:
                return False
            if x[0] in ("c", "v", "r"):
                return True
            if not (go(x[1]) and go(x[2])):
                return False
            a, fa, _, _ = self.meaning(case, x[1])
            b, fb, _, _ = self.meaning(case, x[2])
            # scaled intermediates of the elaboration
            inter = []
            if x[0] == "*" and fa and fb:
                inter.append(a * b * FB * FB)
            if x[0] == "/":
                inter.append(rep(a, fa) * (FB * FB if (not fa and fb) else FB if fa == fb else 1))
            if x[0] in ("+", "-", "%", "//") and fa != fb:
                inter += [a * FB, b * FB]
            return all(-lim <= v < lim for v in inter)
        return go(x)

    # ---- model term
    FOP = {"+": "FAdd", "-": "FSub", "*": "FMul", "/": "FTrueDiv", "//": "FFloorDiv", "%": "FMod"}

    def cf(self, case, x):
        if x[0] == "c":
            if isinstance(x[1], float):
                return f"(FConstF {cz(self.const_scaled(x[1]))})"
            return f"(FInt (EConst {cz(x[1])}))"
        if x[0] == "r" and x[1] == "sr" and ("x", x[2]) in [tuple(r) for r in case["regs"]]:
            return f"(FInt (EReg {cz(self.const_scaled(case['reginit'][x[2]]) % (1 << 64))} true true))"
        if x[0] == "r" and x[1] != "x":
            return f"(FInt (EReg {cz(case['reginit'][x[2]] % (1 << 64))} {cbool(x[1] in ('r', 'sr'))} {cbool(x[1] in ('sw', 'sr'))}))"
        if x[0] == "r":
            return f"(FFix (EReg {cz(self.const_scaled(case['reginit'][x[2]]) % (1 << 64))} true true))"
        if x[0] == "v":
            fmt = self.fmt_of(case, x[1])
            raw = case["values"][x[1]] % (1 << 8 * dsl.fmt_size(fmt))
            ev = f"(EVar {cz(raw)} {cnat(dsl.fmt_size(fmt))} {cbool(dsl.fmt_signed(fmt))})"
            return f"(FFix {ev})" if fmt == "x" else f"(FInt {ev})"
        a, b = x[1], x[2]
        if a[0] == "c" and x[0] in ("+", "*"):
            a, b = b, a                       # reflected operators
        if x[0] == "//" and a[0] == "c" and isinstance(a[1], float) and not self.meaning(case, b)[1]:
            a = ["c", int(a[1])]              # __rfloordiv__ of a non-fixed expression takes int(value)
        return f"(FOp {self.FOP[x[0]]} {self.cf(case, a)} {self.cf(case, b)})"

    @staticmethod
    def const_scaled(v):
        """what Constant.__init__ derives for a float constant"""
        return round(float(v) * FB)

    MIRROR = {"<": ">", ">": "<", "<=": ">=", ">=": "<=", "==": "==", "!=": "!="}
    CMPN = {"==": "CEq", "!=": "CNe", "<": "CLt", "<=": "CLe", ">": "CGt", ">=": "CGe"}

    def model_term(self, case):
        if case.get("kind") == "py":
            # the representation of the exact decimal: drop true q = floor(100000 q)
            return "(VL [" + "; ".join(f"VZ (drop true (({Fraction(d).numerator}) # {Fraction(d).denominator})%Q)" for d in case["decimals"]) + "])"
        if case["_built"].error is not None or case["_run"] is None or case["_run"][0] != [1]:
            return None
        if "cmp" in case:
            op, a, b = case["cmp"]
            if a[0] == "c":
                op, a, b = self.MIRROR[op], b, a       # Python evaluates const < expr as expr > const
            return f"(run_cmp {self.CMPN[op]} {self.cf(case, a)} {self.cf(case, b)})"
        dfmt = self.dest_fmt(case)
        return f"(run {self.cf(case, case['expr'])} {cbool(dfmt == 'x')} {cnat(dsl.fmt_size(dfmt))})"

    def model_value(self, case, o):
        if case.get("kind") == "py":
            return o["stored"]
        if "cmp" in case:
            return 1 if o["dest"] == 1 else 0
        dfmt = self.dest_fmt(case)
        return o["dest"] % (1 << 8 * dsl.fmt_size(dfmt))

    def run_impl(self, case):
        if case.get("kind") == "py":
            return py_run(case)
        b = case["_built"]
        if b.error is not None:
            return Err(6, b.error)
        r = case["_run"]
        if r is None:
            return Err(9, "model evaluation failed")
        status, pkt, maps, stack, regs = r
        if status != [1]:
            return Err(7, f"program did not exit normally: status {status}")
        amap = maps[0] if maps else []
        if case.get("regdest"):
            return {"dest": dsl.from_bytes("q", dsl.to_bytes("q", regs[case["regdest"][1]])),
                    "others": {n: read_var(n, b, stack, amap) for n in b.layout}}
        return {"dest": read_var(case["dest"], b, stack, amap),
                "others": {n: read_var(n, b, stack, amap) for n in b.layout if n != case["dest"]}}

    def holds(self, case, o):
        if case.get("kind") == "py":
            return py_holds(case, o)
        if isinstance(o, Err):
            if o.code == 6:
                return True if ("no value" in o.what or "not enough registers" in o.what or "ZeroDivisionError" in o.what) else f"generator refused a well-typed statement: {o.what}"
            return o.what
        if "cmp" in case:
            return self.holds_cmp(case, o)
        q, f, ok, neg = self.meaning(case, case["expr"])
        case["_negdiv"] = neg
        dfmt = self.dest_fmt(case)
        leaves = exprs.leaves(case["expr"])
        narrow = dsl.fmt_size(dfmt) <= 4 or any((l[0] == "v" and dsl.fmt_size(self.fmt_of(case, l[1])) <= 4) or (l[0] == "r" and l[1] in ("w", "sw")) for l in leaves)
        W = 32 if narrow else 64
        if not ok or not self.fits(case, case["expr"], W):
            return True
        if dfmt == "x":
            want = [math.floor(q * FB), math.ceil(q * FB) if q < 0 else math.floor(q * FB)]
        else:
            want = [math.floor(q), math.ceil(q) if q < 0 else math.floor(q)]
            if f and q < 0:
                case["_negdiv"] = True
        if dfmt != "x" and not (-(1 << W - 1) <= want[0] < (1 << W - 1)):
            return True
        want = [dsl.from_bytes(dfmt, dsl.to_bytes(dfmt, w)) for w in want]
        if o["dest"] not in want:
            return (f"{'x3' if case.get('regdest') else case['dest']}:{dfmt} = {case['expr']} with {case['values']} {case['reginit']} stored {o['dest']}, the exact result "
                    f"{q} dropped to the destination is {want[0]}")
        for n, v in o["others"].items():
            if v != case["values"][n]:
                return f"variable {n} changed from {case['values'][n]} to {v}"
        return True

    def holds_cmp(self, case, o):
        op, a, b = case["cmp"]
        qa, fa, oka, na = self.meaning(case, a)
        qb, fb, okb, nb = self.meaning(case, b)
        case["_negdiv"] = na or nb
        def leftmost_small_const(x):
            while x[0] not in ("c", "v", "r"):
                x = x[1]
            return x[0] == "c"          # an operation whose left-most operand is a constant is computed at the constant's (32-bit) width

        narrow = any((l[0] == "v" and dsl.fmt_size(self.fmt_of(case, l[1])) <= 4) or (l[0] == "r" and l[1] in ("w", "sw")) for l in exprs.leaves(a) + exprs.leaves(b)) \
            or (a[0] not in ("c", "v", "r") and leftmost_small_const(a)) or (b[0] not in ("c", "v", "r") and leftmost_small_const(b))
        W = 32 if narrow else 64
        if not (oka and okb and self.fits(case, a, W) and self.fits(case, b, W)):
            return True
        lim = 1 << (W - 1)
        if not all(-lim <= v * FB < lim for v in (qa, qb)):
            return True
        if qa < 0 or qb < 0:
            signed = any((l[0] == "v" and dsl.fmt_signed(self.fmt_of(case, l[1]))) or l[0] == "r" or (l[0] == "c" and l[1] < 0) for l in exprs.leaves(a) + exprs.leaves(b))
            if not signed:
                return True
        t = {"==": qa == qb, "!=": qa != qb, "<": qa < qb, "<=": qa <= qb, ">": qa > qb, ">=": qa >= qb}[op]
        if o["dest"] != (1 if t else 2):
            return (f"with {a} {op} {b}: took the {'body' if o['dest'] == 1 else 'Else' if o['dest'] == 2 else 'no'} branch, exact values {qa} {op} {qb} "
                    f"is {t}; {case['values']} {case['reginit']} decls={case['decls']}")
        return True

    def nontrivial(self, case, o):
        return not isinstance(o, Err)

    def extra_checks(self):
        return [isa_check.check(self.seed + 6, 40 if self.tier == "quick" else 300)]

    def rule(self):
        return ("dest (x / q / Q / i / I) = tree of depth 1-3 over + - * / // % with x-format variables (scaled values incl. 29000, 99999, 10**9), integer "
                "variables of all formats, x registers set from decimals (also negative ones), 32-bit integer registers, the fixed-point register also read through its integer view (sr), 10% with the fixed-point register as the destination of an expression that reads it, integer constants and float constants incl. 0.29, 0.57, 0.58, 1.15, 2.675, 4.35, "
                "99999.99999, 0.00001; non-negative operand values (differences may be negative); checked when all scaled operands and intermediates fit; "
                "a further twelfth of that number: 1-5 decimals (positive and negative, up to five fractional digits) assigned from Python to x-format array-map "
                "or hash-map variables of a loaded program - the stored integer must be the exact scaled decimal")

    def distribution(self, cases, observed):
        d = {"x_dest": 0, "float_consts": 0, "ops": {}, "build_errors": 0, "assigned_from_python": 0, "negative_from_python": 0}
        for c, o in zip(cases, observed):
            if c.get("kind") == "py":
                d["assigned_from_python"] += len(c["decimals"])
                d["negative_from_python"] += sum(1 for x in c["decimals"] if x.startswith("-"))
                continue
            d["x_dest"] += self.dest_fmt(c) == "x"
            d["register_destination"] = d.get("register_destination", 0) + bool(c.get("regdest"))
            d["build_errors"] += isinstance(o, Err)
            for l in exprs.leaves(c["expr"]):
                d["float_consts"] += l[0] == "c" and isinstance(l[1], float)
            for op in exprs.ops_of(c["expr"]):
                d["ops"][op] = d["ops"].get(op, 0) + 1
        return d

    def describe(self, case):
        return {k: v for k, v in case.items() if not k.startswith("_")}

    def case_from_json(self, w):
        w["decls"] = [tuple(d) for d in w["decls"]]
        w["regs"] = [tuple(r) for r in w["regs"]]
        w["reginit"] = {int(k): v for k, v in w["reginit"].items()}
        return w


CHECK = C02
