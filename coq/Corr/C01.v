From Verif Require Import Lib.Base Gen.Denote.
Definition run (e : expr) (n : nat) : V := VZ (stored e n).
