From Verif Require Import Lib.ListX Ecat.ProcVar Gen.Arith.

Lemma shiftl1 k : 0 <= k -> Z.shiftl 1 k = 2 ^ k.
Proof. intros H. rewrite Z.shiftl_mul_pow2 by exact H. lia. Qed.

(* setting a bit changes exactly that bit of that byte *)
Theorem set_bit_spec (b k : Z) (v : bool) (j : Z) : 0 <= k -> 0 <= j ->
  Z.testbit (if v then Z.lor b (Z.shiftl 1 k) else Z.land b (Z.lnot (Z.shiftl 1 k))) j =
  if j =? k then v else Z.testbit b j.
Proof.
  intros Hk Hj. rewrite shiftl1 by exact Hk. destruct v.
  - rewrite Z.lor_spec, Z.pow2_bits_eqb by exact Hk. rewrite (Z.eqb_sym k j).
    destruct (j =? k); [apply orb_true_r|apply orb_false_r].
  - rewrite Z.land_spec, Z.lnot_spec, Z.pow2_bits_eqb by assumption. rewrite (Z.eqb_sym k j).
    destruct (j =? k); cbn; [apply andb_false_r|apply andb_true_r].
Qed.

Lemma land_small b x : 0 <= b < 2 ^ 8 -> Z.land b x = Z.land b (x mod 2 ^ 8).
Proof.
  intros Hb. apply Z.bits_inj'. intros j Hj. rewrite !Z.land_spec.
  destruct (Z.ltb_spec j 8).
  - rewrite Z.mod_pow2_bits_low by lia. reflexivity.
  - replace (Z.testbit b j) with false; [reflexivity|].
    symmetry. destruct (Z.eqb_spec b 0) as [->|N]; [apply Z.bits_0|].
    apply Z.bits_above_log2; [lia|]. assert (Z.log2 b < 8) by (apply Z.log2_lt_pow2; lia). lia.
Qed.

Lemma set_bit_range (b k : Z) (v : bool) : 0 <= b < 256 -> 0 <= k < 8 ->
  0 <= (if v then Z.lor b (Z.shiftl 1 k) else Z.land b (Z.lnot (Z.shiftl 1 k))) < 256.
Proof.
  intros Hb Hk. rewrite shiftl1 by lia. change 256 with (2 ^ 8) in *. destruct v.
  - apply lor_range; [lia|exact Hb|].
    split; [apply Z.pow_nonneg; lia|apply Z.pow_lt_mono_r; lia].
  - rewrite land_small by exact Hb. apply land_range; [lia|exact Hb|]. apply Z.mod_pos_bound. lia.
Qed.

(* the generated code computes the same byte as the Python path *)
Theorem fast_slow_set_bit pkt start k v : 0 <= nth start pkt 0 < 256 -> 0 <= k < 8 ->
  fast_set_bit pkt start k v = slow_set_bit pkt start k v.
Proof.
  intros Hb Hk. unfold fast_set_bit, slow_set_bit. f_equal.
  pose proof (set_bit_range (nth start pkt 0) k v Hb Hk) as R. destruct v.
  - apply Z.mod_small. exact R.
  - rewrite <- (Z.mod_small (Z.land (nth start pkt 0) (Z.lnot (Z.shiftl 1 k))) 256) by exact R.
    change 256 with (2 ^ 8). rewrite !land_mod_pow2 by lia. f_equal.
    change W64 with (2 ^ 8 * 2 ^ 56). apply mod_mod_mult; reflexivity.
Qed.

Theorem fast_slow_get_bit pkt start k : 0 <= k ->
  negb (fast_get_bit pkt start k =? 0) = slow_get_bit pkt start k /\
  slow_get_bit pkt start k = Z.testbit (nth start pkt 0) k.
Proof.
  intros Hk. unfold fast_get_bit, slow_get_bit. rewrite shiftl1 by exact Hk.
  set (b := nth start pkt 0).
  assert (E : Z.land b (2 ^ k) = if Z.testbit b k then 2 ^ k else 0).
  { apply Z.bits_inj'. intros j Hj. rewrite Z.land_spec, Z.pow2_bits_eqb by exact Hk.
    destruct (Z.eqb_spec k j) as [<-|N].
    - destruct (Z.testbit b k); cbn [andb]; [rewrite Z.pow2_bits_true by exact Hk; reflexivity|symmetry; apply Z.bits_0].
    - rewrite andb_false_r. destruct (Z.testbit b k); [rewrite Z.pow2_bits_false by lia; reflexivity|symmetry; apply Z.bits_0]. }
  rewrite E. assert (0 < 2 ^ k) by (apply Z.pow_pos_nonneg; lia).
  destruct (Z.testbit b k).
  - rewrite Z.shiftr_div_pow2 by exact Hk. rewrite Z.div_same by lia. split; [|destruct (Z.eqb_spec (2 ^ k) 0); [lia|reflexivity]].
    destruct (Z.eqb_spec (2 ^ k) 0); [lia|reflexivity].
  - rewrite Z.shiftr_div_pow2 by exact Hk. rewrite Z.div_0_l by lia. split; reflexivity.
Qed.

(* a bit write leaves every other byte, and the length, alone *)
Theorem set_bit_frame data start k v : (start < length data)%nat ->
  length (slow_set_bit data start k v) = length data /\
  forall i, i <> start -> nth i (slow_set_bit data start k v) 0 = nth i data 0.
Proof.
  intros H. unfold slow_set_bit. split; [apply set_at_length|]. intros i Hi. apply nth_set_at_other. auto.
Qed.
Theorem set_bit_read data start k v : (start < length data)%nat -> 0 <= k ->
  forall j, 0 <= j -> Z.testbit (nth start (slow_set_bit data start k v) 0) j = if j =? k then v else Z.testbit (nth start data 0) j.
Proof.
  intros H Hk j Hj. unfold slow_set_bit. rewrite nth_set_at_same by exact H. apply set_bit_spec; assumption.
Qed.

(* multi-byte variables: both paths store the same bytes / read the same value *)
Theorem fast_slow_set pkt start n v : fast_set pkt start n v = slow_set pkt start n v.
Proof.
  unfold fast_set, slow_set. f_equal.
  rewrite <- le_val_le_bytes. pose proof (le_bytes_le_val (le_bytes n v) (le_bytes_is_byte n v)) as H.
  rewrite le_bytes_length in H. exact H.
Qed.
Theorem fast_slow_get pkt start n sg : fast_get pkt start n sg = slow_get pkt start n sg.
Proof. reflexivity. Qed.
