(* Where the generator puts declared variables (ebpfcat/ebpf.py
   LocalVar.__set_name__ / fmt_addr, EBPF.get_stack; ebpfcat/arraymap.py
   ArrayMap.collect).  Offsets are relative to r10 (stack) or to the map value. *)
From Verif Require Export Lib.Base.
From Coq Require Export Sorting.Permutation.

(* LocalVar.__set_name__: owner.stack -= size; owner.stack &= -size *)
Definition alloc_local (stack size : Z) : Z := Z.land (stack - size) (- size).

Fixpoint alloc_locals (stack : Z) (sizes : list Z) : list (Z * Z) * Z :=   (* ((address, size) list, new stack) *)
  match sizes with
  | [] => ([], stack)
  | s :: tl => let a := alloc_local stack s in
               let '(rest, st) := alloc_locals a tl in ((a, s) :: rest, st)
  end.

(* EBPF.get_stack(size): scratch below everything allocated so far *)
Definition scratch (stack size : Z) : Z := Z.land (stack - size) (- size).

(* SubProgram locals: (main.stack & -8) + relative address inside the subprogram class *)
Definition sub_local (main_stack rel : Z) : Z := Z.land main_stack (-8) + rel.

(* ArrayMap.collect: positions are the running sum of the sizes in the order
   of the (size-descending) sorted collection *)
Fixpoint positions (pos : Z) (sizes : list Z) : list (Z * Z) :=
  match sizes with
  | [] => []
  | s :: tl => (pos, s) :: positions (pos + s) tl
  end.

Definition disjoint (a b : Z * Z) : Prop := fst a + snd a <= fst b \/ fst b + snd b <= fst a.
Fixpoint pairwise_disjoint (l : list (Z * Z)) : Prop :=
  match l with
  | [] => True
  | x :: tl => Forall (disjoint x) tl /\ pairwise_disjoint tl
  end.
Definition pow2_size (s : Z) : Prop := exists k, 0 <= k /\ s = 2 ^ k.     (* 1, 2, 4, 8 and array formats like "4I" *)

(* ---- ArrayMap.collect over class hierarchies ----
   A program (or subprogram instance) has the classes of its MRO, most derived
   first; each class declares (name, size) pairs.  Attribute lookup finds the
   first declaration of a name; collect must reserve exactly one slot per name,
   of that declaration's size. *)
Fixpoint first_def (n : Z) (l : list (Z * Z)) : option Z :=
  match l with
  | [] => None
  | (m, s) :: tl => if m =? n then Some s else first_def n tl
  end.
Fixpoint dedupe (seen : list Z) (l : list (Z * Z)) : list (Z * Z) :=
  match l with
  | [] => []
  | (n, s) :: tl => if existsb (Z.eqb n) seen then dedupe seen tl else (n, s) :: dedupe (n :: seen) tl
  end.
(* the pinned tree reset `unique` for every class, so nothing was ever removed *)
Definition dedupe_pinned (l : list (Z * Z)) : list (Z * Z) := l.

(* ---- Dict structures on the stack (ebpfcat/hashmap.py Dict.__set_name__) ----
   the key structure, then the value structure, each aligned down to 8 below
   everything allocated so far; the class's stack pointer is left at the value *)
Definition alloc_dict (stack ksize vsize : Z) : (Z * Z) * (Z * Z) * Z :=
  let k := Z.land (stack - ksize) (-8) in
  let v := Z.land (k - vsize) (-8) in
  ((k, ksize), (v, vsize), v).

(* a declaration list mixing locals and Dicts, in declaration order *)
Inductive item := ILocal (s : Z) | IDict (ks vs : Z).
Definition item_ok (i : item) : Prop :=
  match i with ILocal s => pow2_size s | IDict ks vs => 0 <= ks /\ 0 <= vs end.
Fixpoint alloc_items (stack : Z) (l : list item) : list (Z * Z) * Z :=
  match l with
  | [] => ([], stack)
  | ILocal s :: tl =>
      let a := alloc_local stack s in
      let '(rest, st) := alloc_items a tl in ((a, s) :: rest, st)
  | IDict ks vs :: tl =>
      let '(kr, vr, st0) := alloc_dict stack ks vs in
      let '(rest, st) := alloc_items st0 tl in (kr :: vr :: rest, st)
  end.
