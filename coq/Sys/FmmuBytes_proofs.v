From Verif Require Import Lib.ListX Sys.FmmuBytes.

Lemma testbit_1 i : 0 <= i -> Z.testbit 1 i = (i =? 0).
Proof. intros H. destruct i as [|p|p]; [reflexivity | destruct p; reflexivity | lia]. Qed.

Lemma testbit_onehot k i : 0 <= k -> 0 <= i -> Z.testbit (Z.shiftl 1 k) i = (i =? k).
Proof.
  intros Hk Hi. rewrite Z.shiftl_spec by lia.
  destruct (Z.ltb_spec i k).
  - rewrite Z.testbit_neg_r by lia. symmetry. apply Z.eqb_neq. lia.
  - rewrite testbit_1 by lia. destruct (Z.eqb_spec (i - k) 0), (Z.eqb_spec i k); try reflexivity; lia.
Qed.

Lemma nth_upd (m : bmap) k v j : (k < length m)%nat -> nth j (upd m k v) 0 = if Nat.eqb j k then v else nth j m 0.
Proof.
  intros Hk. unfold upd. destruct (Nat.eqb_spec j k) as [-> | Hne].
  - rewrite app_nth2 by (rewrite firstn_length; lia). rewrite firstn_length, Nat.min_l by lia.
    rewrite Nat.sub_diag. reflexivity.
  - destruct (Nat.ltb_spec j k).
    + rewrite app_nth1 by (rewrite firstn_length; lia).
      transitivity (nth j (firstn k m ++ skipn k m) 0); [| rewrite firstn_skipn; reflexivity].
      rewrite app_nth1 by (rewrite firstn_length; lia). reflexivity.
    + rewrite app_nth2 by (rewrite firstn_length; lia). rewrite firstn_length, Nat.min_l by lia.
      destruct (j - k)%nat as [|d] eqn:E; [lia|]. cbn [nth]. rewrite nth_skipn'. f_equal. lia.
Qed.

Lemma upd_length (m : bmap) k v : (k < length m)%nat -> length (upd m k v) = length m.
Proof. intros H. unfold upd. rewrite app_length, firstn_length. cbn [length]. rewrite skipn_length. lia. Qed.

Lemma idx_lt (m : bmap) a : length m = 64%nat -> 0 <= a < 512 -> (Z.to_nat (a / 8) < length m)%nat.
Proof. intros Hl Ha. rewrite Hl. lia. Qed.

Lemma split_eq a j : 0 <= a -> 0 <= j -> (a / 8 = j / 8 /\ a mod 8 = j mod 8) <-> a = j.
Proof. intros Ha Hj. split; [intros [H1 H2] | intros ->; split; reflexivity]. lia. Qed.

(* removal clears the bit of number a and NO other bit of the map *)
Theorem clear_bit_spec m a j : length m = 64%nat -> 0 <= a < 512 -> 0 <= j < 512 ->
  testb (clear_bit m a) j = testb m j && negb (j =? a).
Proof.
  intros Hl Ha Hj. unfold testb, clear_bit, byte_of at 1.
  rewrite nth_upd by (apply idx_lt; assumption).
  destruct (Nat.eqb_spec (Z.to_nat (j / 8)) (Z.to_nat (a / 8))) as [E | E].
  - assert (E' : j / 8 = a / 8) by lia.
    rewrite Z.land_spec, Z.lnot_spec by lia. rewrite testbit_onehot by lia.
    unfold byte_of. rewrite <- E'. f_equal. f_equal.
    destruct (Z.eqb_spec (j mod 8) (a mod 8)), (Z.eqb_spec j a); try reflexivity; exfalso; lia.
  - unfold byte_of. destruct (Z.eqb_spec j a) as [-> | _]; [exfalso; apply E; reflexivity |].
    rewrite andb_true_r. reflexivity.
Qed.

(* allocation sets the bit of number a and no other *)
Theorem set_bit_spec m a j : length m = 64%nat -> 0 <= a < 512 -> 0 <= j < 512 ->
  testb (set_bit m a) j = testb m j || (j =? a).
Proof.
  intros Hl Ha Hj. unfold testb, set_bit, byte_of at 1.
  rewrite nth_upd by (apply idx_lt; assumption).
  destruct (Nat.eqb_spec (Z.to_nat (j / 8)) (Z.to_nat (a / 8))) as [E | E].
  - assert (E' : j / 8 = a / 8) by lia.
    rewrite Z.lor_spec. rewrite testbit_onehot by lia.
    unfold byte_of. rewrite <- E'. f_equal.
    destruct (Z.eqb_spec (j mod 8) (a mod 8)), (Z.eqb_spec j a); try reflexivity; exfalso; lia.
  - unfold byte_of. destruct (Z.eqb_spec j a) as [-> | _]; [exfalso; apply E; reflexivity |].
    rewrite orb_false_r. reflexivity.
Qed.

(* what is written is a byte again *)
Lemma byte_bits b : 0 <= b < 256 <-> (0 <= b /\ forall i, 8 <= i -> Z.testbit b i = false).
Proof.
  split.
  - intros H. split; [lia|]. intros i Hi. destruct (Z.eq_dec b 0) as [-> | Hn]; [apply Z.testbit_0_l|].
    apply Z.bits_above_log2; [lia|]. assert (Z.log2 b < 8) by (apply Z.log2_lt_pow2; lia). lia.
  - intros [H0 Hb]. split; [lia|]. destruct (Z.eq_dec b 0) as [-> | Hn]; [lia|].
    destruct (Z.ltb_spec b 256); [assumption|]. exfalso.
    assert (Hl : 8 <= Z.log2 b) by (apply Z.log2_le_pow2; lia).
    specialize (Hb (Z.log2 b) Hl). rewrite Z.bit_log2 in Hb by lia. discriminate.
Qed.

Lemma nth_byte (m : bmap) k : Forall (fun b => 0 <= b < 256) m -> 0 <= nth k m 0 < 256.
Proof.
  intros H. destruct (Nat.ltb_spec k (length m)).
  - rewrite Forall_forall in H. apply H. apply nth_In. assumption.
  - rewrite nth_overflow by lia. lia.
Qed.

Lemma Forall_parts (m : bmap) k : Forall (fun b => 0 <= b < 256) m ->
  Forall (fun b => 0 <= b < 256) (firstn k m) /\ Forall (fun b => 0 <= b < 256) (skipn k m).
Proof. intros H. rewrite <- (firstn_skipn k m) in H. apply Forall_app in H. exact H. Qed.

Lemma Forall_upd (m : bmap) k v : Forall (fun b => 0 <= b < 256) m -> 0 <= v < 256 -> Forall (fun b => 0 <= b < 256) (upd m k v).
Proof.
  intros H Hv. unfold upd. apply Forall_app. split; [apply (Forall_parts m k H)|].
  constructor; [assumption | apply (Forall_parts m (S k) H)].
Qed.

Lemma set_bit_ok m a : bytes_ok m -> 0 <= a < 512 -> bytes_ok (set_bit m a).
Proof.
  intros [Hl Hb] Ha. split; [unfold set_bit; rewrite upd_length; [assumption | apply idx_lt; assumption]|].
  apply Forall_upd; [assumption|]. pose proof (nth_byte m (Z.to_nat (a / 8)) Hb) as Hn. fold (byte_of m a) in Hn.
  apply byte_bits. apply byte_bits in Hn. destruct Hn as [Hn0 Hn1]. split.
  - apply Z.lor_nonneg. split; [assumption|]. apply Z.shiftl_nonneg. lia.
  - intros i Hi. rewrite Z.lor_spec, Hn1 by lia. rewrite testbit_onehot by lia. cbn [orb]. apply Z.eqb_neq. lia.
Qed.

Lemma clear_bit_ok m a : bytes_ok m -> 0 <= a < 512 -> bytes_ok (clear_bit m a).
Proof.
  intros [Hl Hb] Ha. split; [unfold clear_bit; rewrite upd_length; [assumption | apply idx_lt; assumption]|].
  apply Forall_upd; [assumption|]. pose proof (nth_byte m (Z.to_nat (a / 8)) Hb) as Hn. fold (byte_of m a) in Hn.
  apply byte_bits. apply byte_bits in Hn. destruct Hn as [Hn0 Hn1]. split.
  - apply Z.land_nonneg. left. assumption.
  - intros i Hi. rewrite Z.land_spec, Hn1 by lia. reflexivity.
Qed.

(* ---- refinement: the bytes of the file say what the abstract state of FmmuLock.v says, after every event *)
Lemma find_held h p a0 a : held_ok h -> find (fun x => fst x =? p) h = Some (a0, a) -> 0 < a < 512.
Proof.
  intros H Hf. apply find_some in Hf. destruct Hf as [Hin _]. unfold held_ok in H. rewrite Forall_forall in H.
  exact (H _ Hin).
Qed.

Ltac same := split; [assumption | split; [assumption | split; [reflexivity | assumption]]].

Theorem bstep_refines m s e :
  bytes_ok m -> held_ok (held s) -> Rmap m (used s) ->
  let '(m', h') := bstep (m, held s) e in
  bytes_ok m' /\ held_ok h' /\ h' = held (fstep s e) /\ Rmap m' (used (fstep s e)).
Proof.
  intros Hb Hh HR. destruct e as [p a | p]; cbn [bstep fstep].
  - (* allocation *)
    destruct (a <=? 0) eqn:E1; [rewrite !orb_true_r; cbn [orb]; cbv beta iota; same|].
    destruct (512 <=? a) eqn:E2; [rewrite !orb_true_r; cbv beta iota; same|].
    rewrite !orb_false_r.
    assert (Ha : 0 < a < 512) by lia.
    assert (Hsame : testb m a = zmem a (used s)).
    { destruct (testb m a) eqn:Et, (zmem a (used s)) eqn:Ez; try reflexivity; exfalso.
      - apply HR in Et; [|lia]. unfold zmem in Ez. assert (existsb (Z.eqb a) (used s) = true) by (apply existsb_exists; exists a; split; [assumption | apply Z.eqb_refl]). congruence.
      - unfold zmem in Ez. apply existsb_exists in Ez. destruct Ez as [x [Hx Hxa]]. apply Z.eqb_eq in Hxa. subst x.
        apply HR in Hx; [|lia]. congruence. }
    rewrite <- Hsame.
      destruct (testb m a) eqn:Et.
      * cbv beta iota. same.
      * cbv beta iota. cbn [used held]. split; [apply set_bit_ok; [assumption | lia]|]. split; [constructor; [cbn [snd]; lia | assumption]|].
        split; [reflexivity|]. intros j Hj. destruct Hb as [Hl _]. rewrite set_bit_spec by (assumption || lia).
        rewrite orb_true_iff. cbn [In]. rewrite (HR j Hj). rewrite Z.eqb_eq. split; intros [H | H]; auto.
  - (* removal *)
    destruct (find (fun h => fst h =? p) (held s)) as [[a0 a] |] eqn:Ef.
    + pose proof (find_held _ _ _ _ Hh Ef) as Ha. cbn [used held].
      split; [apply clear_bit_ok; [assumption | lia]|].
      split. { unfold held_ok in *. rewrite Forall_forall in *. intros x Hx. apply filter_In in Hx. apply Hh. tauto. }
      split; [reflexivity|]. intros j Hj. destruct Hb as [Hl _]. rewrite clear_bit_spec by (assumption || lia).
      rewrite andb_true_iff, filter_In, negb_true_iff. rewrite (HR j Hj). tauto.
    + same.
Qed.

(* every reachable pair (file bytes, abstract state) agrees: from the empty file, after ANY sequence of allocations and removals *)
Definition zeros : bmap := repeat 0 64.
Lemma Rmap_zeros : Rmap zeros [].
Proof.
  intros j Hj. split; [|intros []]. unfold testb, byte_of, zeros. intros H.
  assert (Hn : nth (Z.to_nat (j / 8)) (repeat 0 64) 0 = 0) by (apply nth_repeat).
  rewrite Hn, Z.testbit_0_l in H. discriminate.
Qed.

Theorem bytes_refine_fstate evs :
  let '(m, h) := fold_left bstep evs (zeros, []) in
  let s := fold_left fstep evs {| used := []; held := [] |} in
  bytes_ok m /\ h = held s /\ Rmap m (used s).
Proof.
  assert (G : forall evs m s, bytes_ok m -> held_ok (held s) -> Rmap m (used s) ->
              let '(m', h') := fold_left bstep evs (m, held s) in
              bytes_ok m' /\ h' = held (fold_left fstep evs s) /\ Rmap m' (used (fold_left fstep evs s))).
  { clear evs. induction evs as [|e evs IH]; intros m s Hb Hh HR; cbn [fold_left].
    - split; [assumption | split; [reflexivity | assumption]].
    - pose proof (bstep_refines m s e Hb Hh HR) as Hs. destruct (bstep (m, held s) e) as [m' h'].
      destruct Hs as [Hb' [Hh' [-> HR']]]. apply IH; assumption. }
  apply (G evs zeros {| used := []; held := [] |}).
  - split; [reflexivity|]. apply Forall_forall. intros x Hx. apply repeat_spec in Hx. lia.
  - constructor.
  - exact Rmap_zeros.
Qed.
