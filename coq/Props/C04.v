(* C04 Writing one variable never changes another.
   Model (Gen/Layout.v): the functions that place declared variables -
   LocalVar.__set_name__ (stack -= size; stack &= -size), EBPF.get_stack
   (scratch), SubProgram locals ((main.stack & -8) + relative address),
   ArrayMap.collect (running sum over the size-sorted collection).  The real
   layout of random declaration sets is compared with them on every run, and real
   generated programs writing one variable are executed in the ISA model. *)
From Verif Require Import Lib.ListX Gen.Layout Gen.Layout_proofs Gen.Packet Gen.Packet_proofs Gen.BitField Gen.BitField_proofs.

(* for ANY list of local declarations (sizes 1/2/4/8): no two locals overlap *)
Theorem C04_locals_disjoint : forall sizes stack, Forall pow2_size sizes ->
  pairwise_disjoint (fst (alloc_locals stack sizes)).
Proof. exact locals_disjoint. Qed.
Print Assumptions C04_locals_disjoint.

(* scratch space (saved registers, map keys, intermediate values) lies below
   every local of the program *)
Theorem C04_scratch_disjoint : forall sizes size, Forall pow2_size sizes -> pow2_size size ->
  let '(vars, st) := alloc_locals 0 sizes in
  Forall (fun r => disjoint (scratch st size, size) r) vars.
Proof. exact scratch_below_locals. Qed.
Print Assumptions C04_scratch_disjoint.

(* for ANY set of array-map variables (any sizes, any order): no two overlap *)
Theorem C04_array_vars_disjoint : forall sizes pos, Forall (fun s => 0 <= s) sizes ->
  pairwise_disjoint (positions pos sizes) /\ Forall (fun r => pos <= fst r) (positions pos sizes).
Proof. exact positions_disjoint. Qed.
Print Assumptions C04_array_vars_disjoint.

(* a store into one variable's bytes leaves every byte outside them unchanged
   (instruction semantics of the ISA model): with disjoint ranges, no other
   variable changes *)
Theorem C04_store_frame : forall l off b l', write_bytes l off b = Some l' ->
  length l' = length l /\ read_bytes l' off (length b) = Some b /\
  forall i, (Z.of_nat i < off \/ off + zlen b <= Z.of_nat i) -> nth i l' 0 = nth i l 0.
Proof. exact write_bytes_frame. Qed.

(* recorded finding: subprogram locals do not get their own bytes *)
Theorem C04_refuted_subprogram_locals :
  (forall main_stack rel, sub_local main_stack rel = sub_local main_stack rel) /\
  (let main_stack := -8 in let rel := -4 in ~ disjoint (scratch main_stack 4, 4) (sub_local main_stack rel, 4)).
Proof. split; [reflexivity|exact scratch_overlaps_sub_local]. Qed.

Example C04_nonvacuous :
  fst (alloc_locals 0 [1; 8; 2; 4]) = [(-1, 1); (-16, 8); (-18, 2); (-24, 4)] /\
  pairwise_disjoint (fst (alloc_locals 0 [1; 8; 2; 4])).
Proof. split; [reflexivity|]. apply locals_disjoint. repeat (constructor; [first [exists 0; split; [lia|reflexivity] | exists 1; split; [lia|reflexivity] | exists 2; split; [lia|reflexivity] | exists 3; split; [lia|reflexivity]]|]). constructor. Qed.

(* Dict structures (key and value on the stack) between locals, in ANY declaration order: the model of Dict.__set_name__ *)
Theorem C04_dict_layout : forall stack ks vs, 0 <= ks -> 0 <= vs ->
  let '((k, _), (v, _), st) := alloc_dict stack ks vs in
  st = v /\ v + vs <= k /\ k + ks <= stack /\ k mod 8 = 0 /\ v mod 8 = 0.
Proof. exact dict_layout. Qed.
Print Assumptions C04_dict_layout.
Theorem C04_items_disjoint : forall l stack, Forall item_ok l -> pairwise_disjoint (fst (alloc_items stack l)).
Proof. exact items_disjoint. Qed.
Print Assumptions C04_items_disjoint.
(* temporaries (hash-map keys, intermediate values, saved registers) taken after all declarations lie below every local, key and value *)
Theorem C04_scratch_below_items : forall l size, Forall item_ok l -> pow2_size size ->
  let '(vars, st) := alloc_items 0 l in
  Forall (fun r => disjoint (scratch st size, size) r) vars.
Proof. exact scratch_below_items. Qed.
Print Assumptions C04_scratch_below_items.
Example C04_items_nonvacuous :
  fst (alloc_items 0 [ILocal 4; IDict 8 4; ILocal 1; IDict 5 13]) = [(-4, 4); (-16, 8); (-24, 4); (-25, 1); (-32, 5); (-48, 13)].
Proof. reflexivity. Qed.

(* ---- bit-field variables: several declared variables share one byte (fmt = (pos, bits); ebpf.py Memory._set computes
   mask & (value << pos) | ~mask & byte on unbounded integers).  Whatever value is stored - also a negative one or one that does
   not fit the field - every bit outside the field keeps its value, so every other variable in the byte reads what it read
   before; the field itself reads the value modulo 2^bits; the byte stays a byte. *)
Theorem C04_bitfield_store_bits : forall b v pos bits i, 0 <= pos -> 0 <= bits -> 0 <= i ->
  Z.testbit (set_field b v pos bits) i = if (pos <=? i) && (i <? pos + bits) then Z.testbit v (i - pos) else Z.testbit b i.
Proof. exact set_field_bits. Qed.
Print Assumptions C04_bitfield_store_bits.

Theorem C04_bitfield_other_unchanged : forall b v pos bits pos' bits', 0 <= pos -> 0 <= bits -> 0 <= pos' -> 0 <= bits' ->
  pos + bits <= pos' \/ pos' + bits' <= pos ->
  get_field (set_field b v pos bits) pos' bits' = get_field b pos' bits'.
Proof. exact get_set_other. Qed.
Print Assumptions C04_bitfield_other_unchanged.

Theorem C04_bitfield_reads_back : forall b v pos bits, 0 <= pos -> 0 <= bits -> get_field (set_field b v pos bits) pos bits = v mod 2 ^ bits.
Proof. exact get_set_same. Qed.
Print Assumptions C04_bitfield_reads_back.

Theorem C04_bitfield_stays_byte : forall b v pos bits, 0 <= b < 256 -> 0 <= pos -> 0 <= bits -> pos + bits <= 8 -> 0 <= set_field b v pos bits < 256.
Proof. exact set_field_byte. Qed.
Print Assumptions C04_bitfield_stays_byte.

Theorem C04_flag_store_bits : forall b t pos i, 0 <= pos -> 0 <= i -> Z.testbit (set_flag b t pos) i = if i =? pos then t else Z.testbit b i.
Proof. exact set_flag_bits. Qed.
Print Assumptions C04_flag_store_bits.

Example C04_bitfield_nonvacuous : set_field 0 (-1) 1 3 = 14 /\ get_field (set_field 0xff 0 1 3) 4 3 = 7 /\ set_field 0x81 13 1 3 = 0x8b.
Proof. vm_compute. repeat split. Qed.
