"""Real ebpfcat objects (EtherCat, EBPFTerminal, SyncGroup, Device) put on the
simulated segment of sim_bus.py."""
import asyncio
import logging

from .sim_bus import SimBus, SimTerminal, attach

logging.disable(logging.CRITICAL)


def make_terminal_class():
    from ebpfcat.ebpfcat import EBPFTerminal, PacketDesc
    from ebpfcat.ethercat import SyncManager

    class RigTerminal(EBPFTerminal):
        in_word = PacketDesc(SyncManager.IN, 0, "H")
        in_bit = PacketDesc(SyncManager.IN, 2, 3)
        in_long = PacketDesc(SyncManager.IN, 3, "i")
        out_word = PacketDesc(SyncManager.OUT, 0, "H")
        out_bit = PacketDesc(SyncManager.OUT, 2, 5)
        out_byte = PacketDesc(SyncManager.OUT, 3, "B")
    return RigTerminal


class Rig:
    """specs: list of dict(pos, in, out, fmmu(bool), rw)"""

    def __init__(self, specs, ec_class=None, al_delay=0):
        from ebpfcat.ebpfcat import SimpleEtherCat
        self.specs = specs
        self.ec = (ec_class or SimpleEtherCat)("verif0")
        self.sims = []
        self.terms = []
        T = make_terminal_class()
        for s in specs:
            sim = SimTerminal(station=s["pos"], fmmus=s.get("fmmus", 3), al_delay=al_delay)
            sim.al_state = s.get("al", 2)
            t = T(self.ec)
            t.position = s["pos"]
            t.name = f"T{s['pos']}"
            t.use_fmmu = s.get("fmmu", True)
            t.pdo_in_sz, t.pdo_out_sz = s["in"], s["out"]
            t.pdo_in_off, t.pdo_out_off = 0x1180, 0x1100
            t.fmmu_used = [None] * sim.mem[4]
            self.sims.append(sim)
            self.terms.append(t)
        self.bus = SimBus(self.sims)

    def connect(self, deliver=None):
        return attach(self.ec, self.bus, deliver)

    async def shutdown(self):
        t = getattr(self.ec, "_sendloop_task", None)
        if t is not None:
            t.cancel()
            try:
                await t
            except (asyncio.CancelledError, Exception):
                pass
