(* Terminal.sdo_write / sdo_read (CoE SDO download / upload over the mailbox)
   and the protocol-conformant SDO server they talk to (ETG.1000.6).
   Payloads are the CoE part of a mailbox message (after the 6-byte mailbox
   header); `mbx` is the mailbox size. *)
From Verif Require Export Lib.ListX.

Definition coe_req : list Z := le_bytes 2 (2 * 4096).   (* SDO request *)
Definition coe_res : list Z := le_bytes 2 (3 * 4096).   (* SDO response *)

Definition zslice (l : list Z) (a b : nat) : list Z := firstn (b - a) (skipn a l).
Definition pad7 (l : list Z) : list Z := l ++ repeat 0 (7 - length l).

(* ------------------------- client: sdo_write ------------------------- *)
(* command byte of a download/upload segment *)
Definition seg_cmd (toggle : Z) (last : bool) (n : nat) : Z :=
  toggle + (if last then 1 else 0) + (if (n <? 7)%nat then 2 * Z.of_nat (7 - n) else 0).

(* the segment loop: while stop < len(data) *)
Fixpoint dl_segments (fuel : nat) (room : nat) (data : list Z) (stop : nat) (toggle : Z) : list (list Z) :=
  match fuel with
  | O => []
  | S k =>
      if (stop <? length data)%nat then
        let start := stop in
        let stop' := Nat.min (length data) (start + room) in
        let seg := zslice data start stop' in
        (coe_req ++ [seg_cmd toggle (Nat.eqb stop' (length data)) (length seg)] ++ pad7 seg)
        :: dl_segments k room data stop' (if toggle =? 0 then 16 else 0)
      else []
  end.

(* all CoE payloads sdo_write sends when every response is positive *)
Definition dl_requests (mbx : nat) (data : list Z) (index : Z) (sub : option Z) : list (list Z) :=
  let n := length data in
  match sub with
  | Some s =>
      if ((0 <? n) && (n <=? 4))%nat then
        [coe_req ++ [35 + 4 * Z.of_nat (4 - n)] ++ le_bytes 2 index ++ [s] ++ data ++ repeat 0 (4 - n)]
      else
        let stop := Nat.min n (mbx - 16) in
        (coe_req ++ [33] ++ le_bytes 2 index ++ [s] ++ le_bytes 4 (Z.of_nat n) ++ firstn stop data)
        :: dl_segments n (mbx - 9) data stop 0
  | None =>
      let stop := Nat.min n (mbx - 16) in
      (coe_req ++ [49] ++ le_bytes 2 index ++ [1] ++ le_bytes 4 (Z.of_nat n) ++ firstn stop data)
      :: dl_segments n (mbx - 9) data stop 0
  end.

(* ------------------------- server: download --------------------------- *)
Record dl_state := { d_total : nat; d_buf : list Z; d_toggle : Z }.

(* None = abort; Some (inl st) = transfer in progress; Some (inr v) = stored *)
Definition srv_dl_init (p : list Z) : option (dl_state + list Z) :=
  let cmd := nth 2 p 0 in
  if (length p <? 10)%nat then None
  else if Z.testbit cmd 1 then
    (* expedited: n = 4 - unused *)
    let n := if Z.testbit cmd 0 then (4 - Z.to_nat ((cmd / 4) mod 4))%nat else 4%nat in
    Some (inr (firstn n (skipn 6 p)))
  else
    let total := Z.to_nat (le_val (firstn 4 (skipn 6 p))) in
    let got := skipn 10 p in
    if negb (Z.testbit cmd 0) then None
    else if (total <? length got)%nat then None
    else if Nat.eqb (length got) total then Some (inr got)
    else Some (inl {| d_total := total; d_buf := got; d_toggle := 0 |}).

Definition srv_dl_seg (st : dl_state) (p : list Z) : option (dl_state + list Z) :=
  let cmd := nth 2 p 0 in
  let seg := skipn 3 p in
  if negb ((cmd / 16) mod 2 * 16 =? d_toggle st) then None
  else if (length seg <? 7)%nat then None
  else
    let seg' := if Nat.eqb (length seg) 7 then firstn (7 - Z.to_nat ((cmd / 2) mod 8)) seg else seg in
    let buf := d_buf st ++ seg' in
    if Z.testbit cmd 0 then (if Nat.eqb (length buf) (d_total st) then Some (inr buf) else None)
    else Some (inl {| d_total := d_total st; d_buf := buf; d_toggle := if d_toggle st =? 0 then 16 else 0 |}).

Fixpoint srv_dl_run (st : dl_state) (ps : list (list Z)) : option (list Z) :=
  match ps with
  | [] => None
  | p :: tl => match srv_dl_seg st p with
               | None => None
               | Some (inr v) => match tl with [] => Some v | _ => None end
               | Some (inl st') => srv_dl_run st' tl
               end
  end.

Definition srv_download (ps : list (list Z)) : option (list Z) :=
  match ps with
  | [] => None
  | p :: tl => match srv_dl_init p with
               | None => None
               | Some (inr v) => match tl with [] => Some v | _ => None end
               | Some (inl st) => srv_dl_run st tl
               end
  end.

(* ------------------------- server: upload ----------------------------- *)
Fixpoint ul_segments (fuel : nat) (room : nat) (data : list Z) (pos : nat) (toggle : Z) : list (list Z) :=
  match fuel with
  | O => []
  | S k =>
      let seg := zslice data pos (Nat.min (length data) (pos + room)) in
      let last := (length data <=? pos + length seg)%nat in
      (coe_res ++ [seg_cmd toggle last (length seg)] ++ pad7 seg)
      :: (if last then [] else ul_segments k room data (pos + room) (if toggle =? 0 then 16 else 0))
  end.

(* responses of the server to an upload of `data` (mailbox size mbx): the
   initiate response, then one response per segment request *)
Definition ul_responses (mbx : nat) (data : list Z) (index sub : Z) (ca : bool) : list (list Z) :=
  let n := length data in
  if ((0 <? n) && (n <=? 4))%nat && negb ca then
    [coe_res ++ [67 + 4 * Z.of_nat (4 - n)] ++ le_bytes 2 index ++ [sub] ++ data ++ repeat 0 (4 - n)]
  else
    let room := (mbx - 16)%nat in
    (coe_res ++ [65] ++ le_bytes 2 index ++ [sub] ++ le_bytes 4 (Z.of_nat n) ++ firstn room data)
    :: (if (room <? n)%nat then ul_segments n (mbx - 9) data room 0 else []).

(* ------------------------- client: sdo_read --------------------------- *)
(* assembling the segments: returns the data and the toggles it requested *)
Fixpoint ul_collect (resps : list (list Z)) (size : nat) (acc : list Z) (toggle : Z) (toggles : list Z)
  : option (list Z * list Z) :=
  if (size <=? length acc)%nat then (if Nat.eqb (length acc) size then Some (acc, toggles) else None)
  else
    match resps with
    | [] => None
    | d :: tl =>
        let cmd := nth 2 d 0 in
        if negb (cmd / 32 =? 0) then None
        else
          let seg := skipn 3 d in
          let seg' := if Nat.eqb (length seg) 7 then firstn (7 - Z.to_nat ((cmd / 2) mod 8)) seg else seg in
          let acc' := acc ++ seg' in
          if Z.testbit cmd 0
          then (if Nat.eqb (length acc') size then Some (acc', toggles ++ [toggle]) else None)
          else ul_collect tl size acc' (if toggle =? 0 then 16 else 0) (toggles ++ [toggle])
    end.

Definition sdo_read (resps : list (list Z)) (index : Z) : option (list Z * list Z) :=
  match resps with
  | [] => None
  | d :: tl =>
      let cmd := nth 2 d 0 in
      if negb (le_val (firstn 2 d) / 4096 =? 3) then None
      else if negb (le_val (firstn 2 (skipn 3 d)) =? index) then None
      else if Z.testbit cmd 1 then Some (zslice d 6 (10 - Z.to_nat ((cmd / 4) mod 4)), [])
      else ul_collect tl (Z.to_nat (le_val (firstn 4 (skipn 6 d)))) (skipn 10 d) 0 []
  end.
