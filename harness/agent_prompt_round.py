"""prompt for a later seeding round: the base prompt of agent_prompt.py for a worktree /tmp/wt/<id><SUFFIX>, the style hint of the
round and the summaries of the seeds that exist already (so that the agent chooses another mechanism).
usage: python3 harness/agent_prompt_round.py C07 G > /tmp/prompt_C07G.txt"""
import glob
import json
import subprocess
import sys

HINTS = {
    "G": ("This time prefer one of: (a) DISTANCE: put the change into a lower layer or a generic helper that the mechanism named above relies on (another "
          "module or base class: the byte packing helpers, the map / bpf() wrappers, the assembler core, descriptors, the packet classes, the lock classes, "
          "enum or format tables, default arguments), so that the anchored function itself is untouched and only one of its callers or configurations is "
          "affected; (b) HISTORY: the first use of an object is always right - the failure needs the second or third use of the SAME object, a use after a "
          "failed, refused or cancelled operation, after a re-configuration, or after an internal identifier has been reused; (c) REPRESENTATION: only one "
          "representation of a value fails - negative numbers, values at or above 2**31 / 2**63, zero or maximal length, the non-default width or byte order, "
          "bool instead of int, bytearray / memoryview instead of bytes, a float where integers are usual."),
    "H": ("This time prefer one of: (a) INTERACTION: each feature alone still works - the failure needs two features of the library used TOGETHER in one "
          "program, group, frame or process (for example explicit byte order with fixed point, a subprogram with a hash map, FMMU and directly addressed "
          "terminals in one group, a read-only terminal with bit variables, two channels or two instances of one class, slow and fast groups on one master); "
          "(b) ENVIRONMENT and LEFTOVERS: the failure depends on what the process finds around it - a file or directory left behind by an earlier run or a "
          "crashed process, a file that exists with another size or stale content, the number of CPUs, the order in which a dict or set happens to iterate, "
          "object identity / address reuse, the monotonic clock standing still or jumping, an interface or path name of unusual length; "
          "(c) SWALLOWED ERRORS: an error is caught (a broad except, a default value, a retry that gives up) and replaced by something that looks like "
          "success, so the operation silently does less than it claims."),
    "I": ("This time prefer one of: (a) A LESS-USED ENTRY POINT: an optional or keyword argument, a default that is rarely overridden, an alternative "
          "constructor, a subclass hook, a public helper or property that reaches the mechanism by another route than the usual one - the usual route stays "
          "right; (b) SIZE AND ALIGNMENT ARITHMETIC: wrong only for particular sizes or offsets - odd sizes, sizes that are not a multiple of 4 or 8, a field "
          "that straddles a 256 / 65536 / word boundary, the last element of a sequence, an empty sequence, a length that equals a limit minus the header; "
          "(c) ORDER: the result depends on the order in which variables, members, terminals, devices, datagrams or processes are declared, sorted or "
          "iterated - ties in a sort key, reverse or interleaved order, two items at the same position, something declared after first use."),
    "J": ("This time prefer one of: (a) POSITION IN THE CONTROL FLOW: the operation is right at top level but wrong inside a nested with-block or an "
          "Else branch, right after an exit(), as the very first or very last statement, inside a subprogram or a second instance of it, in a "
          "finally / clean-up path, or when two of them directly follow each other; (b) RESOURCE PRESSURE: wrong only when registers, stack bytes, "
          "datagram slots, map entries, file descriptors or queue entries run short or are all in use - long expressions, many live variables, a full "
          "table, the last free slot; (c) REPETITION: wrong only after the same call has been repeated many times or an internal counter, index or "
          "identifier has wrapped around or been reused (8-bit, 16-bit or 32-bit counters, the cycle 1..7, packet indices, list growth)."),
}
pid, rnd = sys.argv[1], sys.argv[2]
base = subprocess.run([sys.executable, "/verif/harness/agent_prompt.py", pid], capture_output=True, text=True, check=True).stdout
base = base.replace(f"/tmp/wt/{pid}", f"/tmp/wt/{pid}{rnd}")
base = base.replace("(use `git -C /tmp/wt/%s%s stash` / `stash pop`, or compare against /repo by setting PYTHONPATH=/repo read-only)" % (pid, rnd),
                    "(do NOT use git stash - it is shared between worktrees; compare against the pristine tree by running the demo with PYTHONPATH=/repo, read-only)")
print(base.rstrip())
print()
print("Note: earlier experiments already made the changes listed below. Choose a DIFFERENT mechanism. " + HINTS[rnd] +
      " The change must break the property as stated, silently, and only under such a condition. Keep the investigation short (about 25 tool calls).")
k = 0
for d in sorted(glob.glob(f"/verif/seeded/{pid}-*")):
    try:
        m = json.load(open(d + "/meta.json"))
    except Exception:      # noqa
        continue
    k += 1
    print(f" ({k}) {str(m.get('summary', ''))[:150]} ...")
