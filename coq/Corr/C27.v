From Verif Require Import Lib.Base Dev.Valve.
Definition v_valve (v : valve) : V := VL [VBool (coil v); VBool (target v); VBool (error v); VZ (lastGood v)].
Fixpoint trace (safe : bool) (moving : Z) (v : valve) (evs : list event) : list V :=
  match evs with
  | [] => []
  | e :: tl => let v' := step safe moving v e in v_valve v' :: trace safe moving v' tl
  end.
Definition run (safe : bool) (moving : Z) (c0 t0 e0 : bool) (evs : list event) : V :=
  VL (trace safe moving {| coil := c0; target := t0; error := e0; lastGood := 0 |} evs).
