From Verif Require Import Lib.Base Sys.MbxLock.

Definition v_alog (e : alog) : V :=
  match e with
  | Granted u => VL [VZ 0; VZ (Z.of_nat u)]
  | Sent u c => VL [VZ 1; VZ (Z.of_nat u); VZ c]
  | Released u => VL [VZ 2; VZ (Z.of_nat u)]
  end.
Definition runA (evs : list aev) : V :=
  let s := fold_left astep evs ast0 in
  VL [VL (map v_alog (log s)); VZ (counter s)].

Definition v_plocal (p : plocal) : V :=
  match p with PIdle => VZ 0 | PLocked => VZ 1 | PHave c => VL [VZ 2; VZ c] | PWritten => VZ 3 end.
Definition runB (n : nat) (evs : list bev) : V :=
  let s := fold_left bstep evs (bst0 n) in
  VL [VL (map (fun x => VL [VZ (Z.of_nat (fst x)); VZ (snd x)]) (btrace s));
      match file s with None => VNone | Some c => VZ c end;
      match flock s with None => VNone | Some p => VZ (Z.of_nat p) end;
      VL (map v_plocal (procs s))].
