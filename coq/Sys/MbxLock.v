(* Mailbox serialisation and the mailbox counter.
   Part A: lock.MailboxLock (an asyncio.Lock plus counter) used by tasks of one
           process through `async with` (ethercat.py: coe_request, sdo_read,
           sdo_write).
   Part B: lock.ParallelMailboxLock over lock.LockFile, used by several
           processes: byte-range lock + counter byte in the shared file,
           including the window in which the file is being created. *)
From Verif Require Export Lib.ListX.

Definition next_counter (c : Z) : Z := c mod 7 + 1.

(* ------------------------------ Part A ------------------------------ *)
Inductive aev := Acquire (u : nat) | Send (u : nat) | Release (u : nat).
Inductive alog := Granted (u : nat) | Sent (u : nat) (c : Z) | Released (u : nat).

Record ast := { holder : option nat; waiters : list nat; counter : Z; log : list alog }.
Definition ast0 : ast := {| holder := None; waiters := []; counter := 0; log := [] |}.

Definition astep (s : ast) (e : aev) : ast :=
  match e with
  | Acquire u =>
      match holder s with
      | None => {| holder := Some u; waiters := waiters s; counter := counter s; log := log s ++ [Granted u] |}
      | Some _ => {| holder := holder s; waiters := waiters s ++ [u]; counter := counter s; log := log s |}
      end
  | Send u =>
      match holder s with
      | Some h => if Nat.eqb h u
                  then {| holder := holder s; waiters := waiters s; counter := next_counter (counter s);
                          log := log s ++ [Sent u (counter s)] |}
                  else s
      | None => s
      end
  | Release u =>
      match holder s with
      | Some h =>
          if Nat.eqb h u then
            match waiters s with
            | [] => {| holder := None; waiters := []; counter := counter s; log := log s ++ [Released u] |}
            | w :: tl => {| holder := Some w; waiters := tl; counter := counter s;
                            log := log s ++ [Released u; Granted w] |}
            end
          else s
      | None => s
      end
  end.

(* the log is a sequence of whole exchanges: Granted u, Sent u ..., Released u *)
Fixpoint bracketed (cur : option nat) (l : list alog) : bool :=
  match l with
  | [] => true
  | Granted u :: tl => match cur with None => bracketed (Some u) tl | Some _ => false end
  | Sent u _ :: tl => match cur with Some h => Nat.eqb h u && bracketed cur tl | None => false end
  | Released u :: tl => match cur with Some h => Nat.eqb h u && bracketed None tl | None => false end
  end.

Definition sent_counters (l : list alog) : list Z :=
  flat_map (fun e => match e with Sent _ c => [c] | _ => [] end) l.

(* each counter is the successor of the previous one; only the first is 0 *)
Fixpoint chain (prev : option Z) (l : list Z) : bool :=
  match l with
  | [] => true
  | c :: tl => (match prev with None => c =? 0 | Some p => c =? next_counter p end) && chain (Some c) tl
  end.

(* ------------------------------ Part B ------------------------------ *)
Inductive plocal := PIdle | PLocked | PHave (c : Z) | PWritten.
Inductive bev :=
| BLock (p : nat)        (* fcntl.lockf(LOCK_EX | LOCK_NB) succeeds only if nobody holds it *)
| BRead (p : nat)        (* os.pread of the counter byte; a short read means 0 *)
| BSend (p : nat)        (* next_counter() for one mailbox message *)
| BWrite (p : nat)       (* os.pwrite of the counter byte *)
| BUnlock (p : nat)
| BInit.                 (* the creator sizes the file (ftruncate): existing bytes are kept *)

Record bst := { file : option Z; flock : option nat; procs : list plocal; btrace : list (nat * Z) }.
Definition bst0 (n : nat) : bst := {| file := None; flock := None; procs := repeat PIdle n; btrace := [] |}.

Definition pget (s : bst) (p : nat) : plocal := nth p (procs s) PIdle.
Definition pset (s : bst) (p : nat) (v : plocal) : list plocal := set_at p v (procs s).

Definition bstep (s : bst) (e : bev) : bst :=
  match e with
  | BLock p =>
      match flock s, pget s p with
      | None, PIdle => if (p <? length (procs s))%nat
                       then {| file := file s; flock := Some p; procs := pset s p PLocked; btrace := btrace s |} else s
      | _, _ => s
      end
  | BRead p =>
      match pget s p with
      | PLocked => {| file := file s; flock := flock s;
                      procs := pset s p (PHave (match file s with Some c => c | None => 0 end)); btrace := btrace s |}
      | _ => s
      end
  | BSend p =>
      match pget s p with
      | PHave c => {| file := file s; flock := flock s; procs := pset s p (PHave (next_counter c));
                      btrace := btrace s ++ [(p, c)] |}
      | _ => s
      end
  | BWrite p =>
      match pget s p with
      | PHave c => {| file := Some c; flock := flock s; procs := pset s p PWritten; btrace := btrace s |}
      | _ => s
      end
  | BUnlock p =>
      match pget s p with
      | PWritten => {| file := file s; flock := None; procs := pset s p PIdle; btrace := btrace s |}
      | _ => s
      end
  | BInit => {| file := Some (match file s with Some c => c | None => 0 end);
                flock := flock s; procs := procs s; btrace := btrace s |}
  end.
