(* C28 Serial channels transfer bytes exactly once, in order.
   Model: Dev/Serial.v - Serial.update, the out-pipe (os.read of at most 22
   bytes), the EL6002 handshake (`react`) with arbitrary timing (oracle), and
   ghost histories of what was written / accepted / announced / delivered. *)
From Verif Require Import Dev.Serial Dev.Serial_proofs Dev.SerialLayout Dev.SerialLayout_proofs.

(* For EVERY history of application writes and cycles, whatever the terminal's
   timing: the chunks the terminal took, then the chunk currently presented,
   then the bytes still in the pipe are EXACTLY the bytes the application
   wrote (nothing lost, duplicated or reordered); every chunk has 1..22 bytes *)
Theorem C28_tx_exactly_once_in_order : forall evs, let s := fold_left step evs sys0 in
  concat (accepted s) ++ (if pend s then o_str (s_dev s) else []) ++ s_pipe s = written s /\
  Forall chunk_ok (accepted s).
Proof. exact tx_exactly_once. Qed.
Print Assumptions C28_tx_exactly_once_in_order.

(* every chunk the terminal announced was delivered to the application exactly
   once and in order (the last one may still be on its way) *)
Theorem C28_rx_exactly_once_in_order : forall evs, let s := fold_left step evs sys0 in
  delivered s = announced s \/ announced s = delivered s ++ [t_str (s_term s)].
Proof. exact rx_exactly_once. Qed.
Print Assumptions C28_rx_exactly_once_in_order.

(* a chunk is announced by one toggle and kept until acknowledged *)
Theorem C28_kept_until_ack : forall evs o, let s := fold_left step evs sys0 in
  pend s = true ->
  let s' := step s (ECycle o) in
  o_treq (s_dev s') = o_treq (s_dev s) /\ o_str (s_dev s') = o_str (s_dev s) /\ s_pipe s' = s_pipe s.
Proof. exact tx_kept_until_ack. Qed.
Print Assumptions C28_kept_until_ack.

Theorem C28_one_toggle_per_chunk : forall evs o, let s := fold_left step evs sys0 in
  let s' := step s (ECycle o) in
  o_treq (s_dev s') <> o_treq (s_dev s) ->
  s_pipe s <> [] /\ o_str (s_dev s') = firstn chunk (s_pipe s) /\ s_pipe s' = skipn chunk (s_pipe s).
Proof. exact tx_one_toggle_per_chunk. Qed.
Print Assumptions C28_one_toggle_per_chunk.

(* the invariant behind them, in every reachable state (includes: receive_accept
   is toggled exactly when a chunk is delivered) *)
Theorem C28_invariant : forall evs, Inv (fold_left step evs sys0).
Proof. exact reachable_inv. Qed.
Print Assumptions C28_invariant.

Example C28_nonvacuous :
  let o a n := ECycle {| or_init := true; or_accept := a; or_announce := n |} in
  let s := fold_left step [o true None; o true None; o true None; EWrite [1;2;3]; o false None; o false (Some [9;8]); o true None; o true None] sys0 in
  accepted s = [[1;2;3]] /\ delivered s = [[9;8]] /\ written s = [1;2;3] /\ s_pipe s = [].
Proof. vm_compute. repeat split. Qed.

(* ---- the two channels of one terminal (ebpfcat/terminals.py EL6002 / EL6022; descriptors REGENERATED from the source on every
   run into Generated/SerialLayout.v).  The theorems above are about ONE channel; they carry over to a terminal with both
   channels in use because a write of any process variable of one channel - whatever bytes, as many as the variable is wide -
   leaves every byte of every variable of the other channel in the same image as it was. *)
Theorem C28_EL6002_channels_independent : forall img c1 c2 d1 d2 bs j dflt,
  In c1 EL6002_channels -> In c2 EL6002_channels -> c1 <> c2 -> In d1 EL6002_descs -> In d2 EL6002_descs -> d_sm d1 = d_sm d2 ->
  Z.of_nat (length bs) = d_width d1 -> hi c1 d1 <= Z.of_nat (length img) -> lo c2 d2 <= Z.of_nat j < hi c2 d2 ->
  nth j (wr img (Z.to_nat (lo c1 d1)) bs) dflt = nth j img dflt.
Proof. exact EL6002_channels_independent. Qed.
Print Assumptions C28_EL6002_channels_independent.

Theorem C28_EL6022_channels_independent : forall img c1 c2 d1 d2 bs j dflt,
  In c1 EL6022_channels -> In c2 EL6022_channels -> c1 <> c2 -> In d1 EL6022_descs -> In d2 EL6022_descs -> d_sm d1 = d_sm d2 ->
  Z.of_nat (length bs) = d_width d1 -> hi c1 d1 <= Z.of_nat (length img) -> lo c2 d2 <= Z.of_nat j < hi c2 d2 ->
  nth j (wr img (Z.to_nat (lo c1 d1)) bs) dflt = nth j img dflt.
Proof. exact EL6022_channels_independent. Qed.
Print Assumptions C28_EL6022_channels_independent.

(* inside a channel the string variable does not reach the byte of the three handshake bits (distinct bits of one byte), and it
   carries exactly the model's chunk size plus its length byte *)
Theorem C28_channel_layout :
  channel_ok EL6002_transmit_request EL6002_receive_accept EL6002_init_request EL6002_out_string = true /\
  channel_ok EL6002_transmit_accept EL6002_receive_request EL6002_init_accept EL6002_in_string = true /\
  channel_ok EL6022_transmit_request EL6022_receive_accept EL6022_init_request EL6022_out_string = true /\
  channel_ok EL6022_transmit_accept EL6022_receive_request EL6022_init_accept EL6022_in_string = true /\
  Z.of_nat chunk + 1 = d_width EL6002_out_string /\ Z.of_nat chunk + 1 = d_width EL6002_in_string /\
  Z.of_nat chunk + 1 = d_width EL6022_out_string /\ Z.of_nat chunk + 1 = d_width EL6022_in_string.
Proof. exact (conj EL6002_out_ok (conj EL6002_in_ok (conj EL6022_out_ok (conj EL6022_in_ok chunk_fits)))). Qed.
Print Assumptions C28_channel_layout.

(* not vacuous: two channels, eight variables each; writing channel 1's string into a 48-byte image keeps channel 2's control byte *)
Example C28_layout_nonvacuous :
  length EL6002_channels = 2%nat /\ length EL6002_descs = 8%nat /\
  nth 24 (wr (repeat 7 48) (Z.to_nat (lo (0, 0) EL6002_out_string)) (repeat 0 23)) 99 = 7.
Proof. vm_compute. repeat split. Qed.
