"""Validation of the hash-map helper calls of the executable model (coq/Corr/C09.v:
map_lookup_elem / map_update_elem with its flags / map_delete_elem, values reached
through the returned pointer, capacity) against the running kernel: random
sequences of helper calls on a real BPF hash map, executed by BPF_PROG_TEST_RUN
and by the model, must give the same return values, the same values read through
the pointers and the same final map.  Skipped when bpf() is not permitted."""
import os
import random

from .common import eval_terms
from .ebpf_exec import assemble, cbytes, cprog, kernel_available
from .isa_check import raw_test_run

SLOT = 0x0EE0EE


def rand_case(rng):
    ks, vs = rng.choice([1, 2, 4, 8]), rng.choice([1, 2, 4, 8, 12, 16])
    maxe = rng.choice([1, 2, 3, 8])
    keys = [bytes(rng.randrange(256) for _ in range(ks)) for _ in range(3)]
    keys = list(dict.fromkeys(keys))
    entries = {}
    for k in keys[:rng.randint(0, min(len(keys), maxe))]:
        entries[k] = bytes(rng.randrange(256) for _ in range(vs))
    ops = []
    for _ in range(rng.randint(1, 7)):
        r = rng.random()
        k = rng.choice(keys)
        if r < 0.4:
            rd = rng.choice([s for s in (1, 2, 4, 8) if s <= vs])
            mod = None
            if rng.random() < 0.5:
                sz = rng.choice([s for s in (1, 2, 4, 8) if s <= vs])
                mod = ("st", sz, rng.randrange(-2 ** 31, 2 ** 31))
                if sz >= 4 and rng.random() < 0.5:
                    mod = ("xadd", sz, rng.randrange(-2 ** 31, 2 ** 31))
            ops.append(("lookup", k, rd, mod))
        elif r < 0.5:
            # a pointer obtained by a lookup is kept across an update of the same key and written through afterwards:
            # the kernel installed a new element, the write goes to the old one and is not part of the map
            sz = rng.choice([s for s in (1, 2, 4, 8) if s <= vs])
            ops.append(("stale", k, bytes(rng.randrange(256) for _ in range(vs)), (sz, rng.randrange(-2 ** 31, 2 ** 31))))
        elif r < 0.8:
            ops.append(("update", k, bytes(rng.randrange(256) for _ in range(vs)), rng.choice([0, 0, 1, 2])))
        else:
            ops.append(("delete", k))
    return {"ks": ks, "vs": vs, "max": maxe, "entries": entries, "ops": ops}


SZ_BITS = {1: 0x10, 2: 0x08, 4: 0x00, 8: 0x18}


def program(case, fd):
    I = [(0x61, 6, 1, 0, 0), (0x61, 7, 1, 4, 0), (0xbf, 8, 6, 0, 0), (0x07, 8, 0, 0, 64), (0x2d, 8, 7, 0, 0)]
    guard = len(I) - 1

    def s32(x):
        return x - 2 ** 32 if x >= 2 ** 31 else x
    for j, op in enumerate(case["ops"]):
        key = op[1].ljust(8, b"\0")
        I += [(0x62, 10, 0, -8, s32(int.from_bytes(key[:4], "little"))), (0x62, 10, 0, -4, s32(int.from_bytes(key[4:], "little")))]
        if op[0] == "update":
            v = op[2].ljust(16, b"\0")
            for q in range(4):
                I.append((0x62, 10, 0, -24 + 4 * q, s32(int.from_bytes(v[4 * q:4 * q + 4], "little"))))
        if op[0] == "stale":
            v = op[2].ljust(16, b"\0")
            for q in range(4):
                I.append((0x62, 10, 0, -24 + 4 * q, s32(int.from_bytes(v[4 * q:4 * q + 4], "little"))))
            sz, imm = op[3]
            after = [(0x18, 1, 1, 0, fd), (0, 0, 0, 0, 0), (0xbf, 2, 10, 0, 0), (0x07, 2, 0, 0, -8), (0xbf, 3, 10, 0, 0), (0x07, 3, 0, 0, -24),
                     (0xb7, 4, 0, 0, 0), (0x85, 0, 0, 0, 2), (0x7b, 6, 0, 8 * j, 0), (0x62 & ~0x18 | SZ_BITS[sz], 8, 0, 0, imm), (0x05, 0, 0, 1, 0)]
            I += [(0x18, 1, 1, 0, fd), (0, 0, 0, 0, 0), (0xbf, 2, 10, 0, 0), (0x07, 2, 0, 0, -8), (0x85, 0, 0, 0, 1), (0xbf, 8, 0, 0, 0),
                  (0x15, 8, 0, len(after), 0)] + after + [(0x7a, 6, 0, 8 * j, SLOT)]
            continue
        I += [(0x18, 1, 1, 0, fd), (0, 0, 0, 0, 0), (0xbf, 2, 10, 0, 0), (0x07, 2, 0, 0, -8)]
        if op[0] == "update":
            I += [(0xbf, 3, 10, 0, 0), (0x07, 3, 0, 0, -24), (0xb7, 4, 0, 0, op[3]), (0x85, 0, 0, 0, 2), (0x7b, 6, 0, 8 * j, 0)]
        elif op[0] == "delete":
            I += [(0x85, 0, 0, 0, 3), (0x7b, 6, 0, 8 * j, 0)]
        else:
            body = [(0x61 & ~0x18 | SZ_BITS[op[2]], 2, 0, 0, 0), (0x7b, 6, 2, 8 * j, 0)]
            if op[3] is not None:
                kind, sz, imm = op[3]
                if kind == "st":
                    body.append((0x62 & ~0x18 | SZ_BITS[sz], 0, 0, 0, imm))
                else:
                    body += [(0xb7, 3, 0, 0, imm), (0xc3 & ~0x18 | SZ_BITS[sz], 0, 3, 0, 0)]
            body.append((0x05, 0, 0, 1, 0))
            I += [(0x85, 0, 0, 0, 1), (0x15, 0, 0, len(body), 0)] + body + [(0x7a, 6, 0, 8 * j, SLOT)]
    I += [(0xb7, 0, 0, 0, 2), (0x95, 0, 0, 0, 0)]
    exit_at = len(I)
    I += [(0xb7, 0, 0, 0, 1), (0x95, 0, 0, 0, 0)]
    op, d, s, _, imm = I[guard]
    I[guard] = (op, d, s, exit_at - guard - 1, imm)
    return I


def kernel_run(case, pkt):
    from ebpfcat import bpf
    fd = bpf.create_map(bpf.MapType.HASH, case["ks"], case["vs"], case["max"])
    try:
        for k, v in case["entries"].items():
            bpf.update_elem(fd, k, v)
        retval, out = raw_test_run(assemble(program(case, fd)), pkt)
        final, key = {}, case["ks"]
        while True:
            try:
                key = bytes(bpf.get_next_key(fd, key))
            except StopIteration:
                break
            final[key] = bytes(bpf.lookup_elem(fd, key, case["vs"]))
        return retval, out, final
    finally:
        os.close(fd)


def model_term(case, pkt):
    ents = ", ".join(f"({cbytes(k)}, {i}%nat)" for i, k in enumerate(case["entries"]))
    ms = "[" + "; ".join(cbytes(v) for v in case["entries"].values()) + "]"
    tab = (f"{{| h_id := 100; h_key := {case['ks']}%nat; h_value := {case['vs']}%nat; h_max := {case['max']}; "
           f"h_tab := [{ents.replace(', (', '; (')}] |}}")
    return f"(exec_hash_pkt {cprog(program(case, 100))} {cbytes(pkt)} {ms} [{tab}])"


def check(seed, n=60):
    """returns (name, ok, detail)"""
    if not kernel_available():
        return ("hash-helpers-vs-kernel", True, "skipped: bpf() not permitted here")
    rng = random.Random(seed)
    cases, terms, kern, rejected = [], [], [], 0
    for _ in range(n):
        case = rand_case(rng)
        pkt = bytes(rng.randrange(256) for _ in range(64))
        try:
            k = kernel_run(case, pkt)
        except OSError as e:
            rejected += 1
            continue
        cases.append(case)
        kern.append(k)
        terms.append(model_term(case, pkt))
    vals, log = eval_terms("hashk", ["Ebpf.Isa", "Corr.Exec", "Corr.C09"], terms, shard=40)
    bad = []
    for case, (retval, out, final), v in zip(cases, kern, vals):
        if v is None:
            bad.append(("model evaluation failed", case))
            continue
        status, r0, pk, regions, tabs = v
        mpkt = bytes(x for x, c in pk for _ in range(c))
        mfinal = {bytes(k): bytes(regions[i]) for k, i in tabs[0][1]}
        if status != [1] or r0 != retval or mpkt != out or mfinal != final:
            bad.append(({"kernel": [retval, out[:56].hex(), {k.hex(): v.hex() for k, v in final.items()}],
                         "model": [status, r0, mpkt[:56].hex(), {k.hex(): v.hex() for k, v in mfinal.items()}]}, case))
    ok = not bad and len(cases) >= n // 2
    return ("hash-helpers-vs-kernel", ok, f"{len(cases)} random helper-call sequences on a real BPF hash map executed by the kernel and by the model, "
            f"{len(bad)} differ, {rejected} rejected {str(bad[:1])[:600] if bad else ''}")


if __name__ == "__main__":
    import sys
    print(check(int(sys.argv[1]) if len(sys.argv) > 1 else 1, 100))
