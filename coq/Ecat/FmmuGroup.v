(* Several sync groups share one terminal (ebpfcat.py SyncGroupBase.map_fmmu): a group maps its output image, then its input
   image, inside one exit stack; when the second mapping is refused the first one is given back, and the group is refused as a
   whole.  Built on the terminal-level model Fmmu.v (slot choice, booking, release). *)
From Verif Require Export Ecat.Fmmu.

Inductive gop := GMap (g : nat) (out_ inp : option Z) | GUnmap (g : nat).
(* table + the running groups with the slots (python indices) they hold *)
Record gst := { gtbl : used; groups : list (nat * list Z) }.

Definition release_all (u : used) (slots : list Z) : used :=
  fold_left (fun u i => match map_exit u i with Some u' => u' | None => u end) slots u.

Definition group_enter (u : used) (out_ inp : option Z) : option (list Z * used) :=
  let first := match out_ with
               | None => Some ([], u)
               | Some lg => option_map (fun p => ([fst p], snd p)) (map_enter u true lg)
               end in
  match first with
  | None => None
  | Some (sl, u1) =>
      match inp with
      | None => Some (sl, u1)
      | Some lg =>
          match map_enter u1 false lg with
          | Some (i, u2) => Some (sl ++ [i], u2)
          | None => None          (* the exit stack unwinds: see group_refused_restores *)
          end
      end
  end.

Definition gstep (s : gst) (o : gop) : gst :=
  match o with
  | GMap g out_ inp =>
      match group_enter (gtbl s) out_ inp with
      | Some (sl, u') => {| gtbl := u'; groups := groups s ++ [(g, sl)] |}
      | None => s
      end
  | GUnmap g =>
      match find (fun p => Nat.eqb (fst p) g) (groups s) with
      | Some (_, sl) => {| gtbl := release_all (gtbl s) (rev sl); groups := filter (fun p => negb (Nat.eqb (fst p) g)) (groups s) |}
      | None => s
      end
  end.
Definition ginit (n : nat) : gst := {| gtbl := repeat None n; groups := [] |}.

(* what the exit stack really does when the input mapping is refused after the output mapping was made: it leaves the output
   mapping again *)
Definition unwind (u : used) (out_ : option Z) (inp : Z) : option used :=
  match out_ with
  | None => match map_enter u false inp with None => Some u | Some _ => None end
  | Some lg =>
      match map_enter u true lg with
      | None => Some u
      | Some (i, u1) => match map_enter u1 false inp with None => map_exit u1 i | Some _ => None end
      end
  end.
