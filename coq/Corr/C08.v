From Verif Require Import Lib.Base Gen.Layout Corr.C04.
(* progs: for every program / subprogram instance the (name, size) declarations of its MRO, most derived class first *)
Definition collect_mro (progs : list (list (Z * Z))) : V :=
  let entries := concat (map (fun l => dedupe [] l) progs) in      (* one entry per program and name *)
  let pos := collect (map snd entries) in
  let total := fold_right Z.add 0 (map snd entries) in
  VL [VL (map VZ pos); VZ ((total + 7) / 8 * 8)].
