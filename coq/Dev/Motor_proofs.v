From Verif Require Import Dev.Motor.

Lemma s64_id z : - 9223372036854775808 <= z < 9223372036854775808 -> s64 z = z.
Proof.
  intros H. unfold s64, sx64, W64.
  destruct (Z.ltb_spec (z mod 18446744073709551616) (18446744073709551616 / 2)); lia.
Qed.
Lemma s16_id z : - 32768 <= z < 32768 -> s16 z = z.
Proof.
  intros H. unfold s16, sx. change (2 ^ (8 * Z.of_nat 2 - 1)) with 32768. change (2 ^ (8 * Z.of_nat 2)) with 65536.
  destruct (Z.ltb_spec (z mod 65536) 32768); lia.
Qed.

Theorem motor_correct i : pre i -> motor_impl i = motor_spec i.
Proof.
  destruct i as [g t a vm p pv lo hi]. unfold pre, motor_impl, motor_spec, clamp. cbn [gain target acc vmax pos prev low high].
  unfold W32. intros (Hg & Ht & Ha & Hv & Hp & Hpv & Hd).
  set (d := g * (t - p)) in *. clearbody d.
  rewrite (s64_id d) by lia. rewrite (s64_id (pv + a)) by lia.
  set (st1 := if pv + a <? d then pv + a else d).
  assert (E1 : st1 = Z.min (pv + a) d) by (subst st1; destruct (Z.ltb_spec (pv + a) d); lia).
  rewrite (s64_id (st1 + a)) by lia. rewrite (s64_id (pv - a)) by lia.
  set (st2 := if st1 + a <? pv then pv - a else st1).
  assert (E2 : st2 = Z.max (pv - a) (Z.min (pv + a) d)) by (subst st2; destruct (Z.ltb_spec (st1 + a) pv); lia).
  rewrite (s64_id (- vm)) by lia.
  set (st3 := if vm <? st2 then vm else st2).
  assert (E3 : st3 = Z.min vm st2) by (subst st3; destruct (Z.ltb_spec vm st2); lia).
  set (st4 := if st3 <? - vm then - vm else st3).
  assert (E4 : st4 = Z.max (- vm) (Z.min vm st2)) by (subst st4; destruct (Z.ltb_spec st3 (- vm)); lia).
  rewrite (s16_id st4) by lia. rewrite E4, E2.
  set (d2 := Z.max (- vm) (Z.min vm (Z.max (pv - a) (Z.min (pv + a) d)))).
  destruct lo, hi; cbn [andb]; destruct (Z.ltb_spec d2 0); destruct (Z.ltb_spec 0 d2); try reflexivity; try lia;
    try (destruct (Z.ltb_spec 0 0); [lia|reflexivity]).
Qed.

(* the consequences named by the property *)
Theorem motor_safe i : pre i ->
  let v := motor_impl i in
  - vmax i <= v <= vmax i /\
  (low i = true -> 0 <= v) /\ (high i = true -> v <= 0) /\
  (v = 0 \/ - acc i <= v - prev i <= acc i).
Proof.
  intros H. rewrite (motor_correct i H). destruct i as [g t a vm p pv lo hi].
  unfold pre, motor_spec, clamp in *. cbn [gain target acc vmax pos prev low high] in *. unfold W32 in H.
  destruct H as (Hg & Ht & Ha & Hv & Hp & Hpv & Hd).
  set (d := g * (t - p)) in *. clearbody d.
  set (d2 := Z.max (- vm) (Z.min vm (Z.max (pv - a) (Z.min (pv + a) d)))).
  assert (R : - vm <= d2 <= vm) by lia.
  assert (A : - a <= d2 - pv <= a) by lia.
  destruct lo, hi; cbn [andb]; destruct (Z.ltb_spec d2 0); destruct (Z.ltb_spec 0 d2);
    repeat split; intros; try discriminate; try lia.
Qed.
