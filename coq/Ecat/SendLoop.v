(* EtherCat.sendloop (packing of queued datagram requests into frames) and
   EtherCat.process_packet (completion of the requests of one frame). *)
From Verif Require Export Ecat.Frame.

Record rq := { q_id : Z; q_data : list Z }.

Definition fits (size : Z) (cnt : nat) (n : Z) : bool :=
  (size + n + Packet_DATAGRAM_HEADER + Packet_DATAGRAM_TAIL <=? Packet_MAXSIZE)
  && (Z.of_nat cnt <=? Packet_append_maxcount).

Definition fits_alone (r : rq) : bool := fits Packet_PACKET_HEADER 0 (zlen (q_data r)).

(* One run of sendloop over the requests found in the queue (it does not await
   while the queue is non-empty).  cur/size: the packet being filled.
   Result: frames handed to process_packet, in order, and the requests that
   can never fit (their future gets the OverflowError). *)
Fixpoint pack (rs : list rq) (cur : list rq) (size : Z) : list (list rq) * list rq :=
  match rs with
  | [] => (match cur with [] => [] | _ => [cur] end, [])
  | r :: tl =>
      let n := zlen (q_data r) in
      if fits size (length cur) n then
        match tl with
        | [] => ([cur ++ [r]], [])
        | _ => pack tl (cur ++ [r]) (size + n + Packet_DATAGRAM_HEADER + Packet_DATAGRAM_TAIL)
        end
      else
        match cur with
        | [] => let '(fs, bad) := pack tl [] Packet_PACKET_HEADER in (fs, r :: bad)
        | _ =>
            if fits_alone r then
              match tl with
              | [] => ([cur; [r]], [])
              | _ => let '(fs, bad) := pack tl [r] (Packet_PACKET_HEADER + n + Packet_DATAGRAM_HEADER + Packet_DATAGRAM_TAIL)
                     in (cur :: fs, bad)
              end
            else let '(fs, bad) := pack tl [] Packet_PACKET_HEADER in (cur :: fs, r :: bad)
        end
  end.

Definition frame_size (f : list rq) : Z :=
  Packet_PACKET_HEADER + fold_right (fun r acc => zlen (q_data r) + 12 + acc) 0 f.

(* ---- process_packet ---- *)
Inductive fstate := FPending | FDone.      (* FDone: cancelled by its caller (or otherwise done) *)
Inductive outcome :=
| OUntouched                 (* future was already done: left alone *)
| OResult (l : list Z)
| OError                     (* EtherCatError: datagram was not processed *)
| OExc.                      (* the exception that aborted process_packet (struct.error) *)

Definition wkc_at (data : list Z) (stop : Z) : Z :=
  nth (Z.to_nat stop) data 0 + 256 * nth (Z.to_nat (stop + 1)) data 0.

Definition complete (data : list Z) (d : Z * Z * fstate) : outcome :=
  let '(start, stop, f) := d in
  match f with
  | FDone => OUntouched
  | FPending => if wkc_at data stop =? 0 then OError
                else OResult (ztake (stop - start) (zdrop start data))
  end.

Fixpoint process (data : list Z) (ds : list (Z * Z * fstate)) : list outcome :=
  match ds with
  | [] => []
  | (start, stop, f) :: tl =>
      if zlen data <? stop + 2
      then (* unpack_from raises: every future not yet done gets the exception *)
        map (fun d => match snd d with FPending => OExc | FDone => OUntouched end) ds
      else complete data (start, stop, f) :: process data tl
  end.
