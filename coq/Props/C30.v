(* C30 Slow sync groups exchange process data and check working counters.
   Model: Ecat/Cycle.v (SyncGroup.update_devices as used by SyncGroupBase.run);
   the devices are an arbitrary function from the data they see to byte writes. *)
From Verif Require Import Ecat.Cycle Ecat.Cycle_proofs.

(* what the devices see in update(): the latest response, byte for byte,
   except that every working counter (both bytes) reads zero *)
Theorem C30_inputs_before_update : forall cs resp dev m, (m < length resp)%nat ->
  let '(_, seen, _) := update_devices cs resp dev in
  nth m seen 0 = if is_counter_byte cs m then 0 else nth m resp 0.
Proof. intros cs resp dev m H. cbn. apply clear_counters_nth. exact H. Qed.
Print Assumptions C30_inputs_before_update.

(* the next frame is what the devices saw plus exactly their writes; bytes they
   do not write (in particular the cleared counters) go out unchanged *)
Theorem C30_outputs_next_frame : forall cs resp dev m,
  let '(_, seen, nxt) := update_devices cs resp dev in
  nxt = apply_patches (dev seen) seen /\
  ((forall p, In p (dev seen) -> fst p <> m) -> nth m nxt 0 = nth m seen 0).
Proof. intros cs resp dev m. cbn. split; [reflexivity|]. apply apply_patches_untouched. Qed.
Print Assumptions C30_outputs_next_frame.

Theorem C30_wkc_cleared : forall cs resp dev m, (m < length resp)%nat -> is_counter_byte cs m = true ->
  let '(_, seen, nxt) := update_devices cs resp dev in
  (forall p, In p (dev seen) -> fst p <> m) -> nth m nxt 0 = 0.
Proof.
  intros cs resp dev m H C. cbn. intros U. rewrite apply_patches_untouched by exact U.
  rewrite clear_counters_nth by exact H. now rewrite C.
Qed.
Print Assumptions C30_wkc_cleared.

(* one error per datagram whose returned 16-bit working counter differs from
   the expected count, none otherwise *)
Theorem C30_error_iff_mismatch : forall cs resp,
  (count_errors cs resp = 0 <-> Forall (fun c => word_at resp (fst c) = snd c) cs) /\
  forall c, count_errors (c :: cs) resp =
            (if word_at resp (fst c) =? snd c then 0 else 1) + count_errors cs resp.
Proof. intros. split; [apply count_errors_zero_iff|intros; apply count_errors_step]. Qed.
Print Assumptions C30_error_iff_mismatch.

Example C30_nonvacuous :
  update_devices [(3%nat, 1)] [7; 8; 9; 1; 1; 5] (fun seen => [(0%nat, nth 5 seen 0)]) = (1, [7; 8; 9; 0; 0; 5], [5; 8; 9; 0; 0; 5]).
Proof. vm_compute. reflexivity. Qed.
