From Verif Require Import Ecat.Cycle.

Lemma set_byte_length l : forall n v, length (set_byte n v l) = length l.
Proof. induction l; intros [|n] v; simpl; auto. Qed.

Lemma set_byte_same l : forall n v d, (n < length l)%nat -> nth n (set_byte n v l) d = v.
Proof. induction l as [|x l IH]; intros [|n] v d H; simpl in *; try lia; auto. apply IH. lia. Qed.

Lemma set_byte_other l : forall n m v d, n <> m -> nth m (set_byte n v l) d = nth m l d.
Proof. induction l as [|x l IH]; intros [|n] [|m] v d H; simpl; auto; try congruence. Qed.

Lemma clear_word_length f pos : length (clear_word f pos) = length f.
Proof. unfold clear_word. now rewrite !set_byte_length. Qed.

Lemma clear_counters_length cs : forall f, length (clear_counters cs f) = length f.
Proof.
  unfold clear_counters. induction cs as [|c cs IH]; intros f; cbn [fold_left]; [reflexivity|].
  rewrite IH. apply clear_word_length.
Qed.

Lemma clear_word_nth f pos m d : nth m (clear_word f pos) d =
  if (Nat.eqb m pos || Nat.eqb m (S pos))%bool then (if (m <? length f)%nat then 0 else d) else nth m f d.
Proof.
  unfold clear_word.
  destruct (Nat.eqb_spec m pos) as [->|N1]; cbn [orb].
  - rewrite set_byte_other by lia.
    destruct (Nat.ltb_spec pos (length f)).
    + now rewrite set_byte_same.
    + rewrite !nth_overflow; rewrite ?set_byte_length; auto; lia.
  - destruct (Nat.eqb_spec m (S pos)) as [->|N2].
    + destruct (Nat.ltb_spec (S pos) (length f)).
      * rewrite set_byte_same; [reflexivity|]. rewrite set_byte_length. lia.
      * rewrite !nth_overflow; rewrite ?set_byte_length; auto; lia.
    + rewrite !set_byte_other by lia. reflexivity.
Qed.

Definition is_counter_byte (cs : list (nat * Z)) (m : nat) : bool :=
  existsb (fun c => (Nat.eqb m (fst c) || Nat.eqb m (S (fst c)))%bool) cs.

(* after clearing: counter bytes are zero, every other byte is the response's *)
Lemma clear_counters_nth cs : forall f m, (m < length f)%nat ->
  nth m (clear_counters cs f) 0 = if is_counter_byte cs m then 0 else nth m f 0.
Proof.
  unfold clear_counters. induction cs as [|c cs IH]; intros f m H; cbn [fold_left is_counter_byte existsb]; [reflexivity|].
  rewrite IH by (rewrite clear_word_length; exact H).
  fold (is_counter_byte cs m). rewrite clear_word_nth.
  destruct (is_counter_byte cs m); [now rewrite orb_true_r|]. rewrite orb_false_r.
  destruct (Nat.eqb m (fst c) || Nat.eqb m (S (fst c)))%bool; [|reflexivity].
  destruct (Nat.ltb_spec m (length f)); [reflexivity|lia].
Qed.

Lemma apply_patches_untouched ps : forall f m, (forall p, In p ps -> fst p <> m) ->
  nth m (apply_patches ps f) 0 = nth m f 0.
Proof.
  unfold apply_patches. induction ps as [|p ps IH]; intros f m H; cbn [fold_left]; [reflexivity|].
  rewrite IH by (intros q Hq; apply H; now right).
  apply set_byte_other. apply H. now left.
Qed.

(* the number of errors is the number of datagrams whose returned 16-bit
   working counter differs from the expected count *)
Lemma count_errors_spec cs resp :
  count_errors cs resp = zlen (filter (fun c => negb (word_at resp (fst c) =? snd c)) cs).
Proof. reflexivity. Qed.

Lemma count_errors_zero_iff cs resp :
  count_errors cs resp = 0 <-> Forall (fun c => word_at resp (fst c) = snd c) cs.
Proof.
  unfold count_errors, zlen. induction cs as [|c cs IH]; cbn [filter]; [split; [constructor|reflexivity]|].
  destruct (Z.eqb_spec (word_at resp (fst c)) (snd c)) as [E|N]; cbn [negb].
  - rewrite IH. split; [intros H; constructor; assumption|intros H; now inversion H].
  - cbn [length]. split; [lia|]. intros H. inversion H. contradiction.
Qed.

Lemma count_errors_step c cs resp :
  count_errors (c :: cs) resp = (if word_at resp (fst c) =? snd c then 0 else 1) + count_errors cs resp.
Proof.
  unfold count_errors, zlen. cbn [filter]. destruct (word_at resp (fst c) =? snd c); cbn [negb length]; lia.
Qed.
