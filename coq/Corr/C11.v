From Verif Require Import Lib.Base Ecat.Frame.

(* ops: (writer?, datagram); a rejected append leaves the packet unchanged *)
Fixpoint run_ops (s : spacket) (ops : list (bool * dgram)) (acc : list V) : spacket * list V :=
  match ops with
  | [] => (s, rev acc)
  | (w, d) :: tl =>
      match append (sp s) d with
      | None => run_ops s tl (VErr 3 :: acc)
      | Some (_, (a, b)) =>
          let s' := match (if w then s_append_writer s d else s_append s d) with Some x => x | None => s end in
          run_ops s' tl (VL [VZ a; VZ b] :: acc)
      end
  end.

Definition run (ops : list (bool * dgram)) (index ethertype : Z) : V :=
  let '(s, outs) := run_ops {| sp := empty_packet; on_the_fly := [] |} ops [] in
  VL [VL outs;
      VOpt VR (assemble (sp s) index ethertype);
      VOpt VR (sterile s index ethertype);
      VBool (full (sp s));
      VZ (p_size (sp s));
      VL (map (fun e => VL [VZ (fst (fst e)); VZ (snd (fst e)); VZ (snd e)]) (on_the_fly s))].
