(* C29 Process-based sync groups share device variables correctly.
   The device variables of all devices of a process-based sync group live in ONE
   shared byte array laid out by ArrayMap.collect (C08's model, Gen/Layout.v);
   parent and child process read and write it through the same descriptors.
   Validated on every run with the REAL ProcessSyncGroup: the layout equals the
   model's, values written in the parent are read in a spawned child process
   that unpickled the group, and back. *)
From Verif Require Import Lib.ListX Gen.Layout Gen.Layout_proofs Gen.Packet Gen.Packet_proofs.

(* one slot per device variable (also for a variable redefined in a derived
   device class), sized by the declaration attribute lookup finds *)
Theorem C29_one_slot_per_variable : forall l,
  NoDup (map fst (dedupe [] l)) /\ forall n s, In (n, s) (dedupe [] l) -> first_def n l = Some s.
Proof. exact collect_one_slot_per_name. Qed.
(* variables of different devices (different entries of the collection) never share storage *)
Theorem C29_no_shared_storage : forall sizes pos, Forall (fun s => 0 <= s) sizes ->
  pairwise_disjoint (positions pos sizes) /\ Forall (fun r => pos <= fst r) (positions pos sizes).
Proof. exact positions_disjoint. Qed.
(* a write of one variable leaves all other bytes of the shared array alone,
   and reading it back (in either process: same bytes) gives the value *)
Theorem C29_write_frame : forall l off b l', write_bytes l off b = Some l' ->
  length l' = length l /\ read_bytes l' off (length b) = Some b /\
  forall i, (Z.of_nat i < off \/ off + zlen b <= Z.of_nat i) -> nth i l' 0 = nth i l 0.
Proof. exact write_bytes_frame. Qed.
Theorem C29_value_roundtrip : forall f v, (0 < pf_n f)%nat ->
  (if pf_signed f then - 2 ^ (8 * Z.of_nat (pf_n f) - 1) <= v < 2 ^ (8 * Z.of_nat (pf_n f) - 1)
   else 0 <= v < 256 ^ Z.of_nat (pf_n f)) ->
  unpack f (pack f v) = v.
Proof. exact unpack_pack. Qed.
Print Assumptions C29_one_slot_per_variable.
Print Assumptions C29_no_shared_storage.
Print Assumptions C29_write_frame.
Print Assumptions C29_value_roundtrip.
