"""C30: SyncGroup.update_devices / SyncGroupBase.run cycle on the simulated bus."""
import asyncio
import struct

from .common import Check, Err, RLE, clist, cnat, cz
from .c11 import parse_frame
from .rig import Rig


def rle_pairs(b):
    out = []
    for x in b:
        if out and out[-1][0] == x:
            out[-1][1] += 1
        else:
            out.append([x, 1])
    return out


class C30(Check):
    pid = "C30"
    props_file = "Props/C30.v"
    corr_imports = ["Ecat.Cycle", "Corr.C30"]
    technique = "Coq proof (list lemmas valid for every frame, counter table and device behaviour) + differential correspondence: real SyncGroup.run cycles on a simulated EtherCAT segment"
    trusted = ["harness/sim_bus.py (register-level bus simulator written from ETG.1000.4)", "asyncio timing: cycletime set to 0, lost frames use the real 20 ms timeout"]
    assumptions = ["devices write only their own process variables (not the working-counter bytes)"]

    # case: {"terms": [spec], "cycles": [ {"inputs": {pos: bytes}, "tamper": {dgram_no: wkc or None}, "lost": bool, "outs": {pos: (word, bit, byte)}} ]}
    def gen_cases(self):
        rng = self.rng
        out = []
        for _ in range(40 if self.tier == "quick" else 400):
            n = rng.randint(1, 4)
            # a quarter of the terminals have outputs but are only read by the group's devices
            terms = [dict(pos=1001 + i, **{"in": rng.randint(8, 14), "out": rng.randint(4, 9)}, fmmu=rng.random() < 0.6, rw=rng.random() < 0.75)
                     for i in range(n)]
            cycles = []
            for c in range(rng.randint(3, 6)):
                tamper = {}
                if rng.random() < 0.6:
                    for k in range(rng.randint(1, 2)):
                        tamper[rng.randrange(0, 2 * n + 2)] = rng.choice(["+1", "+256", "+512", "0", "-1", "x"])
                cycles.append({"inputs": {t["pos"]: bytes(rng.randrange(256) for _ in range(t["in"])) for t in terms},
                               "tamper": tamper, "lost": rng.random() < 0.04,
                               "outs": {t["pos"]: (rng.randrange(65536), rng.random() < 0.5, rng.randrange(256)) for t in terms}})
            if len(out) % 3 == 1 and len(cycles) >= 3:
                # a quiet bus: from the second cycle on two or three cycles repeat the one before - same inputs, same outputs set by
                # the devices, no fault - so that consecutive responses are byte-identical; the devices must still run every cycle
                for k in range(1, min(len(cycles), 2 + len(out) % 3 + 1)):
                    cycles[k] = {"inputs": dict(cycles[k - 1]["inputs"]), "tamper": {}, "lost": False, "outs": dict(cycles[k - 1]["outs"])}
                cycles[0]["tamper"] = {}
            out.append({"terms": terms, "cycles": cycles})
            if len(out) % 3 == 0:
                # the group had been started, run for some cycles (its devices writing outputs) and cancelled before: a restart
                out[-1]["prior"] = 2 + len(out) % 4
        return out

    def run_impl(self, case):
        from ebpfcat.ebpfcat import Device, SyncGroup, TerminalVar

        class RecDevice(Device):
            inw = TerminalVar()
            inb = TerminalVar()
            inl = TerminalVar()
            outw = TerminalVar()
            outb = TerminalVar()
            outy = TerminalVar()

            def __init__(self, t, rw=True):
                self.inw, self.inb, self.inl = t.in_word, t.in_bit, t.in_long
                self.rw = rw
                if rw:
                    self.outw, self.outb, self.outy = t.out_word, t.out_bit, t.out_byte
                self.seen, self.script, self.errs = [], [], []

            def update(self):
                self.seen.append((self.inw, self.inb, self.inl))
                self.errs.append(self.sync_group.wkc_errors)
                if self.script:
                    w, b, y = self.script.pop(0)
                    if self.rw:
                        self.outw, self.outb, self.outy = w, b, y

        async def go():
            rig = Rig(case["terms"])
            devs = [RecDevice(t, s_.get("rw", True)) for t, s_ in zip(rig.terms, case["terms"])]
            for d, t in zip(devs, rig.terms):
                d.script = [c["outs"][t.position] for c in case["cycles"]]
            sg = SyncGroup(rig.ec, devs)
            sg.cycletime = 0
            cyc = {"n": 0}
            records, truths = [], []

            measuring = [not case.get("prior")]
            prior_cycles = [0]

            def deliver(no, req, resp):
                idx, = struct.unpack_from("<I", req, 4)
                if idx != getattr(sg, "packet_index", None) or len(req) < 30 or req[2] != 0 or sg.current_data is None:
                    return [resp]
                if not measuring[0]:
                    prior_cycles[0] += 1
                    return [resp]
                k = cyc["n"]
                if k >= len(case["cycles"]):
                    return []
                c = case["cycles"][k]
                if c["lost"] and not c.get("_lost_done"):
                    c["_lost_done"] = True
                    records.append(("lost", bytes(req)))
                    return []
                r = bytearray(resp)
                # tamper with working counters of the response
                length, dgs, _ = parse_frame(resp)
                # what the (simulated) terminals really counted: the number of terminals that processed each datagram
                true = {d["datapos"] + d["len"]: d["wkc"] for d in dgs[1:]}
                truths.append(true)
                for dno, how in c["tamper"].items():
                    if dno + 1 < len(dgs):
                        d = dgs[dno + 1]
                        p = d["datapos"] + d["len"]
                        exp = true[p]
                        val = {"+1": exp + 1, "+256": exp + 256, "+512": exp + 512, "0": 0, "-1": (exp - 1) % 65536, "x": 0xab00 + exp}[how]
                        struct.pack_into("<H", r, p, val % 65536)
                records.append(("cycle", bytes(req), bytes(r)))
                cyc["n"] += 1
                # inputs for the NEXT frame on the bus
                if cyc["n"] < len(case["cycles"]):
                    for sim, t in zip(rig.sims, case["terms"]):
                        sim.mem[0x1180:0x1180 + t["in"]] = case["cycles"][cyc["n"]]["inputs"][t["pos"]]
                return [bytes(r)]

            rig.connect(deliver)
            for sim, t in zip(rig.sims, case["terms"]):
                sim.mem[0x1180:0x1180 + t["in"]] = case["cycles"][0]["inputs"][t["pos"]]
            if case.get("prior"):
                for d in devs:
                    d.script = [(0x5a5a, True, 0x77)] * 50
                task = sg.start()
                for _ in range(4000):
                    await asyncio.sleep(0)
                    if prior_cycles[0] >= case["prior"] or task.done():
                        break
                task.cancel()
                try:
                    await task
                except BaseException:      # noqa
                    pass
                for d, t in zip(devs, rig.terms):
                    d.script = [c["outs"][t.position] for c in case["cycles"]]
                    d.seen, d.errs = [], []
                for sim, t in zip(rig.sims, case["terms"]):
                    sim.mem[0x1180:0x1180 + t["in"]] = case["cycles"][0]["inputs"][t["pos"]]
                measuring[0] = True
            task = sg.start()
            for _ in range(4000):
                await asyncio.sleep(0)
                if cyc["n"] >= len(case["cycles"]) or task.done():
                    break
                if any(c["lost"] and c.get("_lost_done") and not c.get("_waited") for c in case["cycles"]):
                    for c in case["cycles"]:
                        if c.get("_lost_done"):
                            c["_waited"] = True
                    await asyncio.sleep(0.03)
            # let the last update run, then stop
            for _ in range(20):
                await asyncio.sleep(0)
            final_req = rig.ec.transport.sent[-1]
            task.cancel()
            try:
                await task
            except asyncio.CancelledError:
                pass
            except Exception as e:
                return Err(7, f"run() failed: {type(e).__name__}: {e}")
            await rig.shutdown()
            counters = sorted(sg.packet.counters.items())
            assign = {t.position: dict((sm.name, v) for sm, v in sg.pdo_assign[t].items()) for t in rig.terms}
            outs_mem = [bytes(sim.mem[0x1100:0x1100 + t["out"]]) for sim, t in zip(rig.sims, case["terms"])]
            return {"records": records, "counters": counters, "assign": assign, "truths": [sorted(t.items()) for t in truths],
                    "seen": [d.seen for d in devs], "errs": [d.errs for d in devs][0], "final": final_req, "outs_mem": outs_mem}
        try:
            return asyncio.run(go())
        except Exception as e:
            import traceback
            return Err(9, traceback.format_exc()[-600:])

    # ---- per-cycle view used by model and oracle
    def cycles_of(self, case, o):
        recs = [r for r in o["records"] if r[0] == "cycle"]
        nxt = [r[1] for r in recs[1:]] + [o["final"]]
        return [(r[1], r[2], n) for r, n in zip(recs, nxt)]

    def patches(self, case, o, k, resp):
        """byte writes of the devices in cycle k, computed from their scripts"""
        cleared = bytearray(resp)
        for p, _ in o["counters"]:
            cleared[p] = cleared[p + 1] = 0
        ps = []
        for t in case["terms"]:
            if not t.get("rw", True):
                continue
            w, b, y = case["cycles"][k]["outs"][t["pos"]]
            base = o["assign"][t["pos"]]["OUT"]
            ps += [(base, w & 0xff), (base + 1, w >> 8)]
            cur = cleared[base + 2]
            ps.append((base + 2, (cur | 0x20) if b else (cur & ~0x20 & 0xff)))
            ps.append((base + 3, y))
        return ps

    def model_value(self, case, o):
        if isinstance(o, Err):
            return o
        out = []
        errs = o["errs"]
        for k, (req, resp, nxt) in enumerate(self.cycles_of(case, o)):
            cleared = bytearray(resp)
            for p, _ in o["counters"]:
                cleared[p] = cleared[p + 1] = 0
            # what the devices saw cannot be read back as a whole frame; use the cleared response the
            # code must have produced iff the seen inputs agree (checked by the oracle); errors + next frame are observed
            de = errs[k] - (errs[k - 1] if k else 1)
            out.append([de, RLE(cleared), RLE(nxt)])
        return out

    def model_term(self, case):
        o = case["_o"]
        if isinstance(o, Err) or len(o["errs"]) < len(self.cycles_of(case, o)):
            return None
        cs = clist([f"({cnat(p)}, {cz(c)})" for p, c in o["counters"]])
        items = []
        for k, (req, resp, nxt) in enumerate(self.cycles_of(case, o)):
            rl = clist([f"({cz(v)}, {cnat(n)})" for v, n in rle_pairs(resp)])
            ps = clist([f"({cnat(p)}, {cz(v)})" for p, v in self.patches(case, o, k, resp)])
            items.append(f"(run {cs} {rl} {ps})")
        return "(VL " + clist(items) + ")"

    def holds(self, case, o):
        if isinstance(o, Err):
            return f"run failed: {o.what}"
        cyc = self.cycles_of(case, o)
        if len(cyc) != len(case["cycles"]):
            return f"only {len(cyc)} of {len(case['cycles'])} cycles completed"
        errs = o["errs"]
        short = [(t["pos"], len(o["seen"][ti])) for ti, t in enumerate(case["terms"]) if len(o["seen"][ti]) < len(cyc)]
        if short or len(errs) < len(cyc):
            return (f"{len(cyc)} responses came back from the bus, but the devices were updated only {short or len(errs)} times: "
                    f"they do not act on the latest response of every cycle")
        for k, (req, resp, nxt) in enumerate(cyc):
            c = case["cycles"][k]
            # (a) inputs of the latest response seen before update
            for ti, t in enumerate(case["terms"]):
                data = c["inputs"][t["pos"]]
                want = (struct.unpack_from("<H", data, 0)[0], bool(data[2] & 8), struct.unpack_from("<i", data, 3)[0])
                if o["seen"][ti][k] != want:
                    return f"cycle {k}: device of terminal {t['pos']} saw {o['seen'][ti][k]}, the bus delivered {want}"
            # (b) outputs in the next frame, (c) counters cleared
            for t in case["terms"]:
                if not t.get("rw", True):
                    continue
                w, b, y = c["outs"][t["pos"]]
                base = o["assign"][t["pos"]]["OUT"]
                got = (struct.unpack_from("<H", nxt, base)[0], bool(nxt[base + 2] & 0x20), nxt[base + 3])
                if got != (w, b, y):
                    return f"cycle {k}: outputs {(w, b, y)} of terminal {t['pos']} not in the next frame (found {got})"
            for p, cnt in o["counters"]:
                if nxt[p] or nxt[p + 1]:
                    return f"cycle {k}: working counter at {p} resent as {nxt[p] | nxt[p + 1] << 8}, not cleared"
            # (d) errors from the second cycle on
            if k >= 1:
                # the number of terminals expected to process a datagram is what the simulated terminals count on a healthy bus
                true = dict(o["truths"][k]) if k < len(o.get("truths", [])) else dict(o["counters"])
                wrong = sum(1 for p, cnt in true.items() if struct.unpack_from("<H", resp, p)[0] != cnt)
                if errs[k] - errs[k - 1] != wrong:
                    return (f"cycle {k}: {wrong} datagrams returned a working counter different from the number of terminals that process them "
                            f"({[(p, struct.unpack_from('<H', resp, p)[0], cnt) for p, cnt in sorted(true.items())]}), {errs[k] - errs[k - 1]} errors counted; "
                            f"the master expects {o['counters']}")
        return True

    def main(self):
        return super().main()

    def run_and_stash(self, case):
        o = self._run(case)
        case["_o"] = o
        return o

    def nontrivial(self, case, o):
        return not isinstance(o, Err) and any(c["tamper"] for c in case["cycles"][1:])

    def rule(self):
        return ("every third case as a RESTART (the same group object had run for 2-5 cycles, its devices writing outputs, and been cancelled); " +
                "1-4 terminals (FMMU or direct addressing, in 8-14 / out 4-9 bytes, a quarter only read although they have outputs) in a real SyncGroup on the simulated bus, 3-6 cycles with random input data, "
                "(a third of the cases: a quiet bus - two or three cycles repeat the one before, so that consecutive responses are byte-identical), device outputs (word, bit, byte per terminal), working counters tampered per datagram (+1, +256, +512, 0, -1, high byte garbage) and 4% lost frames; "
                "non-trivial = a tampered counter after the first cycle")

    def distribution(self, cases, observed):
        d = {"cycles": 0, "tampered": 0, "lost": 0, "high_byte_only": 0}
        for c in cases:
            d["cycles"] += len(c["cycles"])
            for cy in c["cycles"]:
                d["tampered"] += len(cy["tamper"])
                d["lost"] += cy["lost"]
                d["high_byte_only"] += sum(1 for h in cy["tamper"].values() if h in ("+256", "+512"))
        return d

    def describe(self, case):
        return {"terms": case["terms"],
                "cycles": [{"inputs": {str(k): v.hex() for k, v in c["inputs"].items()}, "tamper": {str(k): v for k, v in c["tamper"].items()},
                            "lost": c["lost"], "outs": {str(k): list(v) for k, v in c["outs"].items()}} for c in case["cycles"]],
                **({"prior": case["prior"]} if case.get("prior") else {})}

    def case_from_json(self, w):
        return {"terms": w["terms"],
                "cycles": [{"inputs": {int(k): bytes.fromhex(v) for k, v in c["inputs"].items()}, "tamper": {int(k): v for k, v in c["tamper"].items()},
                            "lost": c["lost"], "outs": {int(k): tuple(v) for k, v in c["outs"].items()}} for c in w["cycles"]],
                **({"prior": w["prior"]} if w.get("prior") else {})}


# run_impl must stash its result for model_term (which needs the observed responses)
_orig = C30.run_impl


def _wrapped(self, case):
    for c in case["cycles"]:
        c.pop("_lost_done", None)
        c.pop("_waited", None)
    o = _orig(self, case)
    case["_o"] = o
    return o


C30.run_impl = _wrapped
CHECK = C30
