(* Bit-field variables (ebpf.py Memory._set / Memory.calculate with fmt = (pos, bits)): several declared variables share one byte.
   A store computes   mask & (value << pos) | ~mask & byte   with mask = ((1 << bits) - 1) << pos  (for a one-bit field and a
   constant:  byte | (1 << pos)  or  byte & ~(1 << pos));  a load computes  (byte & mask) >> pos. *)
From Verif Require Export Lib.Base.

Definition fmask (pos bits : Z) : Z := Z.shiftl (Z.ones bits) pos.
Definition set_field (b v pos bits : Z) : Z :=
  Z.lor (Z.land (fmask pos bits) (Z.shiftl v pos)) (Z.land (Z.lnot (fmask pos bits)) b).
Definition get_field (b pos bits : Z) : Z := Z.shiftr (Z.land b (fmask pos bits)) pos.
(* one-bit fields: a constant sets or clears the bit according to its truth value *)
Definition set_flag (b : Z) (truth : bool) (pos : Z) : Z :=
  if truth then Z.lor b (Z.shiftl 1 pos) else Z.land b (Z.lnot (Z.shiftl 1 pos)).

(* a packet with bit-field operations, for the correspondence check *)
Inductive bop :=
| BSet (addr pos bits v : Z)          (* field := v   (bits > 1, or a run-time value for bits = 1 is BFlag with its truth) *)
| BFlag (addr pos : Z) (truth : bool).
Definition upd_byte (pkt : list Z) (addr : Z) (f : Z -> Z) : list Z :=
  let k := Z.to_nat addr in firstn k pkt ++ match skipn k pkt with [] => [] | b :: tl => f b :: tl end.
Definition bstep (pkt : list Z) (o : bop) : list Z :=
  match o with
  | BSet addr pos bits v => upd_byte pkt addr (fun b => set_field b v pos bits)
  | BFlag addr pos t => upd_byte pkt addr (fun b => set_flag b t pos)
  end.
