From Verif Require Import Ecat.Addr.

Lemma mem_In i l : mem i l = true <-> In i l.
Proof.
  unfold mem. rewrite existsb_exists. split.
  - intros (x & I & E). apply Z.eqb_eq in E. now subst.
  - intros I. exists i. split; [exact I|apply Z.eqb_refl].
Qed.

Definition tnth (s : st) (t : nat) : tstate := nth t (tasks s) (TKeep 0).

Record Inv (lo hi : Z) (pre : list Z) (s : st) : Prop := {
  i_len : length (tasks s) = length pre /\ length (bus s) = length pre;
  i_claim : forall t i, claim (tnth s t) = Some i -> In i (used s) /\ lo <= i <= hi;
  i_excl : forall t1 t2 i, t1 <> t2 -> claim (tnth s t1) = Some i -> claim (tnth s t2) = Some i -> False;
  i_fresh : forall t i k, assigned (tnth s t) = Some i -> nth k pre 0 <> 0 -> nth k pre 0 <> i;
  i_pre : forall t, nth t pre 0 <> 0 -> nth t (bus s) 0 = nth t pre 0 /\ tnth s t = TKeep (nth t pre 0);
  i_bus : forall t, nth t pre 0 = 0 ->
          nth t (bus s) 0 = match tnth s t with TDone i => i | _ => 0 end }.

Lemma nth_error_nth' {A} (l : list A) t x d : nth_error l t = Some x -> nth t l d = x /\ (t < length l)%nat.
Proof. intros H. split; [now apply nth_error_nth|]. apply nth_error_Some. congruence. Qed.

Lemma inv_init lo hi pre : Inv lo hi pre (init pre).
Proof.
  assert (N : forall t, tnth (init pre) t = if nth t pre 0 =? 0 then (if (t <? length pre)%nat then TDraw else TKeep 0) else TKeep (nth t pre 0)).
  { intros t. unfold tnth, init. cbn [tasks]. revert t.
    induction pre as [|a l IHl]; intros t.
    - destruct t; reflexivity.
    - destruct t as [|t]; cbn [map nth length].
      + destruct (a =? 0); reflexivity.
      + rewrite IHl. destruct (nth t l 0 =? 0); [|reflexivity].
        destruct (Nat.ltb_spec t (length l)), (Nat.ltb_spec (S t) (S (length l))); try lia; reflexivity. }
  constructor; cbn [init bus used tasks].
  - now rewrite map_length.
  - intros t i H. rewrite N in H. destruct (nth _ pre 0 =? 0); [destruct (_ <? _)%nat|]; discriminate.
  - intros t1 t2 i _ H. rewrite N in H. destruct (nth _ pre 0 =? 0); [destruct (_ <? _)%nat|]; discriminate.
  - intros t i k H. rewrite N in H. destruct (nth _ pre 0 =? 0); [destruct (_ <? _)%nat|]; discriminate.
  - intros t H. split; [reflexivity|]. rewrite N. destruct (Z.eqb_spec (nth t pre 0) 0); [contradiction|reflexivity].
  - intros t H. rewrite N, H. change (0 =? 0) with true. cbv iota. destruct (t <? length pre)%nat; reflexivity.
Qed.

Lemma tnth_set s t v t' used' bus' : (t < length (tasks s))%nat ->
  tnth {| used := used'; bus := bus'; tasks := set_at t v (tasks s) |} t' = if Nat.eqb t t' then v else tnth s t'.
Proof.
  intros L. unfold tnth. cbn [tasks]. destruct (Nat.eqb_spec t t') as [<-|N].
  - now apply nth_set_at_same.
  - now apply nth_set_at_other.
Qed.

Lemma step_inv lo hi pre s e : Inv lo hi pre s -> Inv lo hi pre (step lo hi s e).
Proof.
  intros I. destruct I as [[L1 L2] IC IE IF IP IB].
  destruct e as [t i|t|t]; cbn [step].
  - (* Draw *)
    destruct (nth_error (tasks s) t) as [[| | | |]|] eqn:E; try solve [constructor; auto].
    destruct (nth_error_nth' _ _ _ (TKeep 0) E) as [Et Lt]. fold (tnth s t) in Et.
    destruct (negb ((lo <=? i) && (i <=? hi))) eqn:R; [solve [constructor; auto]|].
    destruct (mem i (used s)) eqn:M; [solve [constructor; auto]|].
    assert (Ri : lo <= i <= hi) by (apply negb_false_iff in R; lia).
    assert (Mi : ~ In i (used s)) by (rewrite <- mem_In; congruence).
    constructor; cbn [used bus tasks].
    + rewrite set_at_length. auto.
    + intros t' j H. rewrite tnth_set in H by exact Lt. destruct (Nat.eqb_spec t t').
      * cbn in H. inversion H; subst. split; [now left|exact Ri].
      * destruct (IC _ _ H). split; [now right|assumption].
    + intros t1 t2 j N H1 H2. rewrite tnth_set in H1, H2 by exact Lt.
      destruct (Nat.eqb_spec t t1), (Nat.eqb_spec t t2); subst; try congruence.
      * cbn in H1. inversion H1; subst. apply Mi. apply (IC _ _ H2).
      * cbn in H2. inversion H2; subst. apply Mi. apply (IC _ _ H1).
      * exact (IE _ _ _ N H1 H2).
    + intros t' j k H. rewrite tnth_set in H by exact Lt. destruct (Nat.eqb_spec t t'); [discriminate|]. eapply IF; eauto.
    + intros t' H. destruct (IP _ H) as [B K]. split; [exact B|].
      rewrite tnth_set by exact Lt. destruct (Nat.eqb_spec t t'); [subst; congruence|exact K].
    + intros t' H. rewrite tnth_set by exact Lt. destruct (Nat.eqb_spec t t').
      * subst. rewrite (IB _ H), Et. reflexivity.
      * apply IB, H.
  - (* Probed *)
    destruct (nth_error (tasks s) t) as [[| |i| |]|] eqn:E; try solve [constructor; auto].
    destruct (nth_error_nth' _ _ _ (TKeep 0) E) as [Et Lt]. fold (tnth s t) in Et.
    assert (Ci : claim (tnth s t) = Some i) by (rewrite Et; reflexivity).
    constructor; cbn [used bus tasks].
    + rewrite set_at_length. auto.
    + intros t' j H. rewrite tnth_set in H by exact Lt. destruct (Nat.eqb_spec t t').
      * destruct (mem i (bus s)); [discriminate|]. cbn in H. inversion H; subst. apply (IC _ _ Ci).
      * apply (IC _ _ H).
    + intros t1 t2 j N H1 H2. rewrite tnth_set in H1, H2 by exact Lt.
      destruct (Nat.eqb_spec t t1), (Nat.eqb_spec t t2); subst; try congruence.
      * destruct (mem i (bus s)); [discriminate|]. cbn in H1. inversion H1; subst. eapply (IE t1 t2); eauto.
      * destruct (mem i (bus s)); [discriminate|]. cbn in H2. inversion H2; subst. eapply (IE t1 t2); eauto.
      * exact (IE _ _ _ N H1 H2).
    + intros t' j k H Hk. rewrite tnth_set in H by exact Lt. destruct (Nat.eqb_spec t t'); [|eapply IF; eauto].
      destruct (mem i (bus s)) eqn:M; [discriminate|]. cbn in H. inversion H; subst j.
      (* the probe was not answered: no terminal has this address, in particular no pre-assigned one *)
      intros Ek. destruct (IP k Hk) as [B _].
      assert (Lk : (k < length pre)%nat).
      { destruct (Nat.ltb_spec k (length pre)); [assumption|]. rewrite nth_overflow in Hk by lia. congruence. }
      assert (Hin : In i (bus s)). { rewrite <- Ek, <- B. apply nth_In. lia. }
      rewrite <- mem_In in Hin. congruence.
    + intros t' H. destruct (IP _ H) as [B K]. split; [exact B|].
      rewrite tnth_set by exact Lt. destruct (Nat.eqb_spec t t'); [subst; congruence|exact K].
    + intros t' H. rewrite tnth_set by exact Lt. destruct (Nat.eqb_spec t t').
      * subst. rewrite (IB _ H), Et. destruct (mem i (bus s)); reflexivity.
      * apply IB, H.
  - (* Wrote *)
    destruct (nth_error (tasks s) t) as [[| | |i|]|] eqn:E; try solve [constructor; auto].
    destruct (nth_error_nth' _ _ _ (TKeep 0) E) as [Et Lt]. fold (tnth s t) in Et.
    assert (Ci : claim (tnth s t) = Some i) by (rewrite Et; reflexivity).
    constructor; cbn [used bus tasks].
    + rewrite !set_at_length. auto.
    + intros t' j H. rewrite tnth_set in H by exact Lt. destruct (Nat.eqb_spec t t').
      * cbn in H. inversion H; subst. apply (IC _ _ Ci).
      * apply (IC _ _ H).
    + intros t1 t2 j N H1 H2. rewrite tnth_set in H1, H2 by exact Lt.
      destruct (Nat.eqb_spec t t1), (Nat.eqb_spec t t2); subst; try congruence.
      * cbn in H1. inversion H1; subst. eapply (IE t1 t2); eauto.
      * cbn in H2. inversion H2; subst. eapply (IE t1 t2); eauto.
      * exact (IE _ _ _ N H1 H2).
    + intros t' j k H Hk. rewrite tnth_set in H by exact Lt. destruct (Nat.eqb_spec t t'); [|eapply IF; eauto].
      cbn in H. inversion H; subst j. apply (IF t i k); [rewrite Et; reflexivity|exact Hk].
    + intros t' H. destruct (IP _ H) as [B K].
      assert (t <> t') by (intros ->; congruence).
      split; [rewrite nth_set_at_other by assumption; exact B|].
      rewrite tnth_set by exact Lt. destruct (Nat.eqb_spec t t'); [contradiction|exact K].
    + intros t' H. rewrite tnth_set by exact Lt. destruct (Nat.eqb_spec t t').
      * subst. apply nth_set_at_same. lia.
      * rewrite nth_set_at_other by assumption. apply IB, H.
Qed.

Theorem reachable_inv lo hi pre evs : Inv lo hi pre (fold_left (step lo hi) evs (init pre)).
Proof.
  assert (G : forall s, Inv lo hi pre s -> Inv lo hi pre (fold_left (step lo hi) evs s)).
  { induction evs as [|e evs IH]; intros s H; cbn [fold_left]; [exact H|]. apply IH, step_inv, H. }
  apply G, inv_init.
Qed.

(* the property, for every schedule and every sequence of random draws *)
Theorem addresses_unique lo hi pre evs :
  let s := fold_left (step lo hi) evs (init pre) in
  (forall t i, assigned (nth t (tasks s) (TKeep 0)) = Some i -> lo <= i <= hi) /\
  (forall t1 t2 i, t1 <> t2 -> assigned (nth t1 (tasks s) (TKeep 0)) = Some i ->
                   assigned (nth t2 (tasks s) (TKeep 0)) = Some i -> False) /\
  (forall t i k, assigned (nth t (tasks s) (TKeep 0)) = Some i -> nth k pre 0 <> 0 -> nth k pre 0 <> i).
Proof.
  intros s. destruct (reachable_inv lo hi pre evs) as [_ IC IE IF _ _]. fold s in IC, IE, IF.
  assert (A : forall x i, assigned x = Some i -> claim x = Some i) by (intros x j H; destruct x; cbn in *; congruence).
  split; [|split].
  - intros t i H. apply (IC t i). apply A, H.
  - intros t1 t2 i N H1 H2. eapply (IE t1 t2 i N); apply A; assumption.
  - exact IF.
Qed.
