(* C06 In-place addition on 4/8-byte variables never loses updates.
   Model (Gen/Xadd.v): a program instance is a sequence of one-instruction
   events that either leave the shared cell alone or atomically add to it (the
   XADD the generator emits for += / -= on 4/8-byte variables); an execution of
   several instances is ANY interleaving of their sequences.  That the real
   statement compiles to such a sequence is validated on every run by executing
   2-3 instances of the real code on a shared map in the ISA model under
   adversarial and random schedules. *)
From Verif Require Import Gen.Xadd Gen.Xadd_proofs.

(* for ANY number of instances, ANY lengths and ANY interleaving, the cell
   ends up changed by exactly the sum of all amounts (mod its width) *)
Theorem C06_no_lost_update : forall n ls m c, Forall atomic_only ls -> interleave ls m ->
  0 <= c < 256 ^ Z.of_nat n ->
  fold_left (apply_ev n) m c = (c + total ls) mod 256 ^ Z.of_nat n.
Proof. exact no_lost_update_eq. Qed.
Print Assumptions C06_no_lost_update.

(* the ISA's XADD instruction is a single step that adds the source register
   to the cell: it abstracts to one `Add` event *)
Theorem C06_isa_xadd_atomic : forall prog pc s i, nth_error prog pc = Some i ->
  Z.land (i_op i) 7 = 3 -> Z.land (i_op i) 224 = 192 ->
  let n := size_of (i_op i) in
  let addr := wrap64 (reg s (i_dst i) + i_off i) in
  forall old s', load s addr n = Some old ->
  store s addr n (xadd_cell n old (reg s (i_src i))) = Some s' ->
  step prog pc s = (s', Running, S pc).
Proof. exact isa_xadd_is_add. Qed.
Print Assumptions C06_isa_xadd_atomic.

(* why the property is about XADD: a load / add / store lowering loses an update *)
Theorem C06_rmw_refuted :
  let sched := [(0, Load 0); (1, Load 0); (0, StoreSum 0 1); (1, StoreSum 0 1)]%nat in
  fst (fold_left (rmw_step 4) sched (10, [0; 0])) = 11 /\ 11 <> (10 + (1 + 1)) mod 256 ^ 4.
Proof. exact rmw_loses_update. Qed.

(* non-vacuity: three instances, an interleaving *)
Example C06_nonvacuous :
  let ls := [[Priv; Add 5; Priv]; [Add (-7)]; [Priv; Priv; Add 4294967295]] in
  Forall atomic_only ls /\ interleave ls [Priv; Priv; Add (-7); Add 5; Priv; Priv; Add 4294967295] /\
  fold_left (apply_ev 4) [Priv; Priv; Add (-7); Add 5; Priv; Priv; Add 4294967295] 3 = 0.
Proof.
  split; [repeat constructor|]. split; [|reflexivity].
  apply (il_step [] Priv [Add 5; Priv]). apply (il_step [[Add 5; Priv]; [Add (-7)]] Priv [Priv; Add 4294967295] []).
  apply (il_step [[Add 5; Priv]] (Add (-7)) [] [[Priv; Add 4294967295]]).
  apply (il_step [] (Add 5) [Priv]). apply (il_step [] Priv []).
  apply (il_step [[]; []] Priv [Add 4294967295] []). apply (il_step [[]; []] (Add 4294967295) [] []).
  constructor. repeat constructor.
Qed.
