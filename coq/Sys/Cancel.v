(* Cancellation of a sync group's run() coroutine (ebpfcat.py:
   SyncGroupBase.run, FastSyncGroup.run, FastEtherCat.register_sync_group,
   SyncGroupBase.map_fmmu / Terminal.map_fmmu).
   The coroutine is abstracted to the bus-level events it has produced when the
   CancelledError arrives (`pre`), the control point this determines, and the
   events its finally-blocks / context managers produce afterwards. *)
From Verif Require Export Lib.ListX.

Inductive ev :=
| FmmuSet (t k : nat)        (* FMMU k of terminal t configured (map_fmmu entered) *)
| AlWrite (t : nat) (v : Z)  (* AL control write: 2/4/8 state request, 17 = ack *)
| Frame                      (* the group's cyclic frame put on the wire *)
| Reg | Unreg.               (* program table entry written / deleted (fast groups) *)

Record cfg := { fast : bool; rw : list bool }.   (* rw: per terminal, written by the group? *)

(* control point: 0 = priming (fast only), 1 = mapping / SAFE-OP, 2 = inside the try *)
Record ctl := { phase : nat; primes : nat; registered : bool }.

Definition start (c : cfg) : ctl :=
  {| phase := if fast c then 0 else 1; primes := 0; registered := false |}.

Definition is_rw (c : cfg) (t : nat) : bool := nth t (rw c) false.

Definition advance (c : cfg) (s : ctl) (e : ev) : option ctl :=
  match phase s, e with
  | O, Reg => if registered s then None else Some {| phase := 0; primes := primes s; registered := true |}
  | O, Frame => if registered s
                then Some {| phase := if Nat.eqb (primes s) 1 then 1 else 0; primes := S (primes s); registered := true |}
                else None
  | S O, FmmuSet _ _ => Some s
  | S O, AlWrite _ v => if v =? 8 then None else Some s
  | S O, Frame => Some {| phase := 2; primes := primes s; registered := registered s |}
  | S (S O), AlWrite t v => if (v =? 8) && is_rw c t then Some s else None
  | S (S O), Frame => Some s
  | _, _ => None
  end.

Fixpoint track (c : cfg) (s : ctl) (pre : list ev) : option ctl :=
  match pre with
  | [] => Some s
  | e :: tl => match advance c s e with Some s' => track c s' tl | None => None end
  end.

(* what the finally-blocks and context managers do once cancelled at control point s *)
Definition safeops (c : cfg) : list ev :=
  flat_map (fun t => if is_rw c t then [AlWrite t 4] else []) (seq 0 (length (rw c))).

Definition cleanup (c : cfg) (s : ctl) : list ev :=
  (if Nat.eqb (phase s) 2 then safeops c else []) ++ (if registered s then [Unreg] else []).
