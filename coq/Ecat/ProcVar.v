(* Process variables in the cyclic frame (ebpfcat/ebpfcat.py PacketVar.get /
   set for slow sync groups; PacketVar.fmt_addr -> ebpf.py Memory for fast
   ones).  A frame is a list of bytes. *)
From Verif Require Export Ebpf.Isa.

(* ---- slow path: Python on the bytearray current_data ---- *)
Definition slow_get_bit (data : list Z) (start : nat) (k : Z) : bool :=
  negb (Z.land (nth start data 0) (Z.shiftl 1 k) =? 0).              (* bool(data[start] & mask) *)
Definition slow_set_bit (data : list Z) (start : nat) (k : Z) (v : bool) : list Z :=
  let mask := Z.shiftl 1 k in
  set_at start (if v then Z.lor (nth start data 0) mask                  (* data[start] |= mask *)
                else Z.land (nth start data 0) (Z.lnot mask)) data.      (* data[start] &= ~mask *)
Definition slow_get (data : list Z) (start : Z) (n : nat) (sg : bool) : option Z :=   (* struct '<'+size unpack_from *)
  option_map (fun bs => if sg then sx n (le_val bs) else le_val bs) (read_bytes data start n).
Definition slow_set (data : list Z) (start : Z) (n : nat) (v : Z) : option (list Z) := (* data[s] = pack(value) *)
  write_bytes data start (le_bytes n v).

(* ---- fast path: the instructions Memory.calculate / Memory._set emit for a
   bit format (pos, 1): LDX B; AND mask; RSH pos  resp.  LDX B; OR / AND; STX B,
   computed in a 64-bit register, stored as one byte ---- *)
Definition fast_get_bit (pkt : list Z) (start : nat) (k : Z) : Z :=
  Z.shiftr (Z.land (nth start pkt 0) (Z.shiftl 1 k)) k.
Definition fast_set_bit (pkt : list Z) (start : nat) (k : Z) (v : bool) : list Z :=
  let b := nth start pkt 0 in
  let r := if v then Z.lor b (Z.shiftl 1 k) else Z.land b ((Z.lnot (Z.shiftl 1 k)) mod W64) in
  set_at start (r mod 256) pkt.
(* multi-byte: LDX of the size (zero extending) + sign extension / STX of the size *)
Definition fast_get (pkt : list Z) (start : Z) (n : nat) (sg : bool) : option Z :=
  option_map (fun bs => if sg then sx n (le_val bs) else le_val bs) (read_bytes pkt start n).
Definition fast_set (pkt : list Z) (start : Z) (n : nat) (v : Z) : option (list Z) :=
  write_bytes pkt start (le_bytes n (v mod 256 ^ Z.of_nat n)).
