From Verif Require Import Sys.Cancel.

Definition op_requested (t : nat) (l : list ev) : Prop := In (AlWrite t 8) l.

Lemma advance_facts c s e s' : advance c s e = Some s' ->
  (phase s <= phase s')%nat /\ (phase s' <= 2)%nat /\ (registered s = true -> registered s' = true) /\
  (e = Reg -> registered s' = true) /\
  (forall t, e = AlWrite t 8 -> phase s = 2%nat /\ is_rw c t = true).
Proof.
  unfold advance. destruct (phase s) as [|[|[|n]]] eqn:P, e as [t k|t v| | |]; try discriminate;
    try (destruct (registered s) eqn:Rg; try discriminate);
    try (destruct (Z.eqb_spec v 8); cbn [andb]; try discriminate);
    try (destruct (is_rw c t) eqn:Rw; try discriminate);
    intros H; inversion H; subst; clear H; cbn [phase registered]; rewrite ?P;
    try (destruct (Nat.eqb (primes s) 1));
    repeat split; auto; try lia; try discriminate;
    try (match goal with H : AlWrite _ _ = AlWrite _ _ |- _ => inversion H; subst end);
    try congruence; try assumption; try lia.
Qed.

Lemma track_facts c : forall pre s s', track c s pre = Some s' -> (phase s <= 2)%nat ->
  (phase s <= phase s')%nat /\ (phase s' <= 2)%nat /\
  (registered s = true -> registered s' = true) /\
  (In Reg pre -> registered s' = true) /\
  (forall t, op_requested t pre -> phase s' = 2%nat /\ is_rw c t = true).
Proof.
  induction pre as [|e tl IH]; intros s s' H L; cbn [track] in H.
  - inversion H; subst. repeat split; auto; try lia; intros; contradiction.
  - destruct (advance c s e) as [s1|] eqn:A; [|discriminate].
    destruct (advance_facts _ _ _ _ A) as (M1 & L1 & R1 & G1 & O1).
    destruct (IH _ _ H L1) as (M2 & L2 & R2 & G2 & O2).
    split; [lia|]. split; [lia|]. split; [auto|]. split.
    + intros [E|I]; [apply R2, G1; auto|apply G2, I].
    + intros t [E|I]; [|apply (O2 t I)]. destruct (O1 t E) as [P R]. split; [lia|assumption].
Qed.

Lemma safeops_all c t : is_rw c t = true -> In (AlWrite t 4) (safeops c).
Proof.
  intros H. unfold safeops. apply in_flat_map. exists t. split.
  - apply in_seq. unfold is_rw in H.
    destruct (Nat.ltb_spec t (length (rw c))); [lia|]. rewrite nth_overflow in H by lia. discriminate.
  - rewrite H. now left.
Qed.

(* Whatever the run coroutine had done when it was cancelled (any prefix the
   control structure admits): every terminal asked to go OPERATIONAL is asked
   back to SAFE-OPERATIONAL by the clean-up, and a registered program is
   unregistered. *)
Theorem cancel_cleans_up c pre s : track c (start c) pre = Some s ->
  (forall t, op_requested t pre -> In (AlWrite t 4) (cleanup c s)) /\
  (In Reg pre -> In Unreg (cleanup c s)).
Proof.
  intros H. assert (L : (phase (start c) <= 2)%nat) by (unfold start; destruct (fast c); cbn; lia).
  destruct (track_facts c pre _ _ H L) as (_ & _ & _ & G & O).
  unfold cleanup. split.
  - intros t Ht. destruct (O t Ht) as [P R]. rewrite P. cbn [Nat.eqb].
    apply in_or_app. left. apply safeops_all, R.
  - intros I. rewrite (G I). apply in_or_app. right. now left.
Qed.
