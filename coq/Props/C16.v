(* C16 SDO transfers carry values byte-for-byte.
   Model: Ecat/Sdo.v - the CoE messages Terminal.sdo_write produces
   (expedited / normal / segmented, with subindex or complete access), the
   assembly Terminal.sdo_read performs, and a protocol-conformant SDO server
   (ETG.1000.6) that checks sizes and toggle bits. *)
From Verif Require Import Ecat.Sdo Ecat.Sdo_proofs.

(* download: for EVERY value (any length < 2^32), every mailbox size >= 24,
   with a subindex or complete access, the conformant server ends up holding
   exactly the value (it would abort on a wrong size or toggle bit) *)
Theorem C16_download : forall mbx data index sub,
  (24 <= mbx)%nat -> Z.of_nat (length data) < 4294967296 ->
  srv_download (dl_requests mbx data index sub) = Some data.
Proof. exact download_exact. Qed.
Print Assumptions C16_download.

(* upload: the client returns exactly the server's value; the toggle bits it
   requested alternate starting at 0 *)
Theorem C16_upload : forall mbx data index sub ca,
  (24 <= mbx)%nat -> Z.of_nat (length data) < 4294967296 -> 0 <= index < 65536 ->
  exists k, sdo_read (ul_responses mbx data index sub ca) index = Some (data, alt 0 k).
Proof. exact upload_exact. Qed.
Print Assumptions C16_upload.

(* every mailbox message (6-byte header included) fits into the mailbox *)
Theorem C16_fits : forall mbx data index sub ca, (24 <= mbx)%nat ->
  Forall (fun p => (6 + length p <= mbx)%nat) (dl_requests mbx data index sub) /\
  Forall (fun p => (6 + length p <= mbx)%nat) (ul_responses mbx data index 1 ca).
Proof. intros. split; [now apply download_fits|now apply upload_fits]. Qed.
Print Assumptions C16_fits.

Example C16_nonvacuous :
  let data := map Z.of_nat (seq 1 40) in
  length (dl_requests 24 data 32768 (Some 3)) = 4%nat /\
  srv_download (dl_requests 24 data 32768 (Some 3)) = Some data /\
  sdo_read (ul_responses 24 data 32768 3 false) 32768 = Some (data, [0; 16; 0]).
Proof. vm_compute. repeat split. Qed.
