(* Fixed-point arithmetic of the DSL (ebpfcat/ebpf.py: Expression._sum, __mul__,
   __truediv__, __floordiv__, __rfloordiv__, Constant, Memory._set,
   RegisterArray.__setitem__): a fixed-point value is an integer scaled by
   FIXED_BASE = 100000.  `elab` is the integer expression the DSL builds for a
   mixed expression; it is evaluated by C01's model (Gen/Denote.v). *)
From Coq Require Export QArith Qround.
From Verif Require Export Gen.Denote.

Definition FB : Z := 100000.

Inductive fop := FAdd | FSub | FMul | FTrueDiv | FFloorDiv | FMod.
Inductive fexpr :=
| FInt (e : expr)              (* integer operand *)
| FFix (e : expr)              (* fixed-point operand (x variable / x register): e holds the scaled value *)
| FConstF (k : Z)              (* float constant; k = the scaled integer Constant.__init__ derives *)
| FOp (op : fop) (a b : fexpr).

(* value *= FIXED_BASE: Constant.__imul__ folds, anything else becomes a multiplication *)
Definition scale (e : expr) (by_ : Z) : expr :=
  match e with EConst c => EConst (c * by_) | _ => EBin OMul e (EConst by_) end.

Definition elab_op (op : fop) (a b : expr * bool) : expr * bool :=
  let '(ea, fa) := a in let '(eb, fb) := b in
  match op with
  | FAdd | FSub | FMod =>
      let o := match op with FAdd => OAdd | FSub => OSub | _ => OMod end in
      if Bool.eqb fa fb then (EBin o ea eb, fa)
      else if fa then (EBin o ea (scale eb FB), true) else (EBin o (scale ea FB) eb, true)
  | FMul =>
      if fa && fb then (EBin ODiv (EBin OMul ea eb) (EConst FB), true) else (EBin OMul ea eb, fa || fb)
  | FTrueDiv =>
      if negb fa && fb then (EBin ODiv (scale ea (FB * FB)) eb, true)
      else if Bool.eqb fa fb then (EBin ODiv (scale ea FB) eb, true)
      else (EBin ODiv ea eb, true)
  | FFloorDiv =>
      if negb fa && fb then (EBin ODiv (scale ea FB) eb, false)
      else if fa && negb fb then (EBin ODiv ea (scale eb FB), false)
      else (EBin ODiv ea eb, false)
  end.

Fixpoint elab (e : fexpr) : expr * bool :=
  match e with
  | FInt x => (x, false)
  | FFix x => (x, true)
  | FConstF k => (EConst k, true)
  | FOp op a b => elab_op op (elab a) (elab b)
  end.

(* assignment: Memory._set / RegisterArray.__setitem__ convert to the destination's kind *)
Definition to_dest (dest_fixed : bool) (v : expr * bool) : expr :=
  let '(e, f) := v in
  if dest_fixed && negb f then scale e FB
  else if negb dest_fixed && f then EBin ODiv e (EConst FB)
  else e.

(* ---------------- the meaning: rationals ---------------- *)
Definition rep (v : Z) (fixed : bool) : Q := if fixed then v # 100000 else inject_Z v.
(* a rational dropped to a representation (toward minus infinity) *)
Definition drop (fixed : bool) (q : Q) : Z := if fixed then Qfloor (inject_Z FB * q) else Qfloor q.

Definition qop (op : fop) (x y : Q) : Q :=
  match op with
  | FAdd => x + y | FSub => x - y | FMul => x * y | FTrueDiv => x / y
  | FFloorDiv => inject_Z (Qfloor (x / y))
  | FMod => x - y * inject_Z (Qfloor (x / y))
  end.

(* the integer computation of elab_op on operand values, with exact integer
   arithmetic (what C01's theorem delivers inside its precondition) *)
Definition op_value (op : fop) (A : Z) (fa : bool) (B : Z) (fb : bool) : Z :=
  exact (fst (elab_op op (EConst A, fa) (EConst B, fb))).
Definition op_fixed (op : fop) (fa fb : bool) : bool := snd (elab_op op (EConst 0, fa) (EConst 0, fb)).

(* ---------------- comparisons (ebpf.py comparison()) ---------------- *)
From Verif Require Export Gen.Cond.
Definition cmp_fixed (op : cmpop) (a b : fexpr) : bool :=
  let '(ea, fa) := elab a in let '(eb, fb) := elab b in
  if Bool.eqb fa fb then cmp_impl op ea eb
  else if fa then cmp_impl op ea (scale eb FB) else cmp_impl op (scale ea FB) eb.
(* the two integers that are compared, for operand values A, B *)
Definition cmp_scaled (fa fb : bool) (A B : Z) : Z * Z :=
  if Bool.eqb fa fb then (A, B) else if fa then (A, B * FB) else (A * FB, B).
