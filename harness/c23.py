"""C23: several OS processes start and stop sharing one interface: the REAL
ParallelEtherCat.run() runs in forked child processes whose operations on the
shared objects (lock directory, pinned program table, XDP attachment) are gated,
so that the parent interleaves them as a schedule says; and the REAL FMMULock is
created concurrently.  Compared with Sys/StartStop.v and Sys/FmmuLock.v."""
import os
import shutil
import tempfile

from .common import Check, Err, clist, cz, cnat, czlist
from .procs import Child, GatedModule

GATE_PC = {"rename": 1, "open_x": 2, "obj_get1": 3, "obj_get2": 4, "undo_lockfile": 5, "remove_old_pin": 6, "attach": 7, "obj_pin": 8,
           "rmtree_lockdir": 9, "remove_lockfile": 11, "rmdir": 12, "detach": 13, "unpin": 14}
ETH = {0: 0x88a4, 1: 0x3001, 2: 0x3002, 3: 0x3003}
ETH_BACK = {v: k for k, v in ETH.items()}


def child_setup_factory(root, me):
    """what runs inside a forked child: the real code with its environment redirected into `root`"""
    def setup(env):
        import asyncio
        import builtins
        import fcntl
        import logging
        import time
        logging.disable(logging.CRITICAL)
        import ebpfcat.ebpfcat as cat
        import ebpfcat.lock as lockmod
        import ebpfcat.arraymap as arraymap
        from ebpfcat.ethercat import EtherCat
        gate = env["gate"]
        state = {"phase": "idle", "draws": [], "gets": 0}

        def mp(path):
            path = str(path)
            for pre in ("/run/lock", "/sys/fs/bpf", "/run/ebpf"):
                if path.startswith(pre):
                    return root + path
            return path
        lockdir = mp("/run/lock/ebpf.verif0.lock")
        programs = mp("/sys/fs/bpf/verif0/programs")

        class OsProxy:
            def __getattr__(self, name):
                return getattr(os, name)

            def makedirs(self, p, **kw):
                return os.makedirs(mp(p), **kw)

            def rename(self, a, b):
                gate.hit("rename")
                return os.rename(mp(a), mp(b))

            def remove(self, p):
                p = mp(p)
                if p == programs:
                    gate.hit("remove_old_pin" if state["phase"] == "start" else "unpin")
                elif p.startswith(lockdir):
                    gate.hit("undo_lockfile" if state["phase"] == "start" else "remove_lockfile")
                return os.remove(p)

            def rmdir(self, p):
                gate.hit("rmdir")
                return os.rmdir(mp(p))

            def open(self, p, *a, **kw):
                return os.open(mp(p), *a, **kw)

        class Shutil:
            @staticmethod
            def rmtree(p):
                p = mp(p)
                if p == lockdir:
                    gate.hit("rmtree_lockdir")
                return shutil.rmtree(p)

        class Tempfile:
            @staticmethod
            def mkdtemp(dir=None):
                return tempfile.mkdtemp(dir=mp(dir))

        def my_open(path, mode="r", *a, **kw):
            path = mp(path)
            if "x" in mode and path.startswith(lockdir + "/"):
                gate.hit("open_x")
            return builtins.open(path, mode, *a, **kw)

        def randrange(a, b=None):
            return ETH[state["draws"].pop(0)] if state["draws"] else 0x3003

        def obj_get(path):
            state["gets"] += 1
            gate.hit("obj_get1" if state["gets"] == 1 else "obj_get2")
            with builtins.open(mp(path)) as f:
                return ("table", int(f.read()))

        def obj_pin(path, fd):
            gate.hit("obj_pin")
            with builtins.open(mp(path), "x") as f:
                f.write(str(fd[1]))

        def create_map(*a, **kw):
            return ("table", me)

        async def no_sleep(t):
            return None

        async def connect(self):
            return None

        class FakeXDP:
            def __init__(self):
                self.programs = None

            async def attach(self, network):
                gate.hit("attach")
                with builtins.open(root + "/attached", "w") as f:
                    f.write(str(self.programs[1]))

            async def detach(self, network):
                gate.hit("detach")
                try:
                    os.remove(root + "/attached")
                except FileNotFoundError:
                    pass

            def close(self):
                pass
        cat.os, cat.shutil, cat.tempfile, cat.open = OsProxy(), Shutil, Tempfile, my_open
        cat.randrange, cat.obj_get, cat.obj_pin, cat.create_map, cat.sleep, cat.EtherXDP = randrange, obj_get, obj_pin, create_map, no_sleep, FakeXDP
        EtherCat.connect = connect
        lockmod.os = OsProxy()
        ec = cat.ParallelEtherCat("verif0")
        ec.terminal_addr_range = (1000, 1100)
        holder = {}
        loop = env["loop"]

        def start(draws, fdraws=None):
            state.update(phase="start", draws=list(draws), gets=0)
            if fdraws is not None:
                fd = list(fdraws)
                lockmod.randrange = lambda a, b=None: fd.pop(0) if fd else 500 + me
            holder["cm"] = ec.run()
            loop.run_until_complete(holder["cm"].__aenter__())
            state["phase"] = "running"
            return {"eth": ec.ethertype, "table": ec.programs[1], "fmmu": ec.fmmu_lock_file.base_addr >> 22}

        def stop():
            state["phase"] = "stop"
            loop.run_until_complete(holder["cm"].__aexit__(None, None, None))
            state["phase"] = "done"
            return None

        class LockProxy:
            """fcntl for ebpfcat.lock: a blocking exclusive lock request that has to wait reports that to the parent
            (gate "lock_blocked") before it tries again, whichever locking call the code uses"""
            def __getattr__(self, name):
                return getattr(fcntl, name)

            @staticmethod
            def _acquire(real, fd, op, *a):
                if not (op & fcntl.LOCK_EX) or (op & fcntl.LOCK_NB):
                    return real(fd, op, *a)
                while True:
                    try:
                        return real(fd, op | fcntl.LOCK_NB, *a)
                    except OSError:
                        gate.hit("lock_blocked")
                        time.sleep(0.002)

            def lockf(self, fd, op, *a):
                return self._acquire(fcntl.lockf, fd, op, *a)

            def flock(self, fd, op):
                return self._acquire(fcntl.flock, fd, op)

        def fmmu_new(draws):
            vals = list(draws)
            lockmod.randrange = lambda a, b=None: vals.pop(0) if vals else 500
            lockmod.os = GatedModule(OsProxy(), gate, ["ftruncate", "write", "pwrite"], "os.")
            lockmod.fcntl = LockProxy()
            f = lockmod.FMMULock("/run/ebpf/verif0.fmmu")
            holder["fmmu"] = f
            return f.base_addr >> 22

        def fmmu_remove():
            lockmod.os = GatedModule(OsProxy(), gate, ["ftruncate", "write", "pwrite"], "os.")
            lockmod.fcntl = LockProxy()
            holder.pop("fmmu").remove()
            return None
        def mbx(no):
            """one mailbox exchange of this (running) participant with terminal `no`: the counter the message carries"""
            async def one():
                lock = ec.get_mbx_lock(no)
                async with lock:
                    return lock.next_counter()
            return loop.run_until_complete(one())
        return {"start": start, "stop": stop, "fmmu_new": fmmu_new, "fmmu_remove": fmmu_remove, "mbx": mbx}
    return setup


class C23(Check):
    pid = "C23"
    props_file = "Props/C23.v"
    corr_imports = ["Sys.StartStop", "Sys.FmmuLock", "Sys.FmmuBytes", "Corr.C23"]
    technique = ("Coq: finite closed-set proof over ALL interleavings of two participants (at most one installs, distinct ethertypes), exhaustive exploration for "
                 "three, invariant proof over all alloc/release histories for the address windows, machine-checked witnesses for the recorded race + the REAL "
                 "ParallelEtherCat.run() / FMMULock in forked processes gated at every operation on a shared object and interleaved by schedules, against the model")
    trusted = ["harness/procs.py (gated child processes)", "stand-ins inside the children for netlink attach / detach, bpf obj_pin / obj_get / create_map and the "
               "raw socket (files in a scratch directory); the file-system calls themselves are real, redirected into a scratch root"]
    assumptions = ["every operation on a shared object is atomic (rename, open 'x', remove, rmdir, pin, attach)", "participants do not crash between operations"]
    known_classes = {"leaver_detaches_fresh_dispatcher": lambda case, o: bool(case.get("_leaver_race")),
                     "starter_replaces_emptied_lockdir": lambda case, o: bool(case.get("_empty_dir_race"))}

    def make_case(self, rng):
        if rng.random() < 0.1:
            # a participant stops as the last one and starts AGAIN (the same master object); another participant then
            # draws the window the first one had (and has again)
            w = rng.choice([1, 7, 300, 511])
            return {"kind": "restart", "w": w, "w2": rng.choice([x for x in (2, 9, 77, 510) if x != w]), "again": rng.choice([w, w, 5])}
        if rng.random() < 0.12:
            # an allocation against a removal (or the other way round) touching the same byte of the map; a third
            # process then asks for the window whose bit a lost update would have cleared / kept
            byte = rng.randrange(0, 64)
            bits = rng.sample([i for i in range(8) if byte * 8 + i >= 1], 2)
            a, b = byte * 8 + bits[0], byte * 8 + bits[1]
            other = rng.choice([x for x in (3, 77, 200, 509) if x // 8 != byte])
            return {"kind": "fmmu_rel", "a": a, "b": b, "other": other, "dir": rng.choice(["remove_first", "alloc_first"])}
        if rng.random() < 0.2:
            # the bytes of the map file themselves: any initial content, allocations (scripted draws, some of them taken) and removals
            init = bytes(rng.choice([0, 0, 0xff, 0xfe, 0x7f, rng.randrange(256)]) for _ in range(64))
            ops, live, nextp = [], [], 0
            for _ in range(rng.randint(2, 9)):
                if live and rng.random() < 0.45:
                    ops.append(["R", live.pop(rng.randrange(len(live)))])
                else:
                    byte = rng.randrange(64)
                    ops.append(["A", nextp, [rng.choice([byte * 8 + rng.randrange(8), rng.randrange(1, 512)]) for _ in range(rng.randint(1, 5))]])
                    live.append(nextp)
                    nextp += 1
            return {"kind": "fmmu_bytes", "init": init.hex(), "ops": ops}
        if rng.random() < 0.2:
            k = rng.randint(2, 4)
            return {"kind": "fmmu", "draws": [[rng.choice([1, 7, 7, 300, 511]) for _ in range(3)] + [rng.randint(2, 510)] for _ in range(k)],
                    "creator_gated": rng.random() < 0.7}
        n = rng.choice([2, 2, 3])
        # each participant: start (up to 6 shared steps) and stop (up to 4); a schedule is a sequence of participant numbers
        sched = []
        budget = [rng.randint(6, 13) for _ in range(n)]
        while any(budget):
            p = rng.choice([i for i in range(n) if budget[i]])
            run = rng.choice([1, 1, 2, 3, 6])
            for _ in range(min(run, budget[p])):
                sched.append(p)
                budget[p] -= 1
        return {"kind": "startstop", "n": n, "sched": sched, "draws": [[rng.choice([1, 2, 3]) for _ in range(3)] for _ in range(n)]}

    def gen_cases(self):
        return [self.make_case(self.rng) for _ in range(40 if self.tier == "quick" else 400)]

    def corpus(self):
        return [{"kind": "startstop", "n": 2, "sched": [0] * 5 + [0] * 3 + [1] * 5 + [0] * 2, "draws": [[1], [1]]},
                {"kind": "fmmu", "draws": [[1, 9], [7, 8], [7, 9]], "creator_gated": True},
                {"kind": "restart", "w": 7, "w2": 11, "again": 7},
                {"kind": "fmmu_rel", "a": 20, "b": 17, "other": 9, "dir": "remove_first"},
                {"kind": "fmmu_rel", "a": 1, "b": 7, "other": 300, "dir": "alloc_first"},
                {"kind": "fmmu_rel", "a": 22, "b": 17, "other": 300, "dir": "alloc_first"}]

    # ---- start / stop
    def run_startstop(self, case):
        root = tempfile.mkdtemp(prefix="verif_c23_")
        for d in ("/run/lock", "/sys/fs/bpf", "/run/ebpf"):
            os.makedirs(root + d)
        n = case["n"]
        kids = [Child(child_setup_factory(root, i)) for i in range(n)]
        gates = list(GATE_PC)
        status = ["new"] * n            # new / gate / running / done / aborted
        info = [None] * n
        steps, violations = [], []
        eth_seen = [0] * n
        cands = [[0] + list(case["draws"][q]) + [3] * 20 for q in range(n)]       # the ethertypes a participant tries, in order
        attempt = [0] * n
        try:
            for k in kids:
                k.gates(gates)

            def observe():
                lockdir = root + "/run/lock/ebpf.verif0.lock"
                files = sorted(ETH_BACK.get(int(f.split(".")[0]), int(f.split(".")[0])) for f in os.listdir(lockdir)) if os.path.isdir(lockdir) else None
                pin = int(open(root + "/sys/fs/bpf/verif0/programs").read()) if os.path.exists(root + "/sys/fs/bpf/verif0/programs") else None
                att = int(open(root + "/attached").read()) if os.path.exists(root + "/attached") else None
                return files, pin, att

            def handle(p, r):
                if r[0] == "gate":
                    status[p] = "gate"
                elif r[0] == "ok":
                    if status[p] in ("new", "gate") and kids[p].__dict__.get("_phase") == "start":
                        status[p] = "running"
                        info[p] = r[1]
                    else:
                        status[p] = "done"
                elif r[0] == "exc":
                    status[p] = "aborted"
                    info[p] = info[p] or {"error": f"{r[1]}: {r[2]}"}
                else:
                    status[p] = "aborted"
                    info[p] = {"error": str(r)}
            for p in case["sched"]:
                k = kids[p]
                acting = k.at_gate
                before = observe()[0]
                if status[p] == "new":
                    k._phase = "start"
                    r = k.call("start", case["draws"][p])
                elif status[p] == "gate":
                    r = k.release()
                elif status[p] == "running":
                    k._phase = "stop"
                    r = k.call("stop")
                else:
                    steps.append((p, "idle", -1))
                    continue
                handle(p, r)
                files, pin, att = observe()
                drawn = -1
                if acting == "open_x" and files is not None:
                    newf = [f for f in files if f not in (before or [])]
                    drawn = newf[0] if newf else -1
                    if drawn != -1:
                        eth_seen[p] = drawn
                if acting == "open_x" and status[p] == "gate" and k.at_gate == "open_x" and files == before:
                    attempt[p] += 1                      # the attempt hit an existing file: the participant draws the next ethertype
                    steps.append((p, "open_x", cands[p][attempt[p]]))
                else:
                    steps.append((p, acting or ("begin_" + k._phase), -1))
                running = [q for q in range(n) if status[q] == "running"]
                inst = [q for q in range(n) if status[q] == "gate" and kids[q].at_gate in ("remove_old_pin", "attach", "obj_pin")]
                if len(inst) > 1:
                    violations.append(("P1", f"participants {inst} install the dispatcher at the same time", acting))
                for q in running:
                    if att is None or pin is None or att != info[q]["table"] or pin != info[q]["table"]:
                        violations.append(("P2", f"participant {q} is running but the dispatcher / program table it registered with is gone "
                                                 f"(attached: {att}, pinned: {pin}, its table: {info[q]['table']})", acting))
                eths = [info[q]["eth"] for q in running]
                if len(set(eths)) != len(eths):
                    violations.append(("P3", f"running participants share an ethertype: {eths}", acting))
                fm = [info[q]["fmmu"] for q in running]
                if len(set(fm)) != len(fm):
                    violations.append(("P4", f"running participants share an address window: {fm}", acting))
            files, pin, att = observe()
            final = []
            for q in range(n):
                if status[q] == "gate":
                    pcode = GATE_PC[kids[q].at_gate]
                else:
                    pcode = {"new": 0, "running": 10, "done": 15, "aborted": 16}[status[q]]
                eth = ETH_BACK.get(info[q]["eth"], -2) if info[q] and "eth" in info[q] else eth_seen[q]
                final.append([pcode, eth, info[q]["table"] if info[q] and "table" in info[q] else None])
            return {"steps": steps, "violations": violations, "files": files, "pin": pin, "att": att, "final": final,
                    "errors": [i["error"] for i in info if i and "error" in i]}
        finally:
            for k in kids:
                k.close()
            shutil.rmtree(root, ignore_errors=True)

    # ---- FMMU windows
    def run_fmmu(self, case):
        root = tempfile.mkdtemp(prefix="verif_c23_")
        os.makedirs(root + "/run/ebpf")
        kids = [Child(child_setup_factory(root, i)) for i in range(len(case["draws"]))]
        try:
            got = [None] * len(kids)
            order = []
            if case["creator_gated"]:
                kids[0].gates(["os.ftruncate", "os.write"])
                r = kids[0].call("fmmu_new", case["draws"][0])        # stops right after creating the file
                rest = list(range(1, len(kids)))
                for q in rest[:1]:
                    rr = kids[q].call("fmmu_new", case["draws"][q])
                    got[q] = rr[1] if rr[0] == "ok" else f"{rr}"
                    order.append(q)
                while r[0] == "gate":
                    r = kids[0].release()
                got[0] = r[1] if r[0] == "ok" else f"{r}"
                order.append(0)
                for q in rest[1:]:
                    rr = kids[q].call("fmmu_new", case["draws"][q])
                    got[q] = rr[1] if rr[0] == "ok" else f"{rr}"
                    order.append(q)
            else:
                for q in range(len(kids)):
                    rr = kids[q].call("fmmu_new", case["draws"][q])
                    got[q] = rr[1] if rr[0] == "ok" else f"{rr}"
                    order.append(q)
            return {"windows": got, "order": order}
        finally:
            for k in kids:
                k.close()
            shutil.rmtree(root, ignore_errors=True)

    def run_fmmu_bytes(self, case):
        """one process, FMMULock objects on a map file with the given initial content; the draws of randrange are scripted (0 is
        never drawn: randrange(1, 512)) and continued with the first free number when the script runs out"""
        import ebpfcat.lock as lock
        root = tempfile.mkdtemp(prefix="verif_c23_")
        fn = root + "/run/fmmu"
        os.makedirs(root + "/run")
        with open(fn, "wb") as f:
            f.write(bytes.fromhex(case["init"]))
        saved = lock.randrange
        objs, windows, used_draws, contents = {}, [], [], []
        try:
            for op in case["ops"]:
                if op[0] == "A":
                    cur = open(fn, "rb").read()
                    free = next((a for a in range(1, 512) if not cur[a // 8] & (1 << (a % 8))), None)
                    draws = [d for d in op[2] if 1 <= d < 512] + ([free] if free is not None else [])
                    it = iter(draws)
                    taken = []

                    def scripted(a, b=None):
                        d = next(it)
                        taken.append(d)
                        return d
                    lock.randrange = scripted
                    try:
                        objs[op[1]] = lock.FMMULock(fn)
                        windows.append(objs[op[1]].base_addr >> 22)
                    except StopIteration:
                        windows.append(-1)          # the map is full: the library would draw for ever
                    used_draws.append(draws)
                else:
                    if op[1] in objs:
                        objs.pop(op[1]).remove()
                contents.append(open(fn, "rb").read().hex())
            return {"final": open(fn, "rb").read().hex(), "windows": windows, "draws": used_draws, "contents": contents}
        except Exception as e:      # noqa
            return Err(5, f"{type(e).__name__}: {e}")
        finally:
            lock.randrange = saved
            for o in objs.values():
                try:
                    os.close(o.fd)
                except OSError:
                    pass
            shutil.rmtree(root, ignore_errors=True)

    def run_fmmu_rel(self, case):
        """A holds window a.  remove_first: A is stopped inside remove() between reading and writing its map byte, B allocates b
        (same byte) - it has to wait; A finishes; C asks for b.  alloc_first: B is stopped inside its allocation between reading and
        writing the byte, A removes - it has to wait; B finishes; C asks for a (free again)."""
        root = tempfile.mkdtemp(prefix="verif_c23_")
        os.makedirs(root + "/run/ebpf")
        A, B, C, D = kids = [Child(child_setup_factory(root, i)) for i in range(4)]
        a, b, other = case["a"], case["b"], case["other"]

        def val(r):
            return r[1] if r[0] == "ok" else f"{r}"
        try:
            ra = val(A.call("fmmu_new", [a]))
            if case["dir"] == "remove_first":
                A.gates(["os.pwrite"])
                r = A.call("fmmu_remove")
                inside = r == ("gate", "os.pwrite")
                B.gates(["lock_blocked"])
                rb = B.call("fmmu_new", [b, other + 1])
                waited = rb[0] == "gate"
                while r[0] == "gate":
                    r = A.release()
                while rb[0] == "gate":
                    rb = B.release()
                rc = C.call("fmmu_new", [b, other])
                # a late comer draws every number that is still held: the removal must have released A's number and nothing else
                rd = D.call("fmmu_new", [b, other, other + 1, other + 2])
                return {"windows": [ra, val(rb), val(rc), val(rd)], "running": [1, 2, 3], "waited": waited, "inside": inside, "removed": val(r),
                        "ops": ["A0", "R0", "A1", "A2", "A3"] if waited else ["A0", "A1", "R0", "A2", "A3"],
                        "draws": [[a], [b, other + 1], [b, other], [b, other, other + 1, other + 2]]}
            B.gates(["os.pwrite"])
            rb = B.call("fmmu_new", [b, other + 1])
            inside = rb == ("gate", "os.pwrite")
            A.gates(["lock_blocked"])
            r = A.call("fmmu_remove")
            waited = r[0] == "gate"
            while rb[0] == "gate":
                rb = B.release()
            while r[0] == "gate":
                r = A.release()
            rc = C.call("fmmu_new", [a, other])
            rd = D.call("fmmu_new", [b, a, other, other + 2])
            return {"windows": [ra, val(rb), val(rc), val(rd)], "running": [1, 2, 3], "waited": waited, "inside": inside, "removed": val(r),
                    "ops": ["A0", "A1", "R0", "A2", "A3"], "draws": [[a], [b, other + 1], [a, other], [b, a, other, other + 2]]}
        finally:
            for k in kids:
                k.close()
            shutil.rmtree(root, ignore_errors=True)

    def run_restart(self, case):
        """A starts (window w) and stops as the last participant, starts again on the same master object (drawing `again`), then B
        starts and draws A's current window first"""
        root = tempfile.mkdtemp(prefix="verif_c23_")
        for d in ("/run/lock", "/sys/fs/bpf", "/run/ebpf"):
            os.makedirs(root + d)
        A, B = kids = [Child(child_setup_factory(root, i)) for i in range(2)]

        def val(r):
            return r[1] if r[0] == "ok" else f"{r}"
        try:
            a1 = val(A.call("start", [1], [case["w"]]))
            s1 = val(A.call("stop"))
            a2 = val(A.call("start", [1], [case["again"], case["w2"] + 1]))
            wa = a2["fmmu"] if isinstance(a2, dict) else None
            b1 = val(B.call("start", [2], [wa if wa is not None else case["w"], case["w2"]]))
            return {"a1": a1, "stop": s1, "a2": a2, "b": b1}
        finally:
            for k in kids:
                k.close()
            shutil.rmtree(root, ignore_errors=True)

    def run_impl(self, case):
        if case["kind"] == "restart":
            o = self.run_restart(case)
            case["_o"] = o
            return o
        if case["kind"] == "fmmu_bytes":
            o = self.run_fmmu_bytes(case)
            case["_o"] = o
            return o
        if case["kind"] == "fmmu_rel":
            o = self.run_fmmu_rel(case)
            case["_o"] = o
            return o
        o = self.run_fmmu(case) if case["kind"] == "fmmu" else self.run_startstop(case)
        case["_o"] = o
        return o

    # ---- model
    def model_term(self, case):
        o = case.get("_o")
        if o is None or isinstance(o, Err):
            return None
        if case["kind"] == "restart":
            # A allocates w, releases it (last to stop), allocates again, B allocates: through the proven step function
            a2 = o["a2"]["fmmu"] if isinstance(o["a2"], dict) else -1
            ops = [f"OAlloc 0 {clist([cz(case['w']), cz(500)])}", "ORelease 0", f"OAlloc 0 {clist([cz(case['again']), cz(case['w2'] + 1), cz(500)])}",
                   f"OAlloc 1 {clist([cz(a2), cz(case['w2']), cz(501)])}"]
            return f"(run_fmmu_ops {clist(ops)})"
        if case["kind"] == "fmmu_bytes":
            it = iter(o["draws"])
            ops = [f"OAlloc {cz(op[1])} {clist([cz(d) for d in next(it)])}" if op[0] == "A" else f"ORelease {cz(op[1])}" for op in case["ops"]]
            return f"(run_fmmu_bytes {czlist(bytes.fromhex(case['init']))} {clist(ops)})"
        if case["kind"] == "fmmu_rel":
            ops = [f"OAlloc {cz(int(x[1]))} {clist([cz(d) for d in o['draws'][int(x[1])] + [500]])}" if x[0] == "A" else f"ORelease {cz(int(x[1]))}" for x in o["ops"]]
            return f"(run_fmmu_ops {clist(ops)})"
        if case["kind"] == "fmmu":
            return f"(run_fmmu {clist([clist([cz(d) for d in case['draws'][q] + [500]]) for q in o['order']])})"
        sched = [f"({cnat(p)}, {cz(drawn)})" for p, what, drawn in o["steps"] if what != "idle"]
        return f"(run {cnat(case['n'])} {clist(sched)})"

    def model_value(self, case, o):
        if case["kind"] == "restart":
            return [x["fmmu"] if isinstance(x, dict) else -9 for x in (o["a1"], o["a2"], o["b"])]
        if case["kind"] == "fmmu_bytes":
            return [list(bytes.fromhex(o["final"])), o["windows"]]
        if case["kind"] == "fmmu_rel":
            return o["windows"]
        if case["kind"] == "fmmu":
            return [o["windows"][q] for q in o["order"]]
        return [(-1 if o["files"] is None else o["files"]), -1 if o["pin"] is None else o["pin"], -1 if o["att"] is None else o["att"],
                [[pc, (0 if (e is None or pc in (16, 2)) else e), (-1 if (t is None or pc == 16) else t)] for pc, e, t in o["final"]]]

    def holds(self, case, o):
        if case["kind"] == "restart":
            for k in ("a1", "a2", "b"):
                if not isinstance(o[k], dict):
                    return f"participant failed to start ({k}): {o[k]}"
            if o["a2"]["fmmu"] == o["b"]["fmmu"]:
                return (f"after stopping and starting again, participant A uses the logical address window {o['a2']['fmmu']}, and participant B, "
                        f"started while A is running, was given the same window")
            if o["a2"]["eth"] == o["b"]["eth"]:
                return f"both running participants use ethertype {o['a2']['eth']:#x}"
            return True
        if case["kind"] == "fmmu_bytes":
            if isinstance(o, Err):
                return o.what
            # independent of the model: after every operation the map is the initial one plus the numbers of the live holders
            bits = lambda b: {a for a in range(512) if b[a // 8] & (1 << (a % 8))}      # noqa
            init = bits(bytes.fromhex(case["init"]))
            live, k = {}, 0
            for op, content in zip(case["ops"], o["contents"]):
                if op[0] == "A":
                    w = o["windows"][k]
                    k += 1
                    if w != -1:
                        if w in init or w in live.values() or not 1 <= w < 512:
                            return f"allocation handed out window number {w}, which is taken (initially: {w in init}, by a live holder: {w in live.values()}) or out of range"
                        live[op[1]] = w
                else:
                    live.pop(op[1], None)
                now = bits(bytes.fromhex(content))
                want = init | set(live.values())
                if now != want or len(bytes.fromhex(content)) != 64:
                    return (f"after {op[:2]} the map file marks {sorted(now - want)} in addition and lacks {sorted(want - now)} "
                            f"(initial content plus the numbers of the live holders {sorted(live.values())})")
            return True
        if case["kind"] == "fmmu_rel":
            w = o["windows"]
            if any(not isinstance(x, int) for x in w) or o["removed"] is not None:
                return f"FMMU lock creation / removal failed: {w} {o['removed']}"
            if not o["inside"]:
                return True         # the interrupted operation does not write the map byte where expected: nothing was interleaved
            run = [w[q] for q in o["running"]]
            if len(set(run)) != len(run):
                return (f"two running processes hold the same logical address window: {w} ({case['dir']}: A held {case['a']}, "
                        f"B allocated {case['b']} {'after waiting for' if o['waited'] else 'WHILE'} the other operation was between reading and writing the map byte)")
            return True
        if case["kind"] == "fmmu":
            w = o["windows"]
            if any(not isinstance(x, int) for x in w):
                return f"creating the FMMU lock failed: {w}"
            if len(set(w)) != len(w):
                return f"processes got the same logical address window: {w} (draws {case['draws']}, creator interrupted: {case['creator_gated']})"
            return True
        if o["violations"]:
            kind, what, acting = o["violations"][0]
            st = o["steps"]
            pattern = any(a[1] == "rmdir" and any(b[0] != a[0] and b[1] == "rename" and any(c[0] == a[0] and c[1] in ("detach", "unpin") for c in st[j + 1:])
                                                   for j, b in enumerate(st) if j > i) for i, a in enumerate(st))
            case["_leaver_race"] = pattern and all(v[0] == "P2" for v in o["violations"])
            # the other shape of the same missing lock: a leaver has removed its lock file (the directory is empty but still there), a
            # starter's rename REPLACES the empty directory and it becomes the first of a new generation, while the leaver (and a
            # joiner of the old generation) are still on their way
            def idx(p, what, start=0):
                return next((k for k in range(start, len(st)) if st[k][0] == p and st[k][1] == what), None)
            pattern2 = False
            for i, a in enumerate(st):
                if a[1] != "remove_lockfile":
                    continue
                rm = idx(a[0], "rmdir", i)
                for j in range(i + 1, len(st) if rm is None else rm):
                    b = st[j]
                    if b[0] != a[0] and b[1] == "rename" and idx(b[0], "attach", j) is not None:
                        pattern2 = True
            case["_empty_dir_race"] = pattern2 and not case["_leaver_race"] and all(v[0] == "P2" for v in o["violations"])
            return f"{kind}: {what}; schedule {case['sched']} steps {[(a, b) for a, b, c in o['steps']]}"
        bad = [e for e in o["errors"] if "FileNotFoundError" not in e and "FileExistsError" not in e]
        if bad:
            return f"a participant failed unexpectedly: {bad[0]}; steps {o['steps']}"
        return True

    def nontrivial(self, case, o):
        return True

    def rule(self):
        return ("75% start/stop schedules of 2-3 forked participants: random interleavings (bursts of 1-6 steps) of their gated operations on the lock directory, "
                "the pinned program table and the attachment, with scripted ethertype draws; 18% concurrent creation of the FMMU lock by 2-4 processes with "
                "colliding window draws, the creator interrupted right after creating the file; 12% an allocation against a removal on the same map byte (one of "
                "them stopped between reading and writing the byte, the other must wait), then a third process asks for the window in question; 10% a participant that stops as the last one and starts again on the same master "
                "object, after which another one draws its window; "
                "corpus: the leaver / fresh starter race")

    def distribution(self, cases, observed):
        d = {"startstop": 0, "fmmu": 0, "fmmu_rel": 0, "fmmu_bytes": 0, "restart": 0, "steps": 0, "joiners": 0, "lock_waits": 0}
        for c, o in zip(cases, observed):
            d[c["kind"]] += 1
            if c["kind"] == "fmmu_rel" and not isinstance(o, Err):
                d["lock_waits"] += bool(o["waited"])
            if c["kind"] == "startstop" and not isinstance(o, Err):
                d["steps"] += len(o["steps"])
                d["joiners"] += sum(1 for st in o["steps"] if st[1] == "open_x")
        return d

    def describe(self, case):
        return {k: v for k, v in case.items() if not k.startswith("_")}


CHECK = C23
