From Verif Require Import Sys.FmmuLock.

Definition finv (s : fstate) : Prop :=
  NoDup (map snd (held s)) /\ (forall p a, In (p, a) (held s) -> zmem a (used s) = true /\ 0 < a < 512).

Lemma zmem_in x l : zmem x l = true <-> In x l.
Proof.
  unfold zmem. rewrite existsb_exists. split.
  - intros (y & Hy & E). apply Z.eqb_eq in E. subst. exact Hy.
  - intros H. exists x. split; [exact H|apply Z.eqb_refl].
Qed.

Theorem finv_step s e : finv s -> finv (fstep s e).
Proof.
  intros [N U]. destruct e as [p a|p]; cbn [fstep].
  - destruct (zmem a (used s)) eqn:M; cbn [orb]; [split; assumption|].
    destruct (Z.leb_spec a 0) as [L0|L0]; cbn [orb]; [split; assumption|]. destruct (Z.leb_spec 512 a) as [L1|L1]; [split; assumption|].
    split; cbn [held used map snd].
    + constructor; [|exact N]. intros Hin. apply in_map_iff in Hin as ([q b] & Hb & Hq). cbn in Hb. subst b.
      destruct (U _ _ Hq) as [Hm _]. congruence.
    + intros q b [Hq|Hq].
      * injection Hq as <- <-. split; [unfold zmem; cbn [existsb used]; rewrite Z.eqb_refl; reflexivity|lia].
      * destruct (U _ _ Hq) as [Hm Hr]. split; [|exact Hr]. unfold zmem in *. cbn [existsb used]. rewrite Hm. apply orb_true_r.
  - destruct (find (fun h => fst h =? p) (held s)) as [[q a]|] eqn:F; [|split; assumption].
    apply find_some in F as [Fin Fq]. cbn in Fq. apply Z.eqb_eq in Fq. subst q.
    split; cbn [held used].
    + clear U Fin. induction (held s) as [|[q b] tl IH]; cbn; [constructor|].
      inversion N as [|? ? Nb Ntl]; subst. destruct (q =? p); cbn; [apply IH; exact Ntl|].
      constructor; [|apply IH; exact Ntl]. intros Hin. apply Nb. apply in_map_iff in Hin as ([q' b'] & E & Hf).
      cbn in E. subst b'. apply filter_In in Hf as [Hf _]. apply in_map_iff. exists (q', b). split; [reflexivity|exact Hf].
    + intros q b Hin. apply filter_In in Hin as [Hin Hq]. destruct (U _ _ Hin) as [Hm Hr]. split; [|exact Hr].
      apply zmem_in. apply filter_In. split; [apply zmem_in; exact Hm|].
      destruct (Z.eqb_spec b a) as [->|]; [|reflexivity].
      (* b = a would mean two holders of a *)
      exfalso. cbn in Hq. assert (q <> p) by (intros ->; rewrite Z.eqb_refl in Hq; discriminate).
      clear - N Hin Fin H. induction (held s) as [|[x y] tl IH]; [contradiction|].
      cbn in N. inversion N as [|? ? Ny Ntl]; subst. destruct Hin as [E|Hin]; destruct Fin as [E'|Fin].
      * congruence.
      * injection E as -> ->. apply Ny. apply in_map_iff. exists (p, a). split; [reflexivity|exact Fin].
      * injection E' as -> ->. apply Ny. apply in_map_iff. exists (q, a). split; [reflexivity|exact Hin].
      * apply IH; assumption.
Qed.

(* in EVERY history of allocations and releases no two processes hold the same window number ... *)
Theorem windows_distinct es : finv (fold_left fstep es {| used := []; held := [] |}).
Proof.
  assert (G : forall es s, finv s -> finv (fold_left fstep es s)).
  { induction es0 as [|e es0 IH]; intros s H; cbn [fold_left]; [exact H|]. apply IH. apply finv_step. exact H. }
  apply G. split; [constructor|]. intros p a [].
Qed.

(* ... and different window numbers mean disjoint address windows; the blocks a process hands to its sync groups (up to
   1023 of them) stay inside its own window *)
Theorem windows_disjoint a b : a <> b -> window_hi a <= window_lo b \/ window_hi b <= window_lo a.
Proof. unfold window_hi, window_lo. intros H. destruct (Z.lt_total a b) as [L|[E|L]]; [left|contradiction|right]; lia. Qed.
Theorem group_in_window a k : 1 <= k < 1024 -> window_lo a <= group_addr a k /\ group_addr a k + 4096 <= window_hi a.
Proof. unfold group_addr, window_lo, window_hi. lia. Qed.

(* the pinned tree: the creator's unlocked write loses a joiner's allocation - two processes in one window *)
Theorem pinned_refuted :
  let s := fold_left fstep_pinned [PCreate; PJoinAlloc 1 7; PCreatorWrite; PJoinAlloc 2 7] {| used := []; held := [] |} in
  map snd (held s) = [7; 7; 1].
Proof. reflexivity. Qed.

(* an allocation between the read and the write of a removal is forgotten: a third process is handed the same window *)
Theorem split_release_refuted :
  let s := fold_left sstep [SAlloc 0 9; SRelRead 0; SAlloc 1 10; SRelWrite 0; SAlloc 2 10] {| s_f := {| used := []; held := [] |}; s_snap := [] |} in
  ~ NoDup (map snd (held (s_f s))).
Proof. vm_compute. intros H. inversion H as [|x l Hn _]. apply Hn. left. reflexivity. Qed.
