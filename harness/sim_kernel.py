"""Stand-ins for the bpf() system call at the level of ebpfcat.bpf's Python
functions, installed over the *names the modules under test imported* (the
source is untouched).  Maps live in Python dicts / memfds, programs are
accepted and kept as bytes."""
import contextlib
import os


class FakeKernel:
    def __init__(self):
        self.maps = {}        # fd -> {"type", "key", "value", "max", "data": dict}
        self.progs = {}       # fd -> instruction bytes
        self.log = []         # (op, fd, key)

    def _fd(self):
        return os.open("/dev/null", os.O_RDONLY)

    def create_map(self, map_type, key_size, value_size, max_entries, attributes=None):
        name = getattr(map_type, "name", str(map_type))
        if name in ("ARRAY",):
            fd = os.memfd_create("verif_map")
            os.ftruncate(fd, max(value_size, 1))
        else:
            fd = self._fd()
        self.maps[fd] = {"type": name, "key": key_size, "value": value_size, "max": max_entries, "data": {}}
        return fd

    def lookup_elem(self, fd, key, fmt):
        import struct
        m = self.maps[fd]
        self.log.append(("lookup", fd, bytes(key)))
        if bytes(key) not in m["data"]:
            if m["type"] == "PROG_ARRAY":
                raise OSError(2, "No such file or directory")
            raise KeyError
        v = m["data"][bytes(key)]
        return v if isinstance(fmt, int) else struct.unpack(fmt, v[:struct.calcsize(fmt)])[0]

    def update_elem(self, fd, key, value, flags=None):
        self.log.append(("update", fd, bytes(key)))
        self.maps[fd]["data"][bytes(key)] = bytes(value)
        return 0

    def delete_elem(self, fd, key):
        self.log.append(("delete", fd, bytes(key)))
        if bytes(key) not in self.maps[fd]["data"]:
            raise KeyError
        del self.maps[fd]["data"][bytes(key)]
        return 0

    def prog_load(self, prog_type, insns, license, *a, **kw):
        fd = self._fd()
        self.progs[fd] = bytes(insns)
        return fd, ""


@contextlib.contextmanager
def installed(kernel=None):
    import ebpfcat.arraymap as arraymap
    import ebpfcat.ebpfcat as cat
    import ebpfcat.bpf as bpf
    k = kernel or FakeKernel()
    saved = []

    def patch(mod, name, val):
        saved.append((mod, name, getattr(mod, name)))
        setattr(mod, name, val)
    patch(arraymap, "create_map", k.create_map)
    import ebpfcat.hashmap as hashmap
    patch(hashmap, "create_map", k.create_map)
    for name in ("lookup_elem", "update_elem", "delete_elem", "create_map"):
        patch(cat, name, getattr(k, name))
    patch(bpf, "prog_load", k.prog_load)
    try:
        yield k
    finally:
        for mod, name, val in reversed(saved):
            setattr(mod, name, val)
