"""C13: EtherCat.roundtrip argument encoding / response decoding."""
import asyncio
import struct

from .common import Check, Err, cV, clist, cnat, czlist
from .fmtutil import INTS, cfmt, csval, items


def rand_value(rng, it, valid=True):
    if it[0] == "int":
        size, signed = it[1], it[2]
        lo, hi = (-(1 << (8 * size - 1)), (1 << (8 * size - 1)) - 1) if signed else (0, (1 << 8 * size) - 1)
        if not valid:
            return rng.choice([lo - 1, hi + 1, hi + rng.randrange(1, 1000)])
        return rng.choice([lo, hi, 0, 1, rng.randint(lo, hi), rng.randint(lo, hi)])
    if it[0] == "str":
        return bytes(rng.randrange(256) for _ in range(it[1]))
    if it[0] == "flt":
        return rng.choice([0.0, -0.0, -0.0, 1.5, -2.75, 0.5, 1024.0]) if valid else "1.5"
    raise AssertionError


def bits(x):
    """floats by their bits (0.0 == -0.0 and nan != nan would mislead a comparison of decoded values)"""
    if isinstance(x, float):
        return ("float", struct.pack("<d", x))
    if isinstance(x, (list, tuple)):
        return [bits(y) for y in x]
    return x


def rand_fmt(rng):
    parts = []
    for _ in range(rng.randint(1, 3)):
        r = rng.random()
        if r < 0.08:
            parts.append(rng.choice("efd"))
        elif r < 0.7:
            parts.append(rng.choice("BHIQbhiq"))
        elif r < 0.8:
            parts.append(f"{rng.randint(1, 3)}x")
        elif r < 0.9:
            parts.append(f"{rng.randint(0, 5)}s")
        else:
            parts.append(f"{rng.randint(2, 3)}{rng.choice('BHb')}")
    return "".join(parts)


class C13(Check):
    pid = "C13"
    props_file = "Props/C13.v"
    corr_imports = ["Ecat.Codec", "Corr.C13"]
    technique = "Coq proof (struct round-trip by induction on formats; roundtrip encode/decode lemmas) + differential correspondence of the Gallina model with EtherCat.roundtrip"
    trusted = ["CPython struct semantics are modelled by Lib/Struct.v (diffed against struct.pack/unpack in this check)",
               "asyncio Queue/Future used only as a conduit for one request"]
    assumptions = ["format strings are complete items (no count digits split across two argument strings)",
                   "the bus returns a response of the same length as the payload"]

    # case = {"args": [("f", fmt) | ("v", value)], "data": None | int | bytes, "resp": "echo" | bytes}
    def corpus(self):
        return [
            {"args": [("f", "H"), ("v", 5)], "data": 0, "resp": "echo"},
            {"args": [("f", "H"), ("v", 5)], "data": b"", "resp": "echo"},
            {"args": [("f", "H")], "data": b"", "resp": "echo"},
            {"args": [("f", "HBB"), ("v", 1), ("v", 2), ("v", 3), ("f", "I")], "data": b"\x01\x02", "resp": "echo"},
            {"args": [], "data": b"abc", "resp": "echo"},
            {"args": [], "data": 0, "resp": "echo"},
            {"args": [], "data": None, "resp": "echo"},
            {"args": [("f", "H2xH")], "data": None, "resp": "echo"},
            {"args": [("f", "B"), ("v", 256)], "data": None, "resp": "echo"},
        ]

    def gen_cases(self):
        n = 300 if self.tier == "quick" else 4000
        rng = self.rng
        out = []
        for i in range(n):
            malformed = rng.random() < 0.08
            args = []
            for _ in range(rng.choice([0, 1, 1, 2, 2, 3])):
                f = rand_fmt(rng)
                args.append(("f", f))
                vals = [rand_value(rng, it, True) for it in items(f) if it[0] != "pad"]
                if malformed and vals and rng.random() < 0.5:
                    k = rng.randrange(len(vals))
                    its = [it for it in items(f) if it[0] != "pad"]
                    if its[k][0] == "int":
                        vals[k] = rand_value(rng, its[k], False)
                    else:
                        vals.pop()
                elif malformed and rng.random() < 0.3:
                    vals.append(1)
                args.extend(("v", v) for v in vals)
            if rng.random() < 0.4:
                args.append(("f", rand_fmt(rng)))
            r = rng.random()
            if r < 0.3:
                data = None
            elif r < 0.45:
                data = rng.choice([0, 0, 1, rng.randint(0, 40)])
            elif r < 0.6:
                data = b""
            else:
                data = bytes(rng.randrange(256) for _ in range(rng.randint(0, 30)))
            resp = "echo" if rng.random() < 0.3 else ("rand", rng.randrange(1 << 30))
            out.append({"args": args, "data": data, "resp": resp})
            if rng.random() < 0.15:
                # the same request issued by several tasks at once, through the real send loop (more than fit into one frame: 17, 20)
                out[-1]["loop"] = rng.choice([2, 15, 16, 17, 20])
        return out

    def _resp(self, case, out):
        if case["resp"] == "echo":
            return bytes(out)
        import random
        r = random.Random(case["resp"][1])
        return bytes(r.randrange(256) for _ in out)

    def run_impl(self, case):
        from ebpfcat.ethercat import EtherCat, ECCmd
        pyargs = [a[1] for a in case["args"]]
        # a request that differs only in the sign of its zeros is issued first (anything the master remembers between
        # requests must not leak from one into the next)
        twin = [(0.0 if isinstance(v, float) and v == 0 else v) for v in pyargs]
        has_negzero = any(isinstance(v, float) and v == 0 and str(v).startswith("-") for v in pyargs)

        async def go_loop(n):
            from .c11 import parse_frame
            ec = EtherCat("verif0")
            ec.send_queue = asyncio.Queue()
            sent = []

            class Transport:
                def sendto(self, frame, addr=None):
                    sent.append(bytes(frame))
            ec.transport = Transport()
            loop_task = asyncio.ensure_future(ec.sendloop())
            refused = None
            if n in (2, 16, 20):
                # a request that can never fit into a frame is issued first: it is refused, and nothing of it may reach the wire or
                # the requests that follow on the same connection
                refused = asyncio.ensure_future(ec.roundtrip(ECCmd.FPRD, 98, 0x10, data=b"\xaa" * 1480))
                for _ in range(3):
                    await asyncio.sleep(0)
            tasks = [asyncio.ensure_future(ec.roundtrip(ECCmd.FPRD, 7 + i, 0x10, *pyargs, data=case["data"])) for i in range(n)]
            # a request with OTHER formats of the same total size is in flight at the same time (issued last): a read-only
            # format of single bytes
            nbytes = sum(1 if it[0] == "pad" else it[1] for k_, v_ in case["args"] if k_ == "f" for it in items(v_))
            sibling = asyncio.ensure_future(ec.roundtrip(ECCmd.FPRD, 99, 0x10, f"{nbytes}B")) if nbytes and case["data"] is None else None
            try:
                for _ in range(6):
                    await asyncio.sleep(0)
                if all(t.done() for t in tasks):
                    return tasks[0].result()      # raises
                k, outs, answers = 0, [], {}
                while k < len(sent):
                    frame = sent[k]
                    k += 1
                    length, dgs, _ = parse_frame(frame)
                    r = bytearray(frame)
                    for d in dgs[1:]:
                        station = d["addr"] & 0xffff
                        if station == 98:
                            raise AssertionError(f"the over-long request that was refused is on the wire all the same ({d['len']} bytes, frame of {len(frame)} bytes)")
                        if station != 99:
                            outs.append(bytes(d["data"]))
                        # every request gets an answer of its own (the common answer shifted by its station number)
                        mine = bytes((x + station) & 0xff for x in self._resp(case, d["data"]))
                        answers[station] = mine
                        r[d["datapos"]:d["datapos"] + d["len"]] = mine
                        struct.pack_into("<H", r, d["datapos"] + d["len"], 1)
                    ec.datagram_received(bytes(r), None)
                    for _ in range(4):
                        await asyncio.sleep(0)
                rets = [await asyncio.wait_for(t, 60) for t in tasks]
                if refused is not None and not (refused.done() and not refused.cancelled() and isinstance(refused.exception(), OverflowError)):
                    raise AssertionError("a request of 1480 data bytes was not refused with OverflowError")
                if len(outs) != n or any(o_ != outs[0] for o_ in outs):
                    raise AssertionError(f"{n} identical concurrent requests were sent as {len(outs)} datagrams / with different payloads")
                if self.valid(case):
                    for i, r_ in enumerate(rets):
                        want = self.want_of(case, answers[7 + i])
                        got = self.enc_ret(case, pyargs, r_)
                        if bits(got) != bits(want):
                            whose = [j for j in range(n) if bits(got) == bits(self.want_of(case, answers[7 + j]))]
                            raise AssertionError(f"of {n} concurrent requests, request {i} returned {r_!r}"
                                                 + (f", which is the answer to request {whose[0]}" if whose else f", its own answer decodes to {want!r}"))
                return outs[0], rets[0], answers[7]
            finally:
                loop_task.cancel()
                for t in tasks + ([sibling] if sibling is not None else []) + ([refused] if refused is not None else []):
                    t.cancel()

        async def go():
            if case.get("loop"):
                return await go_loop(case["loop"])
            ec = EtherCat("verif0")
            ec.send_queue = asyncio.Queue()
            task = asyncio.ensure_future(ec.roundtrip(ECCmd.FPRD, 7, 0x10, *pyargs, data=case["data"]))
            await asyncio.sleep(0)
            if task.done():
                return task.result()  # raises
            cmd, out, idx, pos, off, fut = ec.send_queue.get_nowait()
            resp = self._resp(case, out)
            fut.set_result(resp)
            ret = await task
            return bytes(out), ret, resp
        if has_negzero:
            saved, pyargs = pyargs, twin
            try:
                asyncio.run(go())
            except Exception:      # noqa
                pass
            pyargs = saved
        try:
            out, ret, resp = asyncio.run(go())
        except struct.error as e:
            if case.get("loop") and "requires" not in str(e) and "format" not in str(e) and "argument" not in str(e) and "pack" not in str(e):
                return Err(2, f"decoding a response failed: {e}")
            return Err(1, str(e))
        except AssertionError as e:
            return Err(2, str(e))
        enc = self.enc_ret(case, pyargs, ret)
        case["_resp"] = resp
        return [out, enc]

    @staticmethod
    def enc_ret(case, pyargs, ret):
        if case["data"] is None:
            return [0, list(ret)]
        if pyargs:
            return [1, list(ret[:-1]), ret[-1]]
        return [2, ret]

    def want_of(self, case, resp):
        """what roundtrip must return for this response"""
        a = case["args"]
        fm = items("".join(v for k, v in a[:-1] if k == "f"))
        trail = items(a[-1][1]) if a and a[-1][0] == "f" else []
        fields, n = self.dec_fields(fm + trail, resp)
        if case["data"] is None:
            return [0, fields]
        if a:
            return [1, fields, resp[n:]]
        return [2, resp]

    @staticmethod
    def has_float(case):
        return any(k == "f" and any(it[0] == "flt" for it in items(v)) for k, v in case["args"])

    def model_term(self, case):
        if self.has_float(case):
            return None          # floating-point fields are not part of the Coq struct model: oracle (Python's struct) only
        args = []
        for k, v in case["args"]:
            args.append(f"AFmt {cfmt(v)}" if k == "f" else f"AVal {csval(v)}")
        d = case["data"]
        if d is None:
            cd = "DNone"
        elif isinstance(d, int):
            cd = f"(DCount {cnat(d)})"
        else:
            cd = f"(DBytes {czlist(d)})"
        # the response the model decodes: the one the harness bus produced
        resp = case.get("_resp")
        if resp is None:  # impl failed before sending: any response; model must fail too
            resp = b""
        return f"(run {clist(args)} {cd} {czlist(resp)})"

    def valid(self, case):
        """are the values acceptable to struct (so the call must succeed)?"""
        a = case["args"]
        fm = "".join(v for k, v in a[:-1] if k == "f")
        vals = [v for k, v in a if k == "v"]
        its = [it for it in items(fm) if it[0] != "pad"]
        if len(its) != len(vals):
            return False
        for it, v in zip(its, vals):
            if it[0] == "int":
                if not isinstance(v, int):
                    return False
                size, signed = it[1], it[2]
                lo, hi = (-(1 << (8 * size - 1)), (1 << (8 * size - 1)) - 1) if signed else (0, (1 << 8 * size) - 1)
                if not lo <= v <= hi:
                    return False
            elif it[0] == "flt":
                if not isinstance(v, float):
                    return False
            elif not isinstance(v, bytes):
                return False
        return True

    @staticmethod
    def enc_field(it, v):
        if it[0] == "int":
            return (v % (1 << 8 * it[1])).to_bytes(it[1], "little")
        if it[0] == "pad":
            return b"\0"
        if it[0] == "flt":
            return struct.pack("<" + it[2], v)
        return (v + bytes(it[1]))[:it[1]]

    @staticmethod
    def dec_fields(its, b):
        pos, out = 0, []
        for it in its:
            if it[0] == "int":
                v = int.from_bytes(b[pos:pos + it[1]], "little", signed=it[2])
                out.append(v)
                pos += it[1]
            elif it[0] == "pad":
                pos += 1
            elif it[0] == "flt":
                out.append(struct.unpack_from("<" + it[2], b, pos)[0])
                pos += it[1]
            else:
                out.append(b[pos:pos + it[1]])
                pos += it[1]
        return out, pos

    def holds(self, case, o):
        a = case["args"]
        ok = self.valid(case)
        if isinstance(o, Err):
            return True if not ok else f"valid request failed: {o.what}"
        if not ok:
            return "invalid request was accepted"
        out, (kind, *rest) = o
        fm = items("".join(v for k, v in a[:-1] if k == "f"))
        vals = iter(v for k, v in a if k == "v")
        exp = b"".join(self.enc_field(it, 0 if it[0] == "pad" else next(vals)) for it in fm)
        trail = items(a[-1][1]) if a and a[-1][0] == "f" else []
        exp += bytes(sum(1 if it[0] == "pad" else it[1] for it in trail))
        d = case["data"]
        raw = b"" if d is None else (bytes(d) if isinstance(d, int) else d)
        exp += raw
        if out != exp:
            return f"payload {out.hex()} != expected {exp.hex()}"
        resp = case["_resp"]
        want = self.want_of(case, resp)
        got = [kind] + rest

        def norm(x):
            # floats by their bits (0.0 == -0.0, nan != nan)
            if isinstance(x, float):
                return ("float", struct.pack("<d", x))
            if isinstance(x, (list, tuple)):
                return [norm(y) for y in x]
            return x
        if norm(got) != norm(want):
            return f"returned {got!r} != expected {want!r}"
        return True

    def nontrivial(self, case, o):
        return len(case["args"]) > 0 and not isinstance(o, Err)

    def search_cases(self):
        import itertools
        out = []
        for f, d, tr in itertools.product(["", "B", "H", "Hb", "2x", "3s", "Q"], [None, 0, 1, b"", b"x", b"xyz"], [None, "H", "2s", "x"]):
            args = []
            if f:
                args.append(("f", f))
                for it in items(f):
                    if it[0] == "int":
                        args.append(("v", 1))
                    elif it[0] == "str":
                        args.append(("v", b"a" * it[1]))
            if tr:
                args.append(("f", tr))
            out.append({"args": args, "data": d, "resp": ("rand", 7)})
        return out

    def extra_checks(self):
        """identifiers of frames: while a frame is waiting for its answer no later frame may carry the same identifier - not even
        after very many frames (an identifier counter that wraps).  70000 frames go out and are answered at once while the first
        one stays unanswered."""
        import struct as _s
        from ebpfcat.ethercat import EtherCat, Packet, ECCmd

        async def go():
            ec = EtherCat("verif0")
            sent = []

            class Transport:
                def sendto(self, frame, addr=None):
                    sent.append(bytes(frame))
            ec.transport = Transport()
            p = Packet()
            p.append(ECCmd.FPRD, b"\0\0", 0, 1001, 0x10)
            first = ec.roundtrip_packet(p)
            idx0 = _s.unpack_from("<I", sent[0], 4)[0]
            n = 70000
            for k in range(n):
                f = ec.roundtrip_packet(p)
                frame = sent.pop()
                idx = _s.unpack_from("<I", frame, 4)[0]
                if idx == idx0:
                    return f"frame {k + 1} after an unanswered frame carries the same identifier {idx0:#x}"
                ec.datagram_received(frame, None)
                if not f.done():
                    return f"frame {k + 1} did not get its own answer"
            if first.done():
                return "the unanswered first frame was completed by somebody else's answer"
            first.cancel()
            return None
        try:
            bad = asyncio.run(go())
        except Exception as e:      # noqa
            bad = f"{type(e).__name__}: {e}"
        return [("frame-identifiers-unique-while-waiting", bad is None, f"70000 frames sent and answered while the first one stays unanswered; {bad}")]

    def rule(self):
        return ("argument lists of 0-3 (format, values) groups over B H I Q b h i q, 8% floating-point e f d (values incl. -0.0, preceded by the same request with +0.0; oracle only), pad bytes, byte strings and counted items, "
                "optional trailing read-only format, data = None / count (often 0) / bytes (often empty); 8% malformed "
                "(out-of-range or wrong count); bus echoes or returns random bytes; 15% of the requests are issued by 2, 15, 16, 17 or 20 tasks at once "
                "through the real send loop (17 and 20 overflow one frame; for 2, 16 and 20 a request too long for any frame is issued first and must be refused without a trace), each with an answer of its own, together with a request of OTHER formats of the same size. Non-trivial = has arguments and succeeded; "
                "distinct by full case content")

    def distribution(self, cases, observed):
        d = {"data_none": 0, "data_zero_or_empty": 0, "data_nonempty": 0, "errors": 0, "trailing_fmt": 0, "no_args": 0}
        for c, o in zip(cases, observed):
            x = c["data"]
            if x is None:
                d["data_none"] += 1
            elif x == 0 or x == b"":
                d["data_zero_or_empty"] += 1
            else:
                d["data_nonempty"] += 1
            d["errors"] += isinstance(o, Err)
            d["trailing_fmt"] += bool(c["args"]) and c["args"][-1][0] == "f"
            d["no_args"] += not c["args"]
        return d

    def describe(self, case):
        return {"args": [[k, v.hex() if isinstance(v, bytes) else v] for k, v in case["args"]],
                "data": case["data"].hex() if isinstance(case["data"], bytes) else case["data"],
                "data_is_bytes": isinstance(case["data"], bytes),
                "resp": case["resp"]}

    def case_from_json(self, w):
        args = []
        for k, v in w["args"]:
            if k == "v" and isinstance(v, str):
                v = bytes.fromhex(v)
            args.append((k, v))
        d = w["data"]
        if w.get("data_is_bytes"):
            d = bytes.fromhex(d)
        resp = w["resp"]
        return {"args": args, "data": d, "resp": tuple(resp) if isinstance(resp, list) else resp}


CHECK = C13
