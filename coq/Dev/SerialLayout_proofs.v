From Verif Require Import Lib.ListX Dev.SerialLayout Dev.Serial.

Lemma wr_length img start bs : (start + length bs <= length img)%nat -> length (wr img start bs) = length img.
Proof.
  intros H. unfold wr. rewrite !app_length, firstn_length, skipn_length. lia.
Qed.

(* a write changes nothing outside [start, start + len) *)
Lemma wr_outside img start bs j dflt :
  (start + length bs <= length img)%nat ->
  (j < start \/ start + length bs <= j)%nat ->
  nth j (wr img start bs) dflt = nth j img dflt.
Proof.
  intros Hin [Hj | Hj]; unfold wr.
  - rewrite app_nth1 by (rewrite firstn_length; lia).
    transitivity (nth j (firstn start img ++ skipn start img) dflt); [| rewrite firstn_skipn; reflexivity].
    rewrite app_nth1 by (rewrite firstn_length; lia). reflexivity.
  - rewrite app_nth2 by (rewrite firstn_length; lia).
    rewrite firstn_length, Nat.min_l by lia.
    rewrite app_nth2 by lia.
    rewrite nth_skipn'. f_equal. lia.
Qed.

(* ... and puts exactly the new bytes inside *)
Lemma wr_inside img start bs j dflt :
  (start + length bs <= length img)%nat -> (start <= j < start + length bs)%nat ->
  nth j (wr img start bs) dflt = nth (j - start) bs dflt.
Proof.
  intros Hin Hj. unfold wr.
  rewrite app_nth2 by (rewrite firstn_length; lia).
  rewrite firstn_length, Nat.min_l by lia.
  rewrite app_nth1 by lia. reflexivity.
Qed.

Lemma disjointb_spec a b c d : disjointb a b c d = true -> b <= c \/ d <= a.
Proof. unfold disjointb. lia. Qed.

Section Layout.
  Variable descs : list desc.
  Variable chans : list (Z * Z).
  Hypothesis Hpairs : pairs_ok descs chans = true.
  Hypothesis Hshape : shape_ok descs chans = true.

  Lemma ranges_disjoint c1 c2 d1 d2 :
    In c1 chans -> In c2 chans -> c1 <> c2 -> In d1 descs -> In d2 descs -> d_sm d1 = d_sm d2 ->
    hi c1 d1 <= lo c2 d2 \/ hi c2 d2 <= lo c1 d1.
  Proof.
    intros H1 H2 Hne Hd1 Hd2 Hsm.
    unfold pairs_ok in Hpairs. rewrite forallb_forall in Hpairs.
    specialize (Hpairs (c1, c2) (proj2 (in_prod_iff chans chans c1 c2) (conj H1 H2))). cbn beta iota in Hpairs.
    destruct ((fst c1 =? fst c2) && (snd c1 =? snd c2)) eqn:E.
    - exfalso. apply Hne. apply andb_true_iff in E. destruct E as [E1 E2]. apply Z.eqb_eq in E1, E2.
      destruct c1, c2; cbn [fst snd] in *. congruence.
    - rewrite forallb_forall in Hpairs.
      specialize (Hpairs (d1, d2) (proj2 (in_prod_iff descs descs d1 d2) (conj Hd1 Hd2))). cbn beta iota in Hpairs.
      apply orb_true_iff in Hpairs. destruct Hpairs as [Hp | Hp].
      + rewrite Hsm in Hp. rewrite Z.eqb_refl in Hp. discriminate.
      + apply disjointb_spec in Hp. exact Hp.
  Qed.

  Lemma lo_nonneg c d : In c chans -> In d descs -> 0 <= lo c d /\ lo c d < hi c d.
  Proof.
    intros Hc Hd. unfold shape_ok in Hshape. apply andb_true_iff in Hshape. destruct Hshape as [Hs1 Hs2].
    rewrite forallb_forall in Hs1, Hs2. specialize (Hs1 d Hd). specialize (Hs2 c Hc).
    apply andb_true_iff in Hs1. destruct Hs1 as [Hs1 _]. apply andb_true_iff in Hs1. destruct Hs1 as [Hp Hw].
    apply andb_true_iff in Hs2. destruct Hs2 as [Hc1 Hc2].
    apply Z.leb_le in Hp, Hc1, Hc2. apply Z.ltb_lt in Hw.
    unfold hi, lo, chan_off. destruct (d_sm d =? 3); lia.
  Qed.

  (* THE non-interference statement: whatever bytes are written into variable d1 of channel c1 (as many as its width), no byte
     of any variable d2 of another channel c2 in the same image changes *)
  Theorem write_keeps_other_channel img c1 c2 d1 d2 bs j dflt :
    In c1 chans -> In c2 chans -> c1 <> c2 -> In d1 descs -> In d2 descs -> d_sm d1 = d_sm d2 ->
    Z.of_nat (length bs) = d_width d1 ->
    hi c1 d1 <= Z.of_nat (length img) ->
    lo c2 d2 <= Z.of_nat j < hi c2 d2 ->
    nth j (wr img (Z.to_nat (lo c1 d1)) bs) dflt = nth j img dflt.
  Proof.
    intros H1 H2 Hne Hd1 Hd2 Hsm Hlen Hin Hj.
    destruct (ranges_disjoint c1 c2 d1 d2 H1 H2 Hne Hd1 Hd2 Hsm) as [Hd | Hd];
      destruct (lo_nonneg c1 d1 H1 Hd1) as [Hn1 Hn2]; unfold hi in *;
      apply wr_outside; lia.
  Qed.
End Layout.

Lemma EL6002_pairs : pairs_ok EL6002_descs EL6002_channels = true. Proof. vm_compute. reflexivity. Qed.
Lemma EL6002_shape : shape_ok EL6002_descs EL6002_channels = true. Proof. vm_compute. reflexivity. Qed.
Lemma EL6022_pairs : pairs_ok EL6022_descs EL6022_channels = true. Proof. vm_compute. reflexivity. Qed.
Lemma EL6022_shape : shape_ok EL6022_descs EL6022_channels = true. Proof. vm_compute. reflexivity. Qed.

Lemma EL6002_out_ok : channel_ok EL6002_transmit_request EL6002_receive_accept EL6002_init_request EL6002_out_string = true.
Proof. vm_compute. reflexivity. Qed.
Lemma EL6002_in_ok : channel_ok EL6002_transmit_accept EL6002_receive_request EL6002_init_accept EL6002_in_string = true.
Proof. vm_compute. reflexivity. Qed.
Lemma EL6022_out_ok : channel_ok EL6022_transmit_request EL6022_receive_accept EL6022_init_request EL6022_out_string = true.
Proof. vm_compute. reflexivity. Qed.
Lemma EL6022_in_ok : channel_ok EL6022_transmit_accept EL6022_receive_request EL6022_init_accept EL6022_in_string = true.
Proof. vm_compute. reflexivity. Qed.

(* the handshake model's chunk size is what the string variables can carry: one length byte + 22 characters *)
Lemma chunk_fits : Z.of_nat chunk + 1 = d_width EL6002_out_string /\ Z.of_nat chunk + 1 = d_width EL6002_in_string /\
                   Z.of_nat chunk + 1 = d_width EL6022_out_string /\ Z.of_nat chunk + 1 = d_width EL6022_in_string.
Proof. vm_compute. repeat split. Qed.

Theorem EL6002_channels_independent img c1 c2 d1 d2 bs j dflt :
  In c1 EL6002_channels -> In c2 EL6002_channels -> c1 <> c2 -> In d1 EL6002_descs -> In d2 EL6002_descs -> d_sm d1 = d_sm d2 ->
  Z.of_nat (length bs) = d_width d1 -> hi c1 d1 <= Z.of_nat (length img) -> lo c2 d2 <= Z.of_nat j < hi c2 d2 ->
  nth j (wr img (Z.to_nat (lo c1 d1)) bs) dflt = nth j img dflt.
Proof. exact (write_keeps_other_channel _ _ EL6002_pairs EL6002_shape img c1 c2 d1 d2 bs j dflt). Qed.

Theorem EL6022_channels_independent img c1 c2 d1 d2 bs j dflt :
  In c1 EL6022_channels -> In c2 EL6022_channels -> c1 <> c2 -> In d1 EL6022_descs -> In d2 EL6022_descs -> d_sm d1 = d_sm d2 ->
  Z.of_nat (length bs) = d_width d1 -> hi c1 d1 <= Z.of_nat (length img) -> lo c2 d2 <= Z.of_nat j < hi c2 d2 ->
  nth j (wr img (Z.to_nat (lo c1 d1)) bs) dflt = nth j img dflt.
Proof. exact (write_keeps_other_channel _ _ EL6022_pairs EL6022_shape img c1 c2 d1 d2 bs j dflt). Qed.
