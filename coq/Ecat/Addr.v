(* EtherCat.find_free_address / assigned_address run concurrently by several
   tasks (scan_serial_numbers, Terminal.initialize).  Atomic steps are the
   code between two awaits; the random draws and the schedule are arbitrary. *)
From Verif Require Export Lib.ListX Generated.Consts.

Inductive tstate :=
| TKeep (a : Z)     (* the terminal answered with a non-zero address: returned as is *)
| TDraw             (* in find_free_address, before randint *)
| TProbe (i : Z)    (* i recorded in used_addresses, FPRD probe in flight *)
| TWrite (i : Z)    (* probe unanswered: i returned, APWR in flight *)
| TDone (i : Z).    (* address written to the terminal *)

Record st := { used : list Z; bus : list Z (* station address per terminal, 0 = none *);
               tasks : list tstate }.

Inductive ev := Draw (t : nat) (i : Z) | Probed (t : nat) | Wrote (t : nat).

Definition mem (i : Z) (l : list Z) : bool := existsb (Z.eqb i) l.

Definition step (lo hi : Z) (s : st) (e : ev) : st :=
  match e with
  | Draw t i =>
      match nth_error (tasks s) t with
      | Some TDraw =>
          if negb ((lo <=? i) && (i <=? hi)) then s      (* randint never returns this *)
          else if mem i (used s) then s                   (* continue *)
          else {| used := i :: used s; bus := bus s; tasks := set_at t (TProbe i) (tasks s) |}
      | _ => s
      end
  | Probed t =>
      match nth_error (tasks s) t with
      | Some (TProbe i) =>
          {| used := used s; bus := bus s;
             tasks := set_at t (if mem i (bus s) then TDraw else TWrite i) (tasks s) |}
      | _ => s
      end
  | Wrote t =>
      match nth_error (tasks s) t with
      | Some (TWrite i) => {| used := used s; bus := set_at t i (bus s); tasks := set_at t (TDone i) (tasks s) |}
      | _ => s
      end
  end.

(* one task per terminal; pre = the station addresses found on the bus *)
Definition init (pre : list Z) : st :=
  {| used := []; bus := pre; tasks := map (fun a => if a =? 0 then TDraw else TKeep a) pre |}.

Definition claim (s : tstate) : option Z :=
  match s with TProbe i | TWrite i | TDone i => Some i | _ => None end.
Definition assigned (s : tstate) : option Z :=
  match s with TWrite i | TDone i => Some i | _ => None end.

(* was the event enabled (used by the correspondence to validate a recorded trace) *)
Definition enabled (s : st) (e : ev) : bool :=
  match e with
  | Draw t _ => match nth_error (tasks s) t with Some TDraw => true | _ => false end
  | Probed t => match nth_error (tasks s) t with Some (TProbe _) => true | _ => false end
  | Wrote t => match nth_error (tasks s) t with Some (TWrite _) => true | _ => false end
  end.
