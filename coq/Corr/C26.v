From Verif Require Import Lib.Base Dev.Motor.
Definition run (i : inputs) : V := VZ (motor_impl i).
