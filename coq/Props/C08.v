(* C08 Array-map variables read back the same on both sides.
   Model (Gen/Layout.v): ArrayMap.collect - for every program / subprogram
   instance the declarations of its MRO (most derived class first) are reduced
   to one entry per name (`dedupe`), all entries are sorted by size and placed
   at the running sum (`positions`).  The real layout of random class
   hierarchies is compared with it on every run; values travel both ways between
   the real Python descriptors and the real generated program (ISA model). *)
From Verif Require Import Lib.Struct Lib.Struct_proofs Gen.Layout Gen.Layout_proofs Gen.Packet Gen.Packet_proofs.

(* exactly one slot per variable name, and its size is the size of the
   declaration that attribute lookup finds (the first in the MRO) *)
Theorem C08_one_slot_per_name : forall l,
  NoDup (map fst (dedupe [] l)) /\ forall n s, In (n, s) (dedupe [] l) -> first_def n l = Some s.
Proof. exact collect_one_slot_per_name. Qed.
Print Assumptions C08_one_slot_per_name.

(* the slots of ANY collection are pairwise disjoint *)
Theorem C08_slots_disjoint : forall sizes pos, Forall (fun s => 0 <= s) sizes ->
  pairwise_disjoint (positions pos sizes) /\ Forall (fun r => pos <= fst r) (positions pos sizes).
Proof. exact positions_disjoint. Qed.
Print Assumptions C08_slots_disjoint.

(* what one side stores, the other reads: Python packs / unpacks native
   (little-endian) formats, the program loads / stores the same bytes (C07's
   codec with native order) *)
Theorem C08_value_roundtrip : forall f v, (0 < pf_n f)%nat ->
  (if pf_signed f then - 2 ^ (8 * Z.of_nat (pf_n f) - 1) <= v < 2 ^ (8 * Z.of_nat (pf_n f) - 1)
   else 0 <= v < 256 ^ Z.of_nat (pf_n f)) ->
  Gen.Packet.unpack f (Gen.Packet.pack f v) = v.
Proof. exact Gen.Packet_proofs.unpack_pack. Qed.
Print Assumptions C08_value_roundtrip.

(* the repaired defect: a name redefined in a subclass was collected twice *)
Theorem C08_pinned_refuted :
  let mro := [(1, 8); (2, 4); (1, 4)] in ~ NoDup (map fst (dedupe_pinned mro)).
Proof. exact collect_pinned_refuted. Qed.

Example C08_nonvacuous :
  dedupe [] [(1, 8); (2, 4); (1, 4); (3, 2)] = [(1, 8); (2, 4); (3, 2)] /\
  positions 0 [8; 4; 2] = [(0, 8); (8, 4); (12, 2)].
Proof. split; reflexivity. Qed.
