From Verif Require Import Lib.Struct.

Lemma pack_length f : forall vs out, pack f vs = Some out -> length out = calcsize f.
Proof.
  induction f as [|it tl IH]; intros vs out H.
  - destruct vs; simpl in H; inversion H; reflexivity.
  - destruct it as [n s| |n]; cbn [pack] in H.
    + destruct vs as [|[z|l] vs']; try discriminate.
      destruct (in_range n s z); try discriminate.
      destruct (pack tl vs') as [o|] eqn:E; try discriminate.
      simpl in H. inversion H; subst. rewrite app_length, le_bytes_length.
      cbn [calcsize isize]. now rewrite (IH _ _ E).
    + destruct (pack tl vs) as [o|] eqn:E; try discriminate.
      simpl in H. inversion H; subst. cbn [calcsize isize length]. now rewrite (IH _ _ E).
    + destruct vs as [|[z|l] vs']; try discriminate.
      destruct (pack tl vs') as [o|] eqn:E; try discriminate.
      simpl in H. inversion H; subst. rewrite app_length. cbn [calcsize isize].
      rewrite (IH _ _ E). f_equal. unfold fit_str. rewrite firstn_length, app_length, zeros_length. lia.
Qed.

Lemma sx_wrap_signed n z : (0 < n)%nat ->
  - 2 ^ (8 * Z.of_nat n - 1) <= z < 2 ^ (8 * Z.of_nat n - 1) ->
  sx n (z mod 256 ^ Z.of_nat n) = z.
Proof.
  intros Hn Hz. unfold sx.
  assert (E : 256 ^ Z.of_nat n = 2 ^ (8 * Z.of_nat n)).
  { change 256 with (2 ^ 8). rewrite <- Z.pow_mul_r by lia. reflexivity. }
  rewrite E.
  assert (P : 2 ^ (8 * Z.of_nat n) = 2 * 2 ^ (8 * Z.of_nat n - 1)).
  { rewrite <- Z.pow_succ_r by lia. f_equal. lia. }
  set (h := 2 ^ (8 * Z.of_nat n - 1)) in *.
  assert (0 < h) by (apply Z.pow_pos_nonneg; lia).
  rewrite P.
  destruct (Z.ltb_spec z 0).
  - replace (z mod (2 * h)) with (z + 2 * h).
    2:{ apply Z.mod_unique with (q := -1); lia. }
    destruct (Z.ltb_spec (z + 2 * h) h); lia.
  - rewrite Z.mod_small by lia.
    destruct (Z.ltb_spec z h); lia.
Qed.

Lemma decode_encode_int n s z : (0 < n)%nat -> in_range n s z = true ->
  decode_int n s (le_bytes n z) = z.
Proof.
  intros Hn Hr. unfold decode_int, in_range in *.
  rewrite le_val_le_bytes.
  destruct s.
  - apply sx_wrap_signed; [assumption|]. lia.
  - assert (E : 256 ^ Z.of_nat n = 2 ^ (8 * Z.of_nat n)).
    { change 256 with (2 ^ 8). rewrite <- Z.pow_mul_r by lia. reflexivity. }
    rewrite E. apply Z.mod_small. lia.
Qed.

Fixpoint sizes_pos (f : fmt) : Prop :=
  match f with
  | [] => True
  | FInt n _ :: tl => (0 < n)%nat /\ sizes_pos tl
  | _ :: tl => sizes_pos tl
  end.

Theorem unpack_pack f : sizes_pos f -> forall vs out, vals_ok f vs ->
  pack f vs = Some out -> unpack f out = Some vs.
Proof.
  induction f as [|it tl IH]; intros Hp vs out Hok H.
  - destruct vs; simpl in *; inversion H; reflexivity.
  - destruct it as [n s| |n]; cbn [pack] in H; cbn [sizes_pos] in Hp.
    + destruct Hp as [Hn Hp].
      destruct vs as [|[z|l] vs']; try discriminate.
      destruct (in_range n s z) eqn:R; try discriminate.
      destruct (pack tl vs') as [o|] eqn:E; try discriminate.
      simpl in H. inversion H; subst. cbn [unpack isize]. cbn [vals_ok] in Hok.
      rewrite app_length, le_bytes_length.
      destruct (Nat.ltb_spec (n + length o) n); [lia|].
      replace (skipn n (le_bytes n z ++ o)) with o.
      2:{ rewrite skipn_app, le_bytes_length, Nat.sub_diag, skipn_all2; [reflexivity|rewrite le_bytes_length; lia]. }
      rewrite (IH Hp _ _ Hok E).
      replace (firstn n (le_bytes n z ++ o)) with (le_bytes n z).
      2:{ rewrite firstn_app, le_bytes_length, Nat.sub_diag, firstn_all2; [simpl; now rewrite app_nil_r|rewrite le_bytes_length; lia]. }
      now rewrite decode_encode_int.
    + destruct (pack tl vs) as [o|] eqn:E; try discriminate.
      simpl in H. inversion H; subst. cbn [unpack isize]. cbn [vals_ok] in Hok.
      simpl. now rewrite (IH Hp _ _ Hok E).
    + destruct vs as [|[z|l] vs']; try discriminate.
      destruct (pack tl vs') as [o|] eqn:E; try discriminate.
      simpl in H. inversion H; subst. cbn [unpack isize]. cbn [vals_ok] in Hok.
      destruct Hok as (Hl & Hb & Hok).
      assert (F : fit_str n l = l).
      { unfold fit_str. rewrite firstn_app, <- Hl, Nat.sub_diag, firstn_all. simpl. now rewrite app_nil_r. }
      rewrite F, app_length, Hl.
      destruct (Nat.ltb_spec (n + length o) n); [lia|].
      replace (skipn n (l ++ o)) with o.
      2:{ rewrite skipn_app, Hl, Nat.sub_diag, skipn_all2; [reflexivity|lia]. }
      rewrite (IH Hp _ _ Hok E).
      replace (firstn n (l ++ o)) with l.
      2:{ rewrite firstn_app, Hl, Nat.sub_diag, firstn_all2; [simpl; now rewrite app_nil_r|lia]. }
      reflexivity.
Qed.

Lemma unpack_length f : forall b vs, unpack f b = Some vs -> length b = calcsize f.
Proof.
  induction f as [|it tl IH]; intros b vs H.
  - destruct b; simpl in *; [reflexivity|discriminate].
  - cbn [unpack] in H. destruct (Nat.ltb_spec (length b) (isize it)); [discriminate|].
    destruct (unpack tl (skipn (isize it) b)) as [vs'|] eqn:E; [|discriminate].
    apply IH in E. rewrite skipn_length in E. cbn [calcsize]. lia.
Qed.

Lemma unpack_total f : forall b, length b = calcsize f -> exists vs, unpack f b = Some vs.
Proof.
  induction f as [|it tl IH]; intros b H.
  - destruct b; simpl in *; [eauto|discriminate].
  - cbn [unpack calcsize] in *. destruct (Nat.ltb_spec (length b) (isize it)); [lia|].
    destruct (IH (skipn (isize it) b)) as [vs E]; [rewrite skipn_length; lia|].
    rewrite E. eauto.
Qed.
