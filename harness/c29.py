"""C29: device variables of a process-based sync group: written in the controlling
process, read in a spawned child process (which unpickles the real
ProcessSyncGroup) and vice versa."""
import struct

from .common import Check, Err, clist, cz
from . import exprs

FB = 100000
class _Sizes(dict):
    """bytes a variable occupies: what struct (native mode, as the accessors use it) packs for its format"""
    def __missing__(self, f):
        return 8 if f == "x" else struct.calcsize(f)


SZ = _Sizes()
ALIAS = {"l": "q", "L": "Q", "n": "q", "N": "Q"}


def rand_val(rng, f):
    if f == "x":
        return rng.choice([0.29, 1.5, -2.75, 123.456, 0.00001, 0.57])
    if f == "f":
        return rng.choice([0.0, 1.5, -0.25, 1024.0, -3.0 * 2 ** 30, 2.0 ** -20])        # exactly representable in 32 bits
    if f == "d":
        return rng.choice([0.0, 0.1, -2.75, 1e300, 5e-324, 123.456])
    if f == "?":
        return rng.random() < 0.5
    if len(f) > 1:
        import re
        vals = []
        for cnt, ch in re.findall(r"(\d*)([A-Za-z?])", f):
            if ch == "s":
                vals.append(bytes(rng.randrange(1, 256) for _ in range(int(cnt or 1))))
            else:
                vals += [rand_val(rng, ch) for _ in range(int(cnt or 1))]
        return tuple(vals) if len(vals) > 1 else vals[0]
    return exprs.rand_value(rng, ALIAS.get(f, f))


class C29(Check):
    pid = "C29"
    props_file = "Props/C29.v"
    corr_imports = ["Gen.Layout", "Corr.C04", "Corr.C08"]
    technique = ("Coq theorems of C08 (one slot per variable, slots pairwise disjoint, value round trip) applied to the shared array + the REAL ProcessSyncGroup "
                 "with real Device / DeviceVar classes: values written in the parent, read in a spawned child process that unpickles the group, and back")
    trusted = ["multiprocessing shared ctypes arrays (the same bytes in both processes)", "harness/c29_devs.py (device classes, child script runner)"]
    assumptions = ["parent and child access the variables in turns (the check joins the child before reading back)"]
    known_classes = {}

    def make_case(self, rng):
        from . import c29_devs
        devs = [rng.choice("ABCDEE") for _ in range(rng.randint(1, 4))]
        case = {"devs": devs, "parent": [], "child": []}
        for i, d in enumerate(devs):
            for n, f in c29_devs.variables(c29_devs.CLASSES[d]):
                r = rng.random()
                if r < 0.4:
                    case["parent"].append([i, n, rand_val(rng, f)])
                elif r < 0.8:
                    case["child"].append([i, n, rand_val(rng, f)])
                elif r < 0.95:
                    # written by both: first in the parent, then in the child, then in the parent again (same value as the first time)
                    case["parent"].append([i, n, rand_val(rng, f)])
                    case["child"].append([i, n, rand_val(rng, f)])
        if rng.random() < 0.5:
            # variables assigned BEFORE the device joins the group (then plain Python attributes): whatever that leaves behind in the
            # device object must not reach the layout of the shared storage
            for i, d in enumerate(devs):
                for n, f in c29_devs.variables(c29_devs.CLASSES[d]):
                    if f in ("B", "H", "I", "Q", "b", "h", "i", "q", "l", "L", "N") and rng.random() < 0.4:
                        case.setdefault("preset", []).append([i, n, rng.choice([1, 2, 3, 8, 9, 16, 17, 24, 40])])
        return case

    def gen_cases(self):
        return [self.make_case(self.rng) for _ in range(10 if self.tier == "quick" else 60)]

    def corpus(self):
        return [{"devs": ["E", "E", "A"], "parent": [[0, "e_3B", (1, 2, 3)], [1, "e_3B", (4, 5, 6)], [0, "e_5s", b"hello"], [1, "e_3H", (7, 8, 9)]],
                 "child": [[0, "e_3H", (65535, 1, 2)], [1, "e_5s", b"world"], [2, "a_B", 9]]},
                {"devs": ["D", "B"], "parent": [[0, "d_l", -888], [0, "d_L", 2 ** 63 + 5], [0, "d_Bq", (200, -7)], [1, "b_I", 12345]],
                 "child": [[0, "d_l", 777], [0, "d_h", -2], [0, "d_f", 1.5], [0, "d_I", 4000000000], [0, "d_b", -3], [1, "b_Q", 2 ** 64 - 1]]},
                {"devs": ["A", "C", "A"], "parent": [[0, "a_q", -5], [1, "a_H", 2 ** 40], [2, "a_x", 0.29]], "child": [[0, "a_B", 200], [1, "c_I", 7], [2, "a_q", 11]]}]

    def run_impl(self, case):
        from . import c29_devs
        from ebpfcat.ebpfcat import ProcessSyncGroup
        import multiprocessing
        try:
            devs = [c29_devs.CLASSES[d]() for d in case["devs"]]
            for i, n, v in case.get("preset", []):
                setattr(devs[i], n, v)
            sg = ProcessSyncGroup(c29_devs.DummyEC(), devs)
            # a SECOND group of the same make is alive in this process (constructed before any variable is touched); it gets other
            # values for the same variables right after the first group's: the two must not share storage
            devs_b = [c29_devs.CLASSES[d]() for d in case["devs"]] if len(case["devs"]) % 2 else None
            sg_b = ProcessSyncGroup(c29_devs.DummyEC(), devs_b) if devs_b else None
        except Exception as e:      # noqa
            return Err(6, f"constructing the ProcessSyncGroup raised {type(e).__name__}: {e}")
        allv = [(i, n, f) for i, d in enumerate(case["devs"]) for n, f in c29_devs.variables(c29_devs.CLASSES[d])]
        try:
            for i, n, v in case["parent"]:
                setattr(devs[i], n, v)
        except Exception as e:      # noqa
            return Err(5, f"writing a device variable in the parent raised {type(e).__name__}: {e}")
        other = None
        if sg_b is not None:
            fm = {(j, nm): f_ for j, nm, f_ in allv}
            other = []
            try:
                for i, n, v in case["parent"]:
                    f_ = fm[(i, n)]
                    v2 = (not v) if isinstance(v, bool) else (v ^ 1) if isinstance(v, int) and f_ in ("B", "H", "I", "Q") else v
                    setattr(devs_b[i], n, v2)
                    other.append([i, n, v2])
            except Exception as e:      # noqa
                return Err(5, f"writing a device variable of the second group raised {type(e).__name__}: {e}")
        # writes that struct refuses (a value outside the format) must leave the shared storage as it is
        refused = 0
        for i, n, v in case["parent"]:
            f = dict((nm, fm) for j, nm, fm in allv if j == i)[n]
            bad = None
            if f in ("B", "H", "I", "Q", "b", "h", "i", "q", "l", "L", "N"):
                bad = 1 << 70
            elif isinstance(v, tuple) and all(isinstance(y, int) for y in v):
                bad = tuple(v[:-1]) + (1 << 70,)
            if bad is None or (i + len(n)) % 2:
                continue
            try:
                setattr(devs[i], n, bad)
                return Err(5, f"the out-of-range value {bad} was accepted for {n}:{f}")
            except (struct.error, OverflowError):
                refused += 1
        layout = {}
        for i, n, f in allv:
            layout[f"{i}.{n}"] = devs[i].__dict__.get(n)
        script = [("r", i, n) for i, n, f in allv] + [("w", i, n, v) for i, n, v in case["child"]] + [("r", i, n) for i, n, f in allv]
        ctx = multiprocessing.get_context("spawn")
        pc, cc = ctx.Pipe()
        p = ctx.Process(target=c29_devs.child, args=(sg, script, cc))
        p.start()
        cc.close()
        res = pc.recv() if pc.poll(300) else ("error", "no answer from the child process")
        p.join(60)
        if p.is_alive():
            p.kill()
        if res[0] != "ok":
            return Err(5, f"child process: {res[1]}")
        n = len(allv)
        try:
            back = [getattr(devs[i], nm) for i, nm, f in allv]
        except Exception as e:      # noqa
            return Err(5, f"reading a device variable in the parent raised {type(e).__name__}: {e}")
        # ---- third phase: the parent assigns the values of its first phase AGAIN (the child has overwritten some of them in
        # between); a second spawned child and the parent read everything
        try:
            for i, nm, v in case["parent"]:
                setattr(devs[i], nm, v)
        except Exception as e:      # noqa
            return Err(5, f"writing a device variable in the parent (again) raised {type(e).__name__}: {e}")
        pc, cc = ctx.Pipe()
        p = ctx.Process(target=c29_devs.child, args=(sg, [("r", i, nm) for i, nm, f in allv], cc))
        p.start()
        cc.close()
        res3 = pc.recv() if pc.poll(300) else ("error", "no answer from the second child process")
        p.join(60)
        if p.is_alive():
            p.kill()
        if res3[0] != "ok":
            return Err(5, f"second child process: {res3[1]}")
        try:
            back3 = [getattr(devs[i], nm) for i, nm, f in allv]
        except Exception as e:      # noqa
            return Err(5, f"reading a device variable in the parent raised {type(e).__name__}: {e}")
        if other is not None:
            for i, nm, v2 in other:
                got = getattr(devs_b[i], nm)
                if got != v2 and not (isinstance(v2, float) and abs(got - v2) < 1e-4):
                    return Err(5, f"the second group's variable {i}.{nm} reads {got!r}, it was assigned {v2!r} (two ProcessSyncGroups of the same make alive in one process)")
        o = {"child_first": res[1][:n], "child_second": res[1][n:], "parent_back": back, "child_third": res3[1], "parent_third": back3, "layout": layout,
             "size": len(sg.properties), "wkc_pos": sg.__dict__.get("wkc_errors")}
        case["_o"] = o
        return o

    # ---- layout tie: the shared array is laid out by ArrayMap.collect (C08's model)
    def model_term(self, case):
        from . import c29_devs
        if case.get("_o") is None:
            return None
        names = {}

        def nid(n):
            return names.setdefault(n, len(names))
        progs = [f"[({cz(nid('wkc_errors'))}, 4)]"]
        for d in case["devs"]:
            cls = c29_devs.CLASSES[d]
            ent = []
            for c in cls.__mro__:
                for k, v in c.__dict__.items():
                    if isinstance(v, c29_devs.DeviceVar):
                        ent.append(f"({cz(nid(k))}, {cz(SZ[v.fmt])})")
            progs.append(clist(ent))
        return f"(collect_mro {clist(progs)})"

    def model_value(self, case, o):
        from . import c29_devs
        pos = []
        for i, d in enumerate(case["devs"]):
            for n, f in c29_devs.variables(c29_devs.CLASSES[d]):
                pos.append(o["layout"][f"{i}.{n}"])
        return [[o["wkc_pos"]] + pos, o["size"]]

    def holds(self, case, o):
        if isinstance(o, Err):
            return f"{o.what}; {self.describe(case)}"
        from . import c29_devs
        allv = [(i, n, f) for i, d in enumerate(case["devs"]) for n, f in c29_devs.variables(c29_devs.CLASSES[d])]
        exp = {(i, n): 0 for i, n, f in allv}
        for i, n, v in case["parent"]:
            exp[i, n] = v

        def same(a, b, f):
            if isinstance(b, list):
                b = tuple(b)
            if isinstance(a, tuple) and isinstance(b, tuple):
                a, b = tuple(a), tuple(tuple(y) if isinstance(y, list) else y for y in b)
            if b == 0 and isinstance(a, tuple):
                b = tuple(0 for _ in a)             # never written: all members zero
            if b == 0 and isinstance(a, bytes):
                b = bytes(len(a))
            return abs(a - b) < 1e-9 if f == "x" else a == b
        for (i, n, f), got in zip(allv, o["child_first"]):
            if not same(got, exp[i, n], f):
                return f"the child process reads device {i} variable {n}:{f} = {got}, the parent wrote {exp[i, n]}; {self.describe(case)}"
        for i, n, v in case["child"]:
            exp[i, n] = v
        for name, vals in (("child", o["child_second"]), ("parent", o["parent_back"])):
            for (i, n, f), got in zip(allv, vals):
                if not same(got, exp[i, n], f):
                    return f"the {name} process reads device {i} variable {n}:{f} = {got}, expected {exp[i, n]}; {self.describe(case)}"
        for i, n, v in case["parent"]:
            exp[i, n] = v
        for name, vals in (("second child", o["child_third"]), ("parent", o["parent_third"])):
            for (i, n, f), got in zip(allv, vals):
                if not same(got, exp[i, n], f):
                    return (f"after the parent assigned its values again (the child had written others in between), the {name} process reads device {i} "
                            f"variable {n}:{f} = {got}, expected {exp[i, n]}; {self.describe(case)}")
        # different variables never share storage
        rng_ = sorted((o["layout"][f"{i}.{n}"], o["layout"][f"{i}.{n}"] + SZ[f], f"{i}.{n}") for i, n, f in allv)
        for (a0, a1, na), (b0, b1, nb) in zip(rng_, rng_[1:]):
            if b0 < a1:
                return f"device variables {na} and {nb} share storage ({a0}..{a1} / {b0}..{b1})"
        return True

    def nontrivial(self, case, o):
        return not isinstance(o, Err)

    def rule(self):
        return ("1-3 device instances out of four classes (formats B H I Q b h i q x l L N f d ? the padded multi-member formats Bq and HHI and formats of odd sizes 3B 3H 5s =HB, one class derived from another and redefining a variable with a larger "
                "format); 40% of the variables written in the parent, 40% in a spawned child process that received the pickled ProcessSyncGroup; the child "
                "reads everything before and after its writes, the parent reads everything back; 15% of the variables are written on both sides; half of the parent's variables also get a write that struct refuses, which must change nothing; finally "
                "the parent assigns its first values again and a second spawned child and the parent read everything; in half of the cases 40% of the integer variables were assigned small values BEFORE the device joined the group")

    def distribution(self, cases, observed):
        return {"cases": len(cases), "devices": sum(len(c["devs"]) for c in cases), "errors": sum(isinstance(o, Err) for o in observed)}

    def describe(self, case):
        def enc(x):
            if isinstance(x, (bytes, bytearray)):
                return {"__bytes__": bytes(x).hex()}
            if isinstance(x, (list, tuple)):
                return [enc(y) for y in x]
            return x
        return {k: enc(v) for k, v in case.items() if not k.startswith("_")}

    def case_from_json(self, w):
        def dec(x):
            if isinstance(x, dict) and "__bytes__" in x:
                return bytes.fromhex(x["__bytes__"])
            if isinstance(x, list):
                return [dec(y) for y in x]
            return x
        return {k: dec(v) for k, v in w.items()}


CHECK = C29
