From Verif Require Import Ecat.Frame_proofs Ecat.SendLoop.

Fixpoint fsum (f : list rq) : Z := match f with [] => 0 | r :: tl => zlen (q_data r) + 12 + fsum tl end.
Lemma fsum_app a b : fsum (a ++ b) = fsum a + fsum b.
Proof. induction a as [|x a IH]; cbn [app fsum]; [lia|]. rewrite IH. lia. Qed.
Lemma fsum_nonneg f : 0 <= fsum f.
Proof. induction f as [|x c IHc]; cbn [fsum]; [lia|]. pose proof (zlen_nonneg (q_data x)). lia. Qed.

Definition frame_ok (f : list rq) : Prop :=
  f <> [] /\ 16 + fsum f <= Packet_MAXSIZE /\ (length f <= 15)%nat.

Lemma fits_spec size cnt n : fits size cnt n = true <-> (size + n + 12 <= Packet_MAXSIZE /\ (cnt <= 14)%nat).
Proof. unfold fits, Packet_DATAGRAM_HEADER, Packet_DATAGRAM_TAIL, Packet_append_maxcount. lia. Qed.

(* the invariant of the packing loop *)
Lemma pack_spec : forall rs cur size fs bad,
  size = 16 + fsum cur -> (cur = [] \/ frame_ok cur) ->
  pack rs cur size = (fs, bad) ->
  concat fs = cur ++ filter fits_alone rs /\ bad = filter (fun r => negb (fits_alone r)) rs /\
  Forall frame_ok fs.
Proof.
  induction rs as [|r tl IH]; intros cur size fs bad Hs Hc H; cbn [pack] in H.
  - destruct cur as [|c cur']; inversion H; subst; cbn [concat filter app].
    + split; [reflexivity|split; [reflexivity|constructor]].
    + rewrite !app_nil_r. split; [reflexivity|split; [reflexivity|]].
      constructor; [|constructor]. destruct Hc as [Hc|Hc]; [discriminate|exact Hc].
  - cbn [filter].
    assert (Alone : fits_alone r = true <-> 16 + (zlen (q_data r) + 12) <= Packet_MAXSIZE).
    { unfold fits_alone. rewrite fits_spec. unfold Packet_PACKET_HEADER. split; intros; [lia|split; lia]. }
    destruct (fits size (length cur) (zlen (q_data r))) eqn:F.
    + (* appended to the current packet *)
      apply fits_spec in F. destruct F as [F1 F2].
      assert (Ok' : frame_ok (cur ++ [r])).
      { unfold frame_ok. rewrite fsum_app, app_length. cbn [fsum length].
        split; [destruct cur; discriminate|]. split; lia. }
      assert (Al : fits_alone r = true).
      { apply Alone. pose proof (zlen_nonneg (q_data r)).
        assert (0 <= fsum cur). { clear. induction cur as [|x c IHc]; cbn [fsum]; [lia|]. fold (fsum c). pose proof (zlen_nonneg (q_data x)). lia. }
        lia. }
      rewrite Al. cbn [negb].
      destruct tl as [|r2 tl2].
      * inversion H; subst. cbn [concat filter]. rewrite !app_nil_r. split; [reflexivity|split; [reflexivity|]].
        constructor; [exact Ok'|constructor].
      * apply IH in H; [|rewrite fsum_app; cbn [fsum]; unfold Packet_DATAGRAM_HEADER, Packet_DATAGRAM_TAIL; lia|right; exact Ok'].
        destruct H as (C & B & Fo). rewrite C, <- app_assoc. split; [reflexivity|split; assumption].
    + destruct cur as [|c cur'].
      * (* does not even fit into an empty packet: fails *)
        assert (Al : fits_alone r = false).
        { destruct (fits_alone r) eqn:E0; [|reflexivity]. pose proof (proj1 Alone eq_refl) as E.
          assert (fits size 0 (zlen (q_data r)) = true); [|cbn [length] in F; congruence].
          apply fits_spec. cbn [fsum] in Hs. lia. }
        rewrite Al. cbn [negb].
        destruct (pack tl [] Packet_PACKET_HEADER) as [fs1 bad1] eqn:P. inversion H; subst.
        apply IH in P; [|reflexivity|left; reflexivity]. destruct P as (C & B & Fo).
        cbn [app] in *. split; [exact C|split; [now rewrite B|exact Fo]].
      * (* flush the current packet and retry on a fresh one *)
        assert (Okc : frame_ok (c :: cur')) by (destruct Hc as [Hc|Hc]; [discriminate|exact Hc]).
        destruct (fits_alone r) eqn:Al; cbn [negb].
        -- assert (Okr : frame_ok [r]).
           { unfold frame_ok. cbn [fsum length]. pose proof (proj1 Alone eq_refl) as Al'. split; [discriminate|]. split; lia. }
           destruct tl as [|r2 tl2].
           ++ inversion H; subst. cbn [concat filter app]. rewrite ?app_nil_r. split; [reflexivity|split; [reflexivity|]].
              constructor; [exact Okc|constructor; [exact Okr|constructor]].
           ++ destruct (pack (r2 :: tl2) [r] _) as [fs1 bad1] eqn:P. inversion H; subst.
              apply IH in P; [|cbn [fsum]; unfold Packet_PACKET_HEADER, Packet_DATAGRAM_HEADER, Packet_DATAGRAM_TAIL; lia|right; exact Okr].
              destruct P as (C & B & Fo). cbn [concat]. rewrite C. cbn [app].
              split; [reflexivity|split; [exact B|constructor; assumption]].
        -- destruct (pack tl [] Packet_PACKET_HEADER) as [fs1 bad1] eqn:P. inversion H; subst.
           apply IH in P; [|reflexivity|left; reflexivity]. destruct P as (C & B & Fo).
           cbn [concat]. rewrite C. cbn [app]. split; [reflexivity|split; [now rewrite B|constructor; assumption]].
Qed.

(* every request is sent exactly once, in submission order, unless it can never
   fit into a frame, in which case it fails; every frame fits *)
Theorem sendloop_batch rs fs bad : pack rs [] Packet_PACKET_HEADER = (fs, bad) ->
  concat fs = filter fits_alone rs /\ bad = filter (fun r => negb (fits_alone r)) rs /\ Forall frame_ok fs.
Proof.
  intros H. apply pack_spec in H; [exact H|reflexivity|left; reflexivity].
Qed.

(* a frame that satisfies frame_ok is accepted datagram by datagram by Packet.append *)
Definition dg_of (r : rq) : dgram := {| d_cmd := 0; d_data := q_data r; d_wkc := 0; d_idx := 0; d_addr := [0; 0] |}.

Lemma frame_ok_appends f : forall p, p_size p = 16 + fsum (map (fun d => {| q_id := 0; q_data := d_data d |}) (p_data p)) ->
  16 + fsum (map (fun d => {| q_id := 0; q_data := d_data d |}) (p_data p)) + fsum f <= Packet_MAXSIZE ->
  (length (p_data p) + length f <= 15)%nat ->
  appends p (map dg_of f) <> None.
Proof.
  induction f as [|r f IH]; intros p Hs Hm Hl; cbn [map appends]; [discriminate|].
  unfold append. cbn [dg_of d_data]. cbn [fsum] in Hm.
  pose proof (zlen_nonneg (q_data r)).
  assert (0 <= fsum f). { clear. induction f as [|x c IHc]; cbn [fsum]; [lia|]. fold (fsum c). pose proof (zlen_nonneg (q_data x)). lia. }
  unfold Packet_DATAGRAM_HEADER, Packet_DATAGRAM_TAIL, Packet_append_maxcount.
  destruct (Z.gtb_spec (p_size p + zlen (q_data r) + 10 + 2) Packet_MAXSIZE); [lia|].
  destruct (Z.gtb_spec (zlen (p_data p)) 14); [unfold zlen in *; cbn [length] in Hl; lia|].
  set (p' := {| p_data := _; p_size := _ |}).
  specialize (IH p'). destruct (appends p' (map dg_of f)) as [[p2 l]|]; [discriminate|].
  exfalso. apply IH; subst p'; cbn [p_data p_size].
  - rewrite map_app, fsum_app. cbn [map fsum d_data q_data dg_of]. lia.
  - rewrite map_app, fsum_app. cbn [map fsum d_data q_data dg_of]. lia.
  - rewrite app_length. cbn [length] in *. lia.
  - reflexivity.
Qed.

(* ---- completion ---- *)
Theorem process_independent data : forall ds,
  Forall (fun d => snd (fst d) + 2 <= zlen data) ds -> process data ds = map (complete data) ds.
Proof.
  induction ds as [|[[start stop] f] tl IH]; intros H; [reflexivity|].
  inversion H as [|? ? Hd Htl]; subst. cbn [process map]. cbn [fst snd] in Hd.
  destruct (Z.ltb_spec (zlen data) (stop + 2)); [lia|]. now rewrite IH.
Qed.

(* a request is completed at most once: a future that is already done is never touched *)
Theorem done_untouched data ds : Forall2 (fun d o => snd d = FDone -> o = OUntouched) ds (process data ds).
Proof.
  induction ds as [|[[start stop] f] tl IH]; cbn [process]; [constructor|].
  destruct (zlen data <? stop + 2).
  - clear IH. cbn [map]. constructor; [cbn; intros ->; reflexivity|].
    induction tl as [|[[a b] g] tl IHt]; cbn [map]; constructor; [cbn; intros ->; reflexivity|exact IHt].
  - constructor; [|exact IH]. cbn. intros ->. reflexivity.
Qed.

(* the result is the response bytes at the request's own position, the error
   is raised exactly for a zero working counter *)
Theorem complete_own data start stop :
  complete data (start, stop, FPending) =
    if wkc_at data stop =? 0 then OError else OResult (ztake (stop - start) (zdrop start data)).
Proof. reflexivity. Qed.
