(* Conditions of with-blocks (ebpfcat/ebpf.py: SimpleComparison, AndComparison,
   AndOrComparison, InvertComparison, Comparison.__enter__/Else).
   Part 1: the width at which a comparison atom is evaluated.
   Part 2: where the jumps of a combined condition land. *)
From Verif Require Export Gen.Denote.

Inductive cmpop := CEq | CNe | CLt | CLe | CGt | CGe.

Definition cmp_exact (op : cmpop) (x y : Z) : bool :=
  match op with
  | CEq => x =? y | CNe => negb (x =? y) | CLt => x <? y | CLe => x <=? y | CGt => y <? x | CGe => y <=? x
  end.

(* SimpleComparison.compare: returns the truth value the emitted jump tests.
   a: left operand, evaluated with no requested width; b: right operand,
   evaluated at 64 bits when the left one is long (else no request); a small
   constant on the right is an immediate. *)
Definition cmp_impl (op : cmpop) (a b : expr) : bool :=
  let '(va, la) := impl a None in
  let sg := esigned a || esigned b in
  let '(vb, rb) :=
    match small_constant b with
    | Some imm => (imm mod W64, false)
    | None => impl b (if la then Some true else None)
    end in
  if sg then
    if negb la && negb rb then cmp_exact op (sx32 va) (sx32 vb)                      (* JMP32 *)
    else if negb la then cmp_exact op (sx64 (alu_at 12 true (alu_at 6 true va 32) 32)) (sx64 vb)   (* left re-extended *)
    else cmp_exact op (sx64 va) (sx64 vb)
  else cmp_exact op va vb.

(* AndComparison: `(a & b) != 0` is a single JSET; evaluated like a comparison *)
Definition jset_impl (a b : expr) : bool :=
  let '(va, la) := impl a None in
  let sg := esigned a || esigned b in
  let '(vb, rb) :=
    match small_constant b with
    | Some imm => (imm mod W64, false)
    | None => impl b (if la then Some true else None)
    end in
  if sg then
    if negb la && negb rb then negb (Z.land (va mod W32) (vb mod W32) =? 0)
    else if negb la then negb (Z.land (alu_at 12 true (alu_at 6 true va 32) 32) vb =? 0)
    else negb (Z.land va vb =? 0)
  else negb (Z.land va vb =? 0).

(* ---------------- combination of conditions ---------------- *)
Inductive cond :=
| CAtom (t : bool)                    (* an atom with its truth value *)
| CAnd (a b : cond) | COr (a b : cond) | CNot (a : cond).

Fixpoint ctruth (c : cond) : bool :=
  match c with
  | CAtom t => t
  | CAnd a b => ctruth a && ctruth b
  | COr a b => ctruth a || ctruth b
  | CNot a => negb (ctruth a)
  end.

(* Where control goes after the code emitted by c.compare(negative):
   true = it jumped to the place fixed later by c.target(), false = it fell
   through.  For AndOrComparison the left part's jumps land either right
   behind the right part's code (`if self.is_and != negative: self.left.target()`)
   - which is falling through - or at the common target. *)
Fixpoint jumps (c : cond) (negative : bool) : bool :=
  match c with
  | CAtom t => if negative then negb t else t
  | CAnd a b =>
      if jumps a true                      (* left.compare(is_and = True) *)
      then (if Bool.eqb true negative then true else false)
      else jumps b negative
  | COr a b =>
      if jumps a false                     (* left.compare(is_and = False) *)
      then (if Bool.eqb false negative then true else false)
      else jumps b negative
  | CNot a => jumps a (negb negative)
  end.

(* `with cond [as Else]`: Comparison.__enter__ calls compare(True); the body is
   entered by falling through, the Else part (or the end) by the jump *)
Definition runs_body (c : cond) : bool := negb (jumps c true).
Definition runs_else (c : cond) : bool := jumps c true.
