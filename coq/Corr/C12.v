From Verif Require Import Lib.Base Ecat.Frame Ecat.SendLoop.

Definition v_out (o : outcome) : V :=
  match o with
  | OUntouched => VL [VZ 0]
  | OResult l => VL [VZ 1; VR l]
  | OError => VL [VZ 2]
  | OExc => VL [VZ 3]
  end.

Definition dg_req (r : rq) : dgram :=
  {| d_cmd := 4; d_data := q_data r; d_wkc := 0; d_idx := 0; d_addr := [q_id r; 16] |}.

Definition expand (l : list (Z * nat)) : list Z := flat_map (fun p => repeat (fst p) (snd p)) l.

(* one frame: its requests, the state of their futures when the response is
   processed, and the response (None = the frame never came back) *)
Definition frame_outcomes (f : list rq) (sts : list fstate) (resp : option (list (Z * nat))) : V :=
  match appends empty_packet (map dg_req f) with
  | None => VErr 3
  | Some (_, poss) =>
      match resp with
      | None => VL (map (fun s => match s with FDone => VL [VZ 0] | FPending => VL [VZ 4] end) sts)
      | Some r =>
          VL (map v_out (process (expand r)
                           (map (fun x => (fst (fst x), snd (fst x), snd x)) (combine poss sts))))
      end
  end.

(* rounds: what the queue holds each time sendloop runs *)
Definition run_round (rs : list rq) : V :=
  let '(fs, bad) := pack rs [] Packet_PACKET_HEADER in
  VL [VL (map (fun f => VL (map (fun r => VZ (q_id r)) f)) fs); VL (map (fun r => VZ (q_id r)) bad)].
