"""C14: Terminal.to_operational against Ecat/StateMachine.v"""
import asyncio
import itertools

from .common import Check, Err, cz, czlist

VALID = {1, 2, 3, 4, 8}
PATH = [2, 4, 8]


class OutOfReplies(BaseException):
    pass


class C14(Check):
    pid = "C14"
    props_file = "Props/C14.v"
    corr_imports = ["Ecat.StateMachine", "Corr.C14"]
    technique = "Coq proof (induction over an arbitrary stream of AL-status replies; MachineState order regenerated from source) + differential correspondence with Terminal.to_operational"
    trusted = ["ec.roundtrip is replaced by a scripted terminal answering reads of 0x130 from the reply stream and recording writes of 0x120"]
    assumptions = ["start state is a valid state other than BOOTSTRAP; target is PRE-OP, SAFE-OP or OP"]

    # case: {"target": 2|4|8, "replies": [status words]}
    def corpus(self):
        return [
            {"target": 8, "replies": [0x14, 1, 2, 2, 4, 1, 8]},
            {"target": 8, "replies": [0x14, 1, 2, 2, 4, 1, 8], "codes": [0] * 7},      # error flag with a status code of 0
            {"target": 4, "replies": [1, 2, 0x12, 4], "codes": [0] * 4},
            {"target": 2, "replies": [1, 0x12]},          # requested state reported together with the error bit
            {"target": 4, "replies": [8]},
            {"target": 8, "replies": [1, 2, 0x14]},
            {"target": 8, "replies": [1, 2, 4, 4]},
            {"target": 8, "replies": [1, 1, 1]},
            {"target": 4, "replies": [2, 5]},
            {"target": 8, "replies": [3]},
        ]

    def behaviour(self, rng, target):
        """a plausible terminal: start state, optional error, each transition after 0..k polls, error at a random poll"""
        start = rng.choice([1, 1, 2, 4, 8])
        err0 = rng.random() < 0.3
        replies = [start | (0x10 if err0 else 0)]
        st = 1 if err0 else start
        errpoll = rng.randrange(0, 14) if rng.random() < 0.35 else None
        n = 0
        for nxt in PATH:
            if nxt <= st or st >= target:
                continue
            for _ in range(rng.randint(0, 3)):
                replies.append(st | (0x10 if n == errpoll else 0) | rng.choice([0, 0x20, 0x40]))
                n += 1
            replies.append(nxt | (0x10 if n == errpoll else 0))
            n += 1
            st = nxt
        if rng.random() < 0.3:
            replies = replies[:rng.randint(1, len(replies))]
        return replies

    def gen_cases(self):
        rng = self.rng
        out = []
        for _ in range(500 if self.tier == "quick" else 5000):
            target = rng.choice([2, 4, 8])
            if rng.random() < 0.75:
                rs = self.behaviour(rng, target)
            else:  # unstructured stream incl. invalid states, skipped states, regressions
                rs = [rng.choice([1, 2, 4, 8, 1, 2, 4, 8, 3, 0x11, 0x12, 0x14, 0x18, 0, 5, 0x21])
                      for _ in range(rng.randint(1, 10))]
            # the AL status code register read along with every status: often 0 (terminals that never fill it in)
            out.append({"target": target, "replies": rs, "codes": [rng.choice([0, 0, 0x1e, 0x55, 0x8000]) for _ in rs]})
            if len(out) % 3 == 0:
                # the same Terminal object had been brought to this target before (by a conformant terminal); since then the
                # terminal has changed state on its own - the second call must look again
                out[-1]["prior"] = True
        if self.tier == "thorough":
            for target in (2, 4, 8):
                for L in range(1, 6):
                    for rs in itertools.product([1, 2, 4, 8, 0x12, 0x14], repeat=L):
                        out.append({"target": target, "replies": list(rs)})
        return out

    def run_impl(self, case):
        from ebpfcat.ethercat import Terminal, MachineState, EtherCatError, ECCmd
        import struct
        trace = []
        replies = list(case["replies"])
        codes = list(case.get("codes") or [0x55] * len(replies))
        prior = {"on": False, "state": 1}

        class FakeEc:
            async def roundtrip(self, cmd, pos, offset, *args, data=None, idx=0):
                await asyncio.sleep(0)
                if prior["on"]:
                    if cmd is ECCmd.FPRD and offset == 0x130:
                        return (prior["state"], 0)
                    if cmd is ECCmd.FPWR and offset == 0x120:
                        prior["state"] = args[1] & 15
                        return ()
                    raise AssertionError((cmd, offset))
                if cmd is ECCmd.FPRD and offset == 0x130:
                    if not replies:
                        raise OutOfReplies()
                    r = replies.pop(0)
                    trace.append([1, r])
                    return (r, codes.pop(0) if codes else 0)
                if cmd is ECCmd.FPWR and offset == 0x120:
                    trace.append([0, args[1]])
                    return ()
                raise AssertionError((cmd, offset))

        async def go():
            t = Terminal(FakeEc())
            t.position = 1234
            if case.get("prior"):
                prior["on"] = True
                await t.to_operational(MachineState(case["target"]))
                prior["on"] = False
            try:
                if case["target"] == 8 and len(case["replies"]) % 2 == 0:
                    ret = await t.to_operational()          # the documented default: all the way to OPERATIONAL
                else:
                    ret = await t.to_operational(MachineState(case["target"]))
            except EtherCatError:
                return 2
            except ValueError:
                return 4
            except OutOfReplies:
                return 3
            return 0 if ret is not None else 1
        # a slow terminal: every poll of the AL status takes 4 s of (monotonic) time - whatever clock the code under test may consult
        import time as _time
        import ebpfcat.ethercat as ethercat
        clock = [1000.0]

        def fake_monotonic():
            clock[0] += 0.0001
            return clock[0] + 4.0 * len(trace)
        saved = {}
        if hasattr(ethercat, "monotonic"):
            saved["monotonic"] = ethercat.monotonic
            ethercat.monotonic = fake_monotonic
        if hasattr(ethercat, "time"):
            saved["time"] = ethercat.time
            ethercat.time = type("FakeTime", (), {"monotonic": staticmethod(fake_monotonic), "time": staticmethod(fake_monotonic),
                                                  "__getattr__": lambda self, n: getattr(_time, n)})()
        try:
            out = asyncio.run(go())
        finally:
            for k, v in saved.items():
                setattr(ethercat, k, v)
        return [trace, out]

    def model_term(self, case):
        return f"(run {cz(case['target'])} {czlist(case['replies'])})"

    def holds(self, case, o):
        if isinstance(o, Err):
            return f"harness: {o.what}"
        trace, out = o
        target = case["target"]
        r0 = case["replies"][0]
        if (r0 & 15) not in (1, 2, 4, 8):
            return True   # outside the quantifier (BOOTSTRAP / invalid start)
        if not trace or trace[0] != [1, r0]:
            return ("did not start by reading the state" + (" (second call on a Terminal object that had reached this target before: it returned "
                                                             "without looking at the terminal)" if case.get("prior") else ""))
        rest = trace[1:]
        start = r0 & 15
        if r0 & 0x10:
            if not rest or rest[0] != [0, 0x11]:
                return "reported error was not acknowledged first with INIT+ack (0x11)"
            rest = rest[1:]
            start = 1
        path = [s for s in PATH if start < s <= target]
        writes = [z for k, z in rest if k == 0]
        if writes != path[:len(writes)]:
            return f"requested {writes}, allowed walk from {start} to {target} is {path}"
        pending = None
        lastrep, err_seen = start, False
        for k, z in rest:
            if k == 0:
                if pending is not None:
                    return f"requested {z} before the terminal reported {pending}"
                pending = z
            else:
                if (z & 15) not in VALID:
                    continue
                lastrep = z & 15
                if z & 0x10:
                    err_seen = True
                    if [k, z] != rest[-1] or out not in (2,):
                        return f"terminal reported error word {z:#x} while changing state but the call did not raise there (outcome {out})"
                elif pending is not None and (z & 15) == pending:
                    pending = None
        if out == 0:
            if writes != path:
                return f"returned after requesting only {writes} of {path}"
            if err_seen:
                return "returned although an error was reported"
            want = target if start < target else start
            if lastrep != want or pending is not None:
                return f"returned with last reported state {lastrep}, pending request {pending}; expected to have seen {want}"
        if out == 2 and not err_seen:
            return "raised EtherCatError although no error was reported"
        if out == 1:
            return "fell off the loop (returned None)"
        return True

    def nontrivial(self, case, o):
        return not isinstance(o, Err) and sum(1 for k, z in o[0] if k == 0) >= 2

    def search_cases(self):
        out = []
        for target in (2, 4, 8):
            for L in range(1, 6):
                for rs in itertools.product([1, 2, 4, 8, 0x11, 0x12, 0x14, 0x18], repeat=L):
                    out.append({"target": target, "replies": list(rs)})
        return out

    def rule(self):
        return ("75% structured terminal behaviours (start state, optional initial error, 0-3 polls per transition, error at a random poll, truncated streams), "
                "25% unstructured status-word streams incl. invalid states and regressions; thorough adds all streams of length <= 5 over 6 words; "
                "half of the walks to OPERATIONAL through the default argument; every third case on a Terminal object that a conformant terminal had already followed to the same target (the terminal has changed state on its own since); "
                "non-trivial = at least two state requests written")

    def distribution(self, cases, observed):
        d = {"returned": 0, "raised": 0, "waiting": 0, "bad_reply": 0, "initial_error": 0}
        names = {0: "returned", 2: "raised", 3: "waiting", 4: "bad_reply"}
        for c, o in zip(cases, observed):
            if isinstance(o, Err):
                continue
            d[names.get(o[1], "returned")] += 1
            d["initial_error"] += bool(c["replies"][0] & 0x10)
        return d


CHECK = C14
