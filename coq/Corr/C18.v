From Verif Require Import Lib.Base Ecat.Frame Ecat.Alloc.

Definition v_slot (o : option (Z * option Z)) : V :=
  match o with
  | None => VNone
  | Some (p, None) => VL [VZ p; VNone]
  | Some (p, Some l) => VL [VZ p; VZ l]
  end.

Definition run (ts : list term) (logical : Z) (index ethertype : Z) : V :=
  match allocate ts logical with
  | None => VErr 3
  | Some r =>
      VL [VL (map (fun a => VL [v_slot (fst a); v_slot (snd a)]) (r_assign r));
          VZ (p_size (sp (r_pk r)));
          VOpt VR (assemble (sp (r_pk r)) index ethertype);
          VOpt VR (sterile (r_pk r) index ethertype)]
  end.
