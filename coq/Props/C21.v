(* C21 Fast-group frames only write outputs computed in the same pass.
   Model (Ecat/Dispatch.v): `sterile` / `activate` - SterilePacket.sterile (user
   space) and SterilePacket.activate (the group's program): the command bytes of
   the write datagrams; `dispatch` - what the dispatcher writes; `gstep` - the
   histories of the frames of one group (index, write datagrams enabled).
   Validated on every run: the REAL sterile() and the REAL generated
   FastSyncGroup program against `sterile` / `activate`, the REAL dispatcher
   bytecode against `dispatch` (C22's check). *)
From Verif Require Import Ecat.Dispatch Ecat.Dispatch_proofs Ecat.UserLoop Ecat.UserLoop_proofs.

(* output disabled (wkc_errors = 0): the program leaves the frame as it is *)
Theorem C21_disabled_untouched : forall l f, activate l f 0 = (f, 0).
Proof. exact activate_disabled. Qed.

(* the program re-enables exactly the write datagrams: the command byte is written back, the working counter cleared, one
   error counted iff the counter differed from the expected value *)
Theorem C21_activate_one : forall start wkc cmd expected f errors, errors <> 0 ->
  (start + 14 < length f)%nat -> (wkc + 15 < length f)%nat -> (start + 14 <> wkc + 14)%nat -> (start + 14 <> wkc + 15)%nat ->
  let '(f', e') := activate [(start, wkc, cmd, expected)] f errors in
  byte_at f' (start + 14) = cmd mod 256 /\ byte_at f' (wkc + 14) = 0 /\ byte_at f' (wkc + 15) = 0 /\
  e' = if u16le f (wkc + 14) =? expected then errors else (errors + 1) mod 4294967296.
Proof. exact activate_one. Qed.
(* ... for ANY list of write datagrams: nothing but their command bytes and working counters changes, and at most one error
   per write datagram is counted *)
Theorem C21_activate_frame : forall l f errors j, ~ In j (touched l) ->
  byte_at (fst (activate_all l f errors)) j = byte_at f j /\ length (fst (activate_all l f errors)) = length f.
Proof. exact activate_frame. Qed.
Theorem C21_errors_bound : forall l f errors, 0 <= errors -> errors + zlen l < 4294967296 ->
  errors <= snd (activate_all l f errors) <= errors + zlen l.
Proof. exact activate_errors_bound. Qed.
Print Assumptions C21_activate_one.
Print Assumptions C21_activate_frame.

(* the dispatcher writes only the frame index and the ethertype: it never enables a datagram *)
Theorem C21_dispatcher_enables_nothing : forall reg f m j, j <> INDEX0 -> j <> ETHERTYPE_POS -> j <> S ETHERTYPE_POS ->
  byte_at (fst (fst (dispatch reg f m))) j = byte_at f j.
Proof. exact dispatch_touches. Qed.
Print Assumptions C21_dispatcher_enables_nothing.

(* In EVERY history of a group's frames (any number in flight, deliveries in any order, losses, injections of sterile frames):
   a frame that goes back to the bus without the group's program has no enabled write datagrams.  (Invariant: enabled frames
   carry an odd index, frames that bypass the program an even one.) *)
Theorem C21_no_enabled_bypass : forall es s e en, ginv s ->
  snd (gstep (fold_left (fun st e => fst (gstep st e)) es s) e) = Some (KTx, en) -> en = false.
Proof. exact tx_never_enabled. Qed.
Print Assumptions C21_no_enabled_bypass.

Example C21_nonvacuous : ginv {| counter := 1; flight := [] |} /\
  snd (gstep (fold_left (fun st e => fst (gstep st e)) [Inject; Inject; Deliver 0%nat] {| counter := 1; flight := [] |}) (Deliver 1%nat))
  = Some (KTail, false).
Proof. split; [split; [cbn; lia|constructor]|vm_compute; reflexivity]. Qed.

(* ---- the user-space half (Ecat/UserLoop.v: FastSyncGroup.run / SyncGroupBase.run / FastSyncGroup.update_devices).
   Whatever comes back from the bus - sterile frames, activated frames, nothing at all (timeout and re-send), in any order and
   for any number of cycles - every cyclic frame the loop hands to the socket is the sterile frame: the command byte of every
   write datagram is NOP. *)
Theorem C21_user_space_sends_sterile : forall l full evs f st w c e,
  In f (u_sent (uloop (sterile l full) evs)) -> In (st, w, c, e) l -> (st + 14 < length full)%nat ->
  byte_at f (st + 14) = 0.
Proof. exact user_space_frames_disabled. Qed.
Print Assumptions C21_user_space_sends_sterile.

Theorem C21_user_loop_invariant : forall asm evs, u_data (uloop asm evs) = asm /\ Forall (eq asm) (u_sent (uloop asm evs)).
Proof. exact uloop_sends_asm. Qed.
Print Assumptions C21_user_loop_invariant.

Example C21_user_loop_nonvacuous :
  let full := repeat 6 40 in let l := [(2%nat, 20%nat, 5, 1)] in
  let act := set_byte (set_byte full 16 5) INDEX0 3 in
  let s := uloop (sterile l full) [URecv act; UTimeout; URecv full; UTimeout] in
  length (u_sent s) = 7%nat /\ u_cur s = Some act /\ byte_at act 16 = 5 /\ Forall (fun f => byte_at f 16 = 0) (u_sent s).
Proof. vm_compute. split; [reflexivity|]. split; [reflexivity|]. split; [reflexivity|]. repeat (constructor; [reflexivity|]). constructor. Qed.
