From Verif Require Import Lib.Base Ecat.Dispatch.
Definition v_action (a : action) : V :=
  match a with ATx => VL [VZ 3] | APass => VL [VZ 2] | ARun g => VL [VZ 100; VZ g] | ADrop => VL [VZ 1] end.
Definition run (registered : bool) (f m : list Z) : V :=
  let '(f', m', a) := dispatch (fun _ => registered) f m in VL [VB f'; VB m'; v_action a].
Definition run_activate (l : list otf) (f : list Z) (wkc_errors : Z) : V :=
  let '(f', e) := activate l f wkc_errors in VL [VB f'; VZ e].
