From Verif Require Import Lib.Base Ecat.Sdo.

Definition v_optl (o : option (list Z)) : V := match o with None => VNone | Some l => VB l end.

(* download: what the client sends, and what a conformant server stores *)
Definition run_dl (mbx : nat) (data : list Z) (index : Z) (sub : option Z) : V :=
  let ps := dl_requests mbx data index sub in
  VL [VL (map VB ps); v_optl (srv_download ps)].

(* upload: the server's responses, and what the client makes of them *)
Definition run_ul (mbx : nat) (data : list Z) (index sub : Z) (ca : bool) : V :=
  let rs := ul_responses mbx data index sub ca in
  VL [VL (map VB rs);
      match sdo_read rs index with None => VNone | Some (v, tg) => VL [VB v; VL (map VZ tg)] end].
