(* ebpfcat/lock.py FMMULock at the level of the bytes of the shared map file: 64 bytes, bit (a mod 8) of byte (a / 8) says that
   window number a is taken.  An allocation writes  byte | (1 << (a % 8)),  a removal  byte & ~(1 << (a % 8))  (Python integers:
   two's complement of unbounded width, which is what Z.lor / Z.land / Z.lnot are). *)
From Verif Require Export Sys.FmmuLock.

Definition bmap := list Z.
Definition byte_of (m : bmap) (a : Z) : Z := nth (Z.to_nat (a / 8)) m 0.
Definition testb (m : bmap) (a : Z) : bool := Z.testbit (byte_of m a) (a mod 8).
Definition upd (m : bmap) (k : nat) (v : Z) : bmap := firstn k m ++ v :: skipn (S k) m.
Definition set_bit (m : bmap) (a : Z) : bmap := upd m (Z.to_nat (a / 8)) (Z.lor (byte_of m a) (Z.shiftl 1 (a mod 8))).
Definition clear_bit (m : bmap) (a : Z) : bmap := upd m (Z.to_nat (a / 8)) (Z.land (byte_of m a) (Z.lnot (Z.shiftl 1 (a mod 8)))).

(* one event on (map bytes, who holds what): the byte-level twin of FmmuLock.fstep *)
Definition bstep (mh : bmap * list (Z * Z)) (e : fev) : bmap * list (Z * Z) :=
  let '(m, h) := mh in
  match e with
  | Alloc p a => if testb m a || (a <=? 0) || (512 <=? a) then (m, h) else (set_bit m a, (p, a) :: h)
  | Release p =>
      match find (fun x => fst x =? p) h with
      | Some (_, a) => (clear_bit m a, filter (fun x => negb (fst x =? p)) h)
      | None => (m, h)
      end
  end.

(* the map says exactly what the abstract state's `used` says, for every window number *)
Definition Rmap (m : bmap) (u : list Z) : Prop := forall j, 0 <= j < 512 -> (testb m j = true <-> In j u).
Definition bytes_ok (m : bmap) : Prop := length m = 64%nat /\ Forall (fun b => 0 <= b < 256) m.
Definition held_ok (h : list (Z * Z)) : Prop := Forall (fun x => 0 < snd x < 512) h.
