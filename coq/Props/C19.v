(* C19 Process variables access their own bits and bytes on both paths.
   Model (Ecat/ProcVar.v): slow path = the Python statements of
   PacketVar.get/set on the bytearray current_data (|= mask, &= ~mask,
   struct '<' pack/unpack); fast path = the instructions the generator emits
   for a bit format (LDX B, AND/OR with the mask, shift, STX B) and for
   multi-byte formats.  Both are validated on every run against the REAL slow
   path and the REAL generated FastSyncGroup program on the same frames. *)
From Verif Require Import Lib.ListX Ecat.ProcVar Ecat.ProcVar_proofs Gen.Packet Gen.Packet_proofs.

(* writing a bit changes exactly that bit: every other bit of the byte ... *)
Theorem C19_bit_write_bits : forall data start k v, (start < length data)%nat -> 0 <= k ->
  forall j, 0 <= j -> Z.testbit (nth start (slow_set_bit data start k v) 0) j = if j =? k then v else Z.testbit (nth start data 0) j.
Proof. exact set_bit_read. Qed.
(* ... and every other byte of the frame, and its length, stay as they are *)
Theorem C19_bit_write_frame : forall data start k v, (start < length data)%nat ->
  length (slow_set_bit data start k v) = length data /\
  forall i, i <> start -> nth i (slow_set_bit data start k v) 0 = nth i data 0.
Proof. exact set_bit_frame. Qed.
Print Assumptions C19_bit_write_bits.

(* the generated program computes the same byte / reads the same bit as Python *)
Theorem C19_bit_paths_agree_write : forall pkt start k v, 0 <= nth start pkt 0 < 256 -> 0 <= k < 8 ->
  fast_set_bit pkt start k v = slow_set_bit pkt start k v.
Proof. exact fast_slow_set_bit. Qed.
Theorem C19_bit_paths_agree_read : forall pkt start k, 0 <= k ->
  negb (fast_get_bit pkt start k =? 0) = slow_get_bit pkt start k /\
  slow_get_bit pkt start k = Z.testbit (nth start pkt 0) k.
Proof. exact fast_slow_get_bit. Qed.
Print Assumptions C19_bit_paths_agree_write.

(* multi-byte variables: both paths store the same bytes, exactly n of them at
   the variable's position, and read the same value *)
Theorem C19_bytes_paths_agree : forall pkt start n v sg,
  fast_set pkt start n v = slow_set pkt start n v /\ fast_get pkt start n sg = slow_get pkt start n sg.
Proof. intros. split; [apply fast_slow_set|apply fast_slow_get]. Qed.
Theorem C19_bytes_write_frame : forall data start n v data', slow_set data start n v = Some data' ->
  length data' = length data /\
  read_bytes data' start n = Some (le_bytes n v) /\
  forall i, (Z.of_nat i < start \/ start + Z.of_nat n <= Z.of_nat i) -> nth i data' 0 = nth i data 0.
Proof.
  intros data start n v data' H. destruct (write_bytes_frame _ _ _ _ H) as (L & R & F).
  rewrite le_bytes_length in R. unfold zlen in F. rewrite le_bytes_length in F. auto.
Qed.
Print Assumptions C19_bytes_write_frame.

Example C19_nonvacuous :
  slow_set_bit [1; 255; 3] 1 4 false = [1; 239; 3] /\ fast_set_bit [1; 255; 3] 1 4 false = [1; 239; 3] /\
  slow_get_bit [1; 16; 3] 1 4 = true /\ fast_get_bit [1; 16; 3] 1 4 = 1.
Proof. vm_compute. auto. Qed.
