From Verif Require Import Gen.Layout.

Lemma land_neg_pow2 x k : 0 <= k -> Z.land x (- 2 ^ k) = 2 ^ k * (x / 2 ^ k).
Proof.
  intros Hk. assert (E : - 2 ^ k = Z.lnot (Z.ones k)).
  { rewrite Z.ones_equiv. unfold Z.lnot. lia. }
  rewrite E, <- Z.ldiff_land, Z.ldiff_ones_r by exact Hk.
  rewrite Z.shiftl_mul_pow2, Z.shiftr_div_pow2 by exact Hk. lia.
Qed.

Lemma alloc_local_spec stack s : pow2_size s ->
  let a := alloc_local stack s in a + s <= stack /\ stack - 2 * s < a /\ a mod s = 0.
Proof.
  intros Hs. unfold alloc_local.
  destruct Hs as (k & Hk & ->).
  rewrite land_neg_pow2 by exact Hk. set (p := 2 ^ k). assert (0 < p) by (apply Z.pow_pos_nonneg; lia).
  pose proof (Z.div_mod (stack - p) p ltac:(lia)). pose proof (Z.mod_pos_bound (stack - p) p ltac:(lia)).
  cbv zeta. repeat split; try lia. rewrite Z.mul_comm. apply Z.mod_mul. lia.
Qed.

(* every allocated local lies below the stack pointer it was allocated from *)
Lemma alloc_locals_below : forall sizes stack, Forall pow2_size sizes ->
  Forall (fun r => fst r + snd r <= stack) (fst (alloc_locals stack sizes)) /\ snd (alloc_locals stack sizes) <= stack.
Proof.
  induction sizes as [|s tl IH]; intros stack Hs; cbn [alloc_locals]; [split; [constructor|cbn; lia]|].
  inversion Hs as [|? ? H1 H2]; subst. destruct (alloc_local_spec stack s H1) as (A & _ & _).
  specialize (IH (alloc_local stack s) H2). destruct (alloc_locals (alloc_local stack s) tl) as [rest st] eqn:E.
  cbn [fst snd] in *. destruct IH as [IH1 IH2]. split.
  - constructor; [cbn; lia|]. eapply Forall_impl; [|exact IH1]. intros r Hr. cbn beta in *.
    assert (0 <= s) by (destruct H1 as (k & Hk & ->); apply Z.pow_nonneg; lia). lia.
  - assert (0 <= s) by (destruct H1 as (k & Hk & ->); apply Z.pow_nonneg; lia). lia.
Qed.

(* local variables of one program never overlap, for ANY list of declarations *)
Theorem locals_disjoint : forall sizes stack, Forall pow2_size sizes ->
  pairwise_disjoint (fst (alloc_locals stack sizes)).
Proof.
  induction sizes as [|s tl IH]; intros stack Hs; cbn [alloc_locals]; [exact I|].
  inversion Hs as [|? ? H1 H2]; subst.
  pose proof (alloc_locals_below tl (alloc_local stack s) H2) as [B _].
  specialize (IH (alloc_local stack s) H2). destruct (alloc_locals (alloc_local stack s) tl) as [rest st] eqn:E.
  cbn [fst snd pairwise_disjoint] in *. split; [|exact IH].
  eapply Forall_impl; [|exact B]. intros r Hr. unfold disjoint. cbn [fst snd]. right. exact Hr.
Qed.

(* scratch space taken with get_stack lies below every local of the program *)
Theorem scratch_below_locals sizes size : Forall pow2_size sizes -> pow2_size size ->
  let '(vars, st) := alloc_locals 0 sizes in
  Forall (fun r => disjoint (scratch st size, size) r) vars.
Proof.
  intros Hs Hz. pose proof (alloc_locals_below sizes 0 Hs) as [_ Top].
  assert (G : forall sizes stack, Forall pow2_size sizes ->
     Forall (fun r => snd (alloc_locals stack sizes) <= fst r) (fst (alloc_locals stack sizes))).
  { induction sizes0 as [|s tl IH]; intros stack H; cbn [alloc_locals]; [constructor|].
    inversion H as [|? ? H1 H2]; subst. specialize (IH (alloc_local stack s) H2).
    pose proof (alloc_locals_below tl (alloc_local stack s) H2) as [_ L].
    destruct (alloc_locals (alloc_local stack s) tl) as [rest st]. cbn [fst snd] in *.
    constructor; [cbn; exact L|exact IH]. }
  specialize (G sizes 0 Hs). destruct (alloc_locals 0 sizes) as [vars st]. cbn [fst snd] in *.
  destruct (alloc_local_spec st size Hz) as (A & _ & _). unfold scratch, alloc_local in *.
  eapply Forall_impl; [|exact G]. intros r Hr. unfold disjoint. cbn [fst snd]. left. cbn beta in Hr. lia.
Qed.

(* array-map variables never overlap, whatever the formats and their order *)
Theorem positions_disjoint : forall sizes pos, Forall (fun s => 0 <= s) sizes ->
  pairwise_disjoint (positions pos sizes) /\ Forall (fun r => pos <= fst r) (positions pos sizes).
Proof.
  induction sizes as [|s tl IH]; intros pos Hs; cbn [positions pairwise_disjoint]; [split; [exact I|constructor]|].
  inversion Hs as [|? ? H1 H2]; subst. destruct (IH (pos + s) H2) as [D L]. repeat split.
  - eapply Forall_impl; [|exact L]. intros r Hr. unfold disjoint. cbn [fst snd]. left. exact Hr.
  - exact D.
  - constructor; [cbn; lia|]. eapply Forall_impl; [|exact L]. intros r Hr. cbn beta in *. lia.
Qed.

(* the recorded defects: locals of two subprogram instances share their bytes,
   and scratch space overlaps a subprogram's locals *)
Theorem sub_locals_alias : forall main_stack rel, sub_local main_stack rel = sub_local main_stack rel.
Proof. reflexivity. Qed.
Theorem scratch_overlaps_sub_local :
  let main_stack := -8 in let rel := -4 in
  ~ disjoint (scratch main_stack 4, 4) (sub_local main_stack rel, 4).
Proof. unfold disjoint. vm_compute. intros [H|H]; apply H; reflexivity. Qed.

(* ---- one slot per name, of the size attribute lookup uses ---- *)
Lemma dedupe_in : forall l seen n s, In (n, s) (dedupe seen l) ->
  existsb (Z.eqb n) seen = false /\ first_def n l = Some s.
Proof.
  induction l as [|[m t] tl IH]; intros seen n s H; cbn [dedupe first_def] in *; [contradiction|].
  destruct (existsb (Z.eqb m) seen) eqn:E.
  - destruct (IH _ _ _ H) as [A B]. split; [exact A|]. destruct (Z.eqb_spec m n) as [->|N]; [congruence|exact B].
  - destruct H as [H|H].
    + injection H as -> ->. split; [exact E|]. rewrite Z.eqb_refl. reflexivity.
    + destruct (IH _ _ _ H) as [A B]. cbn [existsb] in A. apply orb_false_iff in A as [A1 A2].
      split; [exact A2|]. destruct (Z.eqb_spec m n) as [->|N]; [rewrite Z.eqb_refl in A1; discriminate|exact B].
Qed.

Lemma dedupe_nodup : forall l seen, NoDup (map fst (dedupe seen l)).
Proof.
  induction l as [|[m t] tl IH]; intros seen; cbn [dedupe]; [constructor|].
  destruct (existsb (Z.eqb m) seen); [apply IH|]. cbn [map fst]. constructor; [|apply IH].
  intros H. apply in_map_iff in H as ([n s] & Hn & Hi). cbn in Hn. subst n.
  destruct (dedupe_in _ _ _ _ Hi) as [A _]. cbn [existsb] in A. rewrite Z.eqb_refl in A. discriminate.
Qed.

Theorem collect_one_slot_per_name l :
  NoDup (map fst (dedupe [] l)) /\ forall n s, In (n, s) (dedupe [] l) -> first_def n l = Some s.
Proof. split; [apply dedupe_nodup|]. intros n s H. apply (dedupe_in _ _ _ _ H). Qed.

(* the pinned behaviour: a name redefined in a subclass with a larger format got a
   second, too small slot *)
Theorem collect_pinned_refuted :
  let mro := [(1, 8); (2, 4); (1, 4)] in      (* name 1: 'Q' in the subclass, 'I' in the base class *)
  ~ NoDup (map fst (dedupe_pinned mro)).
Proof. intros mro H. inversion H as [|? ? N _]. apply N. cbn. auto. Qed.

(* ---- Dict structures ---- *)
Lemma land_m8 x : Z.land x (-8) = 8 * (x / 8).
Proof. change (-8) with (- 2 ^ 3). rewrite land_neg_pow2 by lia. reflexivity. Qed.

Theorem dict_layout stack ks vs : 0 <= ks -> 0 <= vs ->
  let '((k, _), (v, _), st) := alloc_dict stack ks vs in
  st = v /\ v + vs <= k /\ k + ks <= stack /\ k mod 8 = 0 /\ v mod 8 = 0.
Proof.
  intros Hk Hv. unfold alloc_dict. rewrite !land_m8.
  set (k := 8 * ((stack - ks) / 8)). set (v := 8 * ((k - vs) / 8)).
  pose proof (Z.div_mod (stack - ks) 8 ltac:(lia)). pose proof (Z.mod_pos_bound (stack - ks) 8 ltac:(lia)).
  pose proof (Z.div_mod (k - vs) 8 ltac:(lia)). pose proof (Z.mod_pos_bound (k - vs) 8 ltac:(lia)).
  repeat split; try (subst k v; lia); subst k v; rewrite Z.mul_comm; apply Z.mod_mul; lia.
Qed.

Lemma pow2_nonneg s : pow2_size s -> 0 <= s.
Proof. intros (k & Hk & ->). apply Z.pow_nonneg. lia. Qed.

(* everything allocated from `stack` lies in [new stack, stack) *)
Lemma alloc_items_bounds : forall l stack, Forall item_ok l ->
  Forall (fun r => snd (alloc_items stack l) <= fst r /\ fst r + snd r <= stack) (fst (alloc_items stack l)) /\
  snd (alloc_items stack l) <= stack.
Proof.
  induction l as [|i tl IH]; intros stack Hl; cbn [alloc_items]; [split; [constructor|cbn; lia]|].
  inversion Hl as [|? ? Hi Ht]; subst. destruct i as [s|ks vs].
  - destruct (alloc_local_spec stack s Hi) as (A & _ & _). pose proof (pow2_nonneg s Hi) as Hs.
    specialize (IH (alloc_local stack s) Ht). destruct (alloc_items (alloc_local stack s) tl) as [rest st].
    cbn [fst snd] in *. destruct IH as [IH1 IH2]. split; [|lia].
    constructor; [cbn [fst snd]; lia|]. eapply Forall_impl; [|exact IH1]. cbn beta. intros r [R1 R2]. lia.
  - destruct Hi as [Hk Hv]. pose proof (dict_layout stack ks vs Hk Hv) as D. unfold alloc_dict in *.
    set (k := Z.land (stack - ks) (-8)) in *. set (v := Z.land (k - vs) (-8)) in *. cbv zeta in D.
    destruct D as (_ & D1 & D2 & _ & _).
    specialize (IH v Ht). destruct (alloc_items v tl) as [rest st]. cbn [fst snd] in *. destruct IH as [IH1 IH2].
    split; [|lia]. constructor; [cbn [fst snd]; lia|]. constructor; [cbn [fst snd]; lia|].
    eapply Forall_impl; [|exact IH1]. cbn beta. intros r [R1 R2]. lia.
Qed.

(* locals, Dict keys and Dict values of one program never overlap, for ANY declaration list in ANY order *)
Theorem items_disjoint : forall l stack, Forall item_ok l -> pairwise_disjoint (fst (alloc_items stack l)).
Proof.
  induction l as [|i tl IH]; intros stack Hl; cbn [alloc_items]; [exact I|].
  inversion Hl as [|? ? Hi Ht]; subst. destruct i as [s|ks vs].
  - pose proof (alloc_items_bounds tl (alloc_local stack s) Ht) as [B _].
    specialize (IH (alloc_local stack s) Ht). destruct (alloc_items (alloc_local stack s) tl) as [rest st].
    cbn [fst snd pairwise_disjoint] in *. split; [|exact IH].
    eapply Forall_impl; [|exact B]. intros r [_ Hr]. unfold disjoint. cbn [fst snd]. right. exact Hr.
  - destruct Hi as [Hk Hv]. pose proof (dict_layout stack ks vs Hk Hv) as D. unfold alloc_dict in *.
    set (k := Z.land (stack - ks) (-8)) in *. set (v := Z.land (k - vs) (-8)) in *. cbv zeta in D.
    destruct D as (_ & D1 & D2 & _ & _).
    pose proof (alloc_items_bounds tl v Ht) as [B _].
    specialize (IH v Ht). destruct (alloc_items v tl) as [rest st]. cbn [fst snd pairwise_disjoint] in *.
    split; [|split; [|exact IH]].
    + constructor; [unfold disjoint; cbn [fst snd]; lia|].
      eapply Forall_impl; [|exact B]. intros r [_ Hr]. unfold disjoint. cbn [fst snd]. right. lia.
    + eapply Forall_impl; [|exact B]. intros r [_ Hr]. unfold disjoint. cbn [fst snd]. right. lia.
Qed.

(* scratch space (get_stack) taken after all declarations lies below every one of them *)
Theorem scratch_below_items l size : Forall item_ok l -> pow2_size size ->
  let '(vars, st) := alloc_items 0 l in
  Forall (fun r => disjoint (scratch st size, size) r) vars.
Proof.
  intros Hl Hz. pose proof (alloc_items_bounds l 0 Hl) as [B _].
  destruct (alloc_items 0 l) as [vars st]. cbn [fst snd] in *.
  destruct (alloc_local_spec st size Hz) as (A & _ & _). unfold scratch, alloc_local in *.
  eapply Forall_impl; [|exact B]. intros r [Hr _]. unfold disjoint. cbn [fst snd]. left. lia.
Qed.

(* what goes wrong when the rounded value offset is not written back (a seeded change): scratch lands inside the value *)
Example dict_unrounded_refuted :
  let k := Z.land (0 - 4) (-8) in let st := k - 4 in let v := Z.land st (-8) in
  ~ disjoint (scratch st 4, 4) (v, 4).
Proof. vm_compute. intros [H|H]; apply H; reflexivity. Qed.
