(* list lemmas missing from the 8.16 standard library *)
From Verif Require Export Lib.Bytes.

Lemma nth_firstn_lt {A} (l : list A) : forall n i d, (i < n)%nat -> nth i (firstn n l) d = nth i l d.
Proof.
  induction l as [|x l IH]; intros n i d H; [now rewrite firstn_nil|].
  destruct n; [lia|]. destruct i; [reflexivity|]. cbn. apply IH. lia.
Qed.

Lemma nth_skipn' {A} (l : list A) : forall n i d, nth i (skipn n l) d = nth (n + i) l d.
Proof.
  induction l as [|x l IH]; intros n i d.
  - rewrite skipn_nil. destruct i, n; reflexivity.
  - destruct n; [reflexivity|]. cbn. apply IH.
Qed.

Lemma nth_repeat_any {A} (a d : A) n i : nth i (repeat a n) d = if (i <? n)%nat then a else d.
Proof.
  revert i. induction n as [|n IH]; intros i; [destruct i; reflexivity|].
  destruct i; [reflexivity|]. cbn [repeat nth]. rewrite IH.
  destruct (Nat.ltb_spec i n), (Nat.ltb_spec (S i) (S n)); try lia; reflexivity.
Qed.

Lemma list_eq_nth {A} (a b : list A) d : length a = length b ->
  (forall i, (i < length a)%nat -> nth i a d = nth i b d) -> a = b.
Proof. intros L H. apply (nth_ext a b d d L H). Qed.

Lemma firstn_app_le {A} (a b : list A) n : (n <= length a)%nat -> firstn n (a ++ b) = firstn n a.
Proof.
  intros H. rewrite firstn_app. replace (n - length a)%nat with O by lia. simpl. apply app_nil_r.
Qed.

Lemma skipn_app_exact {A} (a b : list A) : skipn (length a) (a ++ b) = b.
Proof. rewrite skipn_app, Nat.sub_diag, skipn_all. reflexivity. Qed.

Lemma firstn_app_exact {A} (a b : list A) : firstn (length a) (a ++ b) = a.
Proof. rewrite firstn_app, Nat.sub_diag, firstn_all. simpl. apply app_nil_r. Qed.

Lemma skipn_add {A} (l : list A) : forall a b, skipn a (skipn b l) = skipn (b + a) l.
Proof.
  induction l as [|x l IH]; intros a b.
  - now rewrite !skipn_nil.
  - destruct b; [reflexivity|]. cbn. apply IH.
Qed.

Lemma firstn_app_exact' {A} (a b : list A) n : length a = n -> firstn n (a ++ b) = a.
Proof. intros <-. apply firstn_app_exact. Qed.
Lemma skipn_app_exact' {A} (a b : list A) n : length a = n -> skipn n (a ++ b) = b.
Proof. intros <-. apply skipn_app_exact. Qed.

(* functional update of the n-th element *)
Fixpoint set_at {A} (n : nat) (v : A) (l : list A) : list A :=
  match l, n with
  | [], _ => []
  | _ :: tl, O => v :: tl
  | x :: tl, S k => x :: set_at k v tl
  end.

Lemma set_at_length {A} (l : list A) : forall n v, length (set_at n v l) = length l.
Proof. induction l; intros [|n] v; simpl; auto. Qed.

Lemma nth_set_at_same {A} (l : list A) : forall n v d, (n < length l)%nat -> nth n (set_at n v l) d = v.
Proof. induction l as [|x l IH]; intros [|n] v d H; simpl in *; try lia; auto. apply IH. lia. Qed.

Lemma nth_set_at_other {A} (l : list A) : forall n m v d, n <> m -> nth m (set_at n v l) d = nth m l d.
Proof. induction l as [|x l IH]; intros [|n] [|m] v d H; simpl; auto; try congruence. Qed.
