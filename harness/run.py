import importlib
import os
import sys

def main():
    pid = sys.argv[1]
    tier = "quick"
    replay = None
    args = sys.argv[2:]
    if args and args[0] == "--replay":
        replay = args[1]
    elif args:
        tier = args[0]
    tier = os.environ.get("VERIF_TIER", tier) if not args else tier
    seed = int(os.environ.get("VERIF_SEED", "20260921"))
    sys.path.insert(0, os.environ.get("VERIF_REPO", "/repo"))
    mod = importlib.import_module(f"harness.{pid.lower()}")
    chk = mod.CHECK(tier, seed)
    if replay:
        sys.exit(chk.replay(replay))
    sys.exit(chk.main())

if __name__ == "__main__":
    main()
