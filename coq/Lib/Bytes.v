(* Little-endian byte strings, as Python's struct "<" formats produce them. *)
From Verif Require Export Lib.Base.

Definition is_byte (b : Z) : Prop := 0 <= b < 256.

Fixpoint le_bytes (n : nat) (z : Z) : list Z :=
  match n with
  | O => []
  | S k => (z mod 256) :: le_bytes k (z / 256)
  end.

Fixpoint le_val (l : list Z) : Z :=
  match l with
  | [] => 0
  | b :: tl => b + 256 * le_val tl
  end.

(* two's complement reading of an n-byte value *)
Definition sx (n : nat) (z : Z) : Z :=
  if z <? 2 ^ (8 * Z.of_nat n - 1) then z else z - 2 ^ (8 * Z.of_nat n).

Definition zeros (n : nat) : list Z := repeat 0 n.

Definition ztake (z : Z) {A} (l : list A) : list A := firstn (Z.to_nat z) l.
Definition zdrop (z : Z) {A} (l : list A) : list A := skipn (Z.to_nat z) l.
Definition zlen {A} (l : list A) : Z := Z.of_nat (length l).

(* Python slice l[a:b] for step 1, negative bounds counted from the end *)
Definition py_bound (len i : Z) : Z :=
  if i <? 0 then Z.max 0 (i + len) else Z.min i len.
Definition py_slice {A} (l : list A) (a b : Z) : list A :=
  let a' := py_bound (zlen l) a in
  let b' := py_bound (zlen l) b in
  ztake (b' - a') (zdrop a' l).

Lemma le_bytes_length n z : length (le_bytes n z) = n.
Proof. revert z; induction n as [|n IH]; intros z; simpl; [reflexivity|]. now rewrite IH. Qed.

Lemma le_bytes_is_byte n z : Forall is_byte (le_bytes n z).
Proof.
  revert z; induction n as [|n IH]; intros z; simpl; constructor; [|apply IH].
  unfold is_byte. apply Z.mod_pos_bound. lia.
Qed.

Lemma le_val_le_bytes n z : le_val (le_bytes n z) = z mod 256 ^ Z.of_nat n.
Proof.
  revert z; induction n as [|n IH]; intros z.
  - simpl. now rewrite Z.mod_1_r.
  - cbn [le_bytes le_val]. rewrite IH.
    replace (Z.of_nat (S n)) with (Z.of_nat n + 1) by lia.
    rewrite Z.pow_add_r by lia. rewrite Z.pow_1_r.
    assert (H : 0 < 256 ^ Z.of_nat n) by (apply Z.pow_pos_nonneg; lia).
    rewrite (Z.mul_comm (256 ^ Z.of_nat n) 256).
    rewrite Z.rem_mul_r by lia. lia.
Qed.

Lemma le_bytes_le_val l : Forall is_byte l -> le_bytes (length l) (le_val l) = l.
Proof.
  induction 1 as [|b tl Hb Htl IH]; [reflexivity|].
  cbn [length le_bytes le_val]. unfold is_byte in Hb.
  replace ((b + 256 * le_val tl) mod 256) with b.
  2:{ lia. }
  replace ((b + 256 * le_val tl) / 256) with (le_val tl).
  2:{ lia. }
  now rewrite IH.
Qed.

Lemma le_val_bound l : Forall is_byte l -> 0 <= le_val l < 256 ^ zlen l.
Proof.
  unfold zlen. induction 1 as [|b tl Hb Htl IH]; [simpl; lia|].
  cbn [le_val length]. unfold is_byte in Hb.
  replace (Z.of_nat (S (length tl))) with (Z.of_nat (length tl) + 1) by lia.
  rewrite Z.pow_add_r, Z.pow_1_r by lia. lia.
Qed.

Lemma zeros_length n : length (zeros n) = n.
Proof. apply repeat_length. Qed.

Lemma zlen_app {A} (a b : list A) : zlen (a ++ b) = zlen a + zlen b.
Proof. unfold zlen. rewrite app_length. lia. Qed.

Lemma zlen_nonneg {A} (l : list A) : 0 <= zlen l.
Proof. unfold zlen. lia. Qed.

Lemma ztake_app_exact {A} (a b : list A) : ztake (zlen a) (a ++ b) = a.
Proof.
  unfold ztake, zlen. rewrite Nat2Z.id.
  rewrite firstn_app, Nat.sub_diag, firstn_all. simpl. now rewrite app_nil_r.
Qed.

Lemma zdrop_app_exact {A} (a b : list A) : zdrop (zlen a) (a ++ b) = b.
Proof.
  unfold zdrop, zlen. rewrite Nat2Z.id.
  rewrite skipn_app, Nat.sub_diag, skipn_all. reflexivity.
Qed.
