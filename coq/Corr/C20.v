From Verif Require Import Lib.Base Ecat.Fmmu.

Definition v_tbl (u : used) : V := VL (map (fun o => match o with None => VNone | Some z => VZ z end) u).

(* after each op: (result of the op, table) ; Map -> index or error 4, Unmap -> 0 *)
Fixpoint run_ops (s : st) (ops : list op) (acc : list V) : list V :=
  match ops with
  | [] => rev acc
  | o :: tl =>
      let s' := step s o in
      let r := match o with
               | Map w lg => match map_enter (tbl s) w lg with
                             | Some (i, _) => VZ i
                             | None => match slot_index (tbl s) w with None => VErr 4 | Some _ => VErr 5 end
                             end
               | Unmap _ => VZ 0
               end in
      run_ops s' tl (VL [r; v_tbl (tbl s')] :: acc)
  end.
Definition run (n : nat) (ops : list op) : V := VL (run_ops (init n) ops []).

(* whole groups sharing the terminal: after each group operation (1 mapped / 0 refused / 2 unmapped, table) *)
From Verif Require Import Ecat.FmmuGroup.
Fixpoint run_gops (s : gst) (ops : list gop) (acc : list V) : list V :=
  match ops with
  | [] => rev acc
  | o :: tl =>
      let s' := gstep s o in
      let r := match o with
               | GMap _ out_ inp => match group_enter (gtbl s) out_ inp with Some _ => VZ 1 | None => VZ 0 end
               | GUnmap _ => VZ 2
               end in
      run_gops s' tl (VL [r; v_tbl (gtbl s')] :: acc)
  end.
Definition run_groups (n : nat) (ops : list gop) : V := VL (run_gops (ginit n) ops []).
