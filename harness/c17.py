"""C17: Terminal.read_eeprom / _eeprom_read_one / parse_sync_managers / parse_pdos (EEPROM)
on the simulated ESC EEPROM interface, against Ecat/Eeprom.v"""
import asyncio
import logging
import random
import struct

from .common import Check, Err, cbool, czlist
from .sim_bus import SimBus, SimTerminal, attach


def build_image(idn, cats, tail=b""):
    """SII image: identity at word 8..15, categories from word 0x40"""
    img = bytearray(0x80)
    struct.pack_into("<IIII", img, 16, *idn)
    for ty, content in cats:
        img += struct.pack("<HH", ty, len(content) // 2) + content
    img += b"\xff\xff" + tail
    return bytes(img)


def enc_sms(sms):
    return b"".join(struct.pack("<HHBBBB", off, size, ctl, 0, 1, typ) for off, size, ctl, typ in sms)


def enc_pdos(pdos):
    out = b""
    for pidx, sm, entries in pdos:
        out += struct.pack("<HBbBBH", pidx, len(entries), sm, 0, 0, 0)
        for idx, sub, bits in entries:
            out += struct.pack("<HBBBBH", idx, sub, 0, 0, bits, 0)
    return out


logging.disable(logging.CRITICAL)


class C17(Check):
    pid = "C17"
    shard = 12
    props_file = "Props/C17.v"
    corr_imports = ["Ecat.Eeprom", "Corr.C17"]
    technique = "Coq proof (buffered EEPROM reader = direct slicing of the image for both read widths; SII category / sync-manager / PDO decoders invert the SII encoders, by induction) + differential correspondence on a simulated ESC EEPROM interface"
    trusted = ["harness/sim_bus.py EEPROM interface (0x502..0x50f: busy flag, 4/8-byte reads, 0xff beyond the end)"]
    assumptions = ["well-formed SII images: even-sized categories, terminated by 0xffff; PDO categories made of whole 8-byte records"]

    def rand_pdos(self, rng, aligned=True):
        pdos = []
        for p in range(rng.randint(1, 3)):
            entries = []
            for e in range(rng.randint(0, 5)):
                kind = rng.random()
                if kind < 0.15:
                    entries.append((0, 0, rng.choice([1, 2, 4, 8, 16])))           # gap
                elif kind < 0.45:
                    entries.append((0x6000 + 16 * p + rng.randrange(4), e + 1, rng.choice([1, 1, 2, 3])))
                else:
                    entries.append((0x6000 + 16 * p + rng.randrange(4), e + 1, rng.choice([8, 16, 32, 64])))
            pdos.append((0x1a00 + p, rng.choice([2, 3, -1]), entries))
        if aligned:
            # pad bit entries so that byte entries stay aligned (what real terminals do)
            fixed = []
            for pidx, sm, entries in pdos:
                out, bitpos = [], 0
                for idx, sub, bits in entries:
                    if bits >= 8 and bitpos % 8:
                        pad = 8 - bitpos % 8
                        out.append((0, 0, pad))
                        bitpos += pad
                    out.append((idx, sub, bits))
                    bitpos += bits
                fixed.append((pidx, sm, out))
            # alignment carries over PDO boundaries: recompute globally
            pdos, bitpos = [], 0
            for pidx, sm, entries in fixed:
                out = []
                for idx, sub, bits in entries:
                    if bits >= 8 and bitpos % 8:
                        pad = 8 - bitpos % 8
                        out.append((0, 0, pad))
                        bitpos += pad
                    out.append((idx, sub, bits))
                    bitpos += bits
                pdos.append((pidx, sm, out))
        return pdos

    def gen_cases(self):
        rng = self.rng
        out = []
        for i in range(120 if self.tier == "quick" else 1500):
            cats = []
            # standard types and vendor specific ones (bit 15 set), also ones that differ from a standard type only in bit 15
            types = rng.sample([10, 20, 30, 40, 41, 50, 51, 60, 70, 0x800, 5, 1, 0x8029, 0x8032, 0x8033, 0x9000, 0xfffe, 0x8001, 0x800a], rng.randint(0, 7))
            for ty in types:
                if ty == 41:
                    sms = [(rng.randrange(0x1000, 0x2000), rng.choice([0, 2, 128, rng.randrange(300)]),
                            rng.choice([0x26, 0x22, 0x24, 0x20, 0x64, 0x00, 0x04, 0x02, 0x06, 0x03]), rng.randrange(5))
                           for _ in range(rng.randint(0, 5))]
                    cats.append((41, enc_sms(sms)))
                elif ty in (50, 51):
                    cats.append((ty, enc_pdos(self.rand_pdos(rng, aligned=rng.random() < 0.85))))
                else:
                    cats.append((ty, bytes(rng.randrange(256) for _ in range(2 * rng.randint(0, 20)))))
            if rng.random() < 0.1 and cats:
                cats.append(cats[0])      # duplicate type: later wins
            idn = tuple(rng.choice([0, 2, 0x12345678, 0xffffffff, rng.randrange(1 << 32)]) for _ in range(4))
            img = build_image(idn, cats, tail=bytes(rng.randrange(256) for _ in range(rng.choice([0, 0, 3, 8]))))
            if rng.random() < 0.05:
                # truncated image (the device answers 0xff beyond the end); never cut inside a
                # category header, which would announce a 128 KiB category
                cut = rng.randint(0x80, len(img))
                off = 0x80
                for ty, content in cats:
                    if off <= cut < off + 4:
                        cut = off
                    off += 4 + len(content)
                if off <= cut < off + 2:
                    cut = off
                img = img[:cut]
            out.append({"img": img, "mode8": rng.random() < 0.5, "busy": rng.choice([0, 0, 1, 3]), "seed": rng.randrange(1 << 30), "twice": rng.random() < 0.3})
        return out

    def corpus(self):
        gap = enc_pdos([(0x1a00, 3, [(0x6000, 1, 1), (0, 0, 7), (0x6000, 0x11, 16), (0, 0, 8), (0x6010, 1, 32)])])
        return [{"img": build_image((2, 0x1234, 5, 77), [(41, enc_sms([(0x1000, 128, 0x26, 1), (0x1080, 128, 0x22, 2), (0x1100, 4, 0x24, 3), (0x1180, 6, 0x20, 4)])),
                                                          (50, gap), (51, enc_pdos([(0x1600, 2, [(0x7000, 1, 16), (0x7000, 2, 8)])]))]),
                 "mode8": m, "busy": b, "seed": 1} for m in (True, False) for b in (0, 2)] + [
            # a large EEPROM: twenty vendor categories of 512 bytes, the sync-manager category BEHIND them (beyond 8 KiB, word
            # address 0x1000 and more): about 1300 (8-byte) / 2600 (4-byte) reads in a row
            {"img": build_image((2, 0x5678, 1, 9), [(0x8000 + k, bytes((k * 7 + j) & 0xff for j in range(512))) for k in range(20)]
                                + [(41, enc_sms([(0x1000, 64, 0x26, 1), (0x1080, 64, 0x22, 2), (0x1100, 2, 0x24, 3), (0x1180, 10, 0x20, 4)]))]),
             "mode8": m, "busy": 0, "seed": 3} for m in (True, False)]

    def run_impl(self, case):
        from ebpfcat.ebpfcat import SimpleEtherCat
        from ebpfcat.ethercat import Terminal, SyncManager

        async def go():
            ec = SimpleEtherCat("verif0")
            sim = SimTerminal(station=1005, eeprom=case["img"], eeprom8=case["mode8"], busy_polls=case["busy"],
                              rng=random.Random(case["seed"]))
            sim.junk_rng = random.Random(case["seed"] + 1)
            # a second terminal at another station address: in `twice` mode the same Terminal OBJECT is bound to it first
            sim2 = SimTerminal(station=1006, eeprom=case["img"], eeprom8=not case["mode8"], busy_polls=0, rng=random.Random(case["seed"] + 2))
            sim2.junk_rng = random.Random(case["seed"] + 3)
            bus = SimBus([sim, sim2])
            attach(ec, bus)
            t = Terminal(ec)
            t.position = 1005
            try:
                if case.get("twice"):
                    # the same Terminal object decoded ANOTHER image before (a full one with mailbox and both process data
                    # areas): nothing of it may show in what it reports for the image under test
                    prev = build_image((2, 0x1234, 5, 77), [(41, enc_sms([(0x1000, 128, 0x26, 1), (0x1080, 128, 0x22, 2), (0x1100, 4, 0x24, 3), (0x1180, 6, 0x20, 4)])),
                                                           (0x8001, bytes(range(8)))])
                    elsewhere = case["seed"] % 2 == 0      # half of them: at the OTHER station address (the object is re-addressed afterwards)
                    if elsewhere:
                        sim2.eeprom = prev
                        t.position = 1006
                    else:
                        sim.eeprom = prev
                    await asyncio.wait_for(t.read_eeprom(), 120)
                    if 41 in t.eeprom:
                        t.parse_sync_managers(t.eeprom[41])
                    sim.eeprom = case["img"]
                    t.position = 1005
                if case["seed"] % 3 == 1 and not case.get("twice"):
                    # ANOTHER terminal of the same master reads its (different) EEPROM at the same time
                    other = build_image((2, 0x4321, 9, 55), [(41, enc_sms([(0x1000, 64, 0x26, 1), (0x1080, 64, 0x22, 2), (0x1100, 2, 0x24, 3), (0x1180, 10, 0x20, 4)])),
                                                            (0x8002, bytes(range(40, 72)))])
                    sim2.eeprom = other
                    t2 = Terminal(ec)
                    t2.position = 1006
                    await asyncio.wait_for(asyncio.gather(t.read_eeprom(), t2.read_eeprom()), 120)
                else:
                    await asyncio.wait_for(t.read_eeprom(), 120)
                idn = [t.vendorId, t.productCode, t.revisionNo, t.serialNo]
                d = [[k, v] for k, v in t.eeprom.items()]
                if 41 in t.eeprom:
                    try:
                        t.parse_sync_managers(t.eeprom[41])
                        pair = lambda a, b: None if a is None else [a, b]
                        sm = [pair(t.mbx_out_off, t.mbx_out_sz), pair(t.mbx_in_off, t.mbx_in_sz),
                              pair(t.pdo_out_off, t.pdo_out_sz), pair(t.pdo_in_off, t.pdo_in_sz), t.pdo_out_addr, t.pdo_in_addr]
                    except struct.error:
                        sm = Err(1, "struct")
                else:
                    sm = None
                t.mbx_out_off = t.mbx_in_off = None     # EEPROM source for the PDOs
                try:
                    ob, ib = await t.parse_pdos()
                    items = []
                    for (idx, sub), (smx, byte, third) in t.pdos.items():
                        items.append([idx * 256 + sub, [smx.value, byte, 0, third] if isinstance(third, int)
                                      else [smx.value, byte, 1, {"B": 8, "H": 16, "I": 32, "Q": 64}[third]]])
                    pd = [items, ob, ib]
                except (RuntimeError, KeyError, struct.error):
                    pd = Err(6, "pdo layout")
                return [idn, d, sm, pd]
            except asyncio.TimeoutError:
                return Err(8, "read_eeprom did not terminate")
            finally:
                ec._sendloop_task.cancel()
        return asyncio.run(go())

    def model_term(self, case):
        return f"(run {czlist(case['img'])} {cbool(case['mode8'])})"

    def holds(self, case, o):
        """independent decoding of the image"""
        img = case["img"]
        if isinstance(o, Err):
            return f"decoding failed: {o.what}" if self.wellformed(img) else True
        idn, d, sm, pd = o
        get = lambda off, n: (img[off:off + n] + b"\xff" * n)[:n]
        if idn != list(struct.unpack("<IIII", get(16, 16))):
            return f"identity {idn} != stored {struct.unpack('<IIII', get(16, 16))}"
        off, cats = 0x80, {}
        while True:
            ty, ws = struct.unpack("<HH", get(off, 4))
            if ty == 0xffff:
                break
            cats[ty] = get(off + 4, 2 * ws)
            off += 4 + 2 * ws
        if dict((k, v) for k, v in d) != cats or len(d) != len(cats):
            return f"categories {[(k, len(v)) for k, v in d]} != stored {[(k, len(v)) for k, v in cats.items()]}"
        if 41 in cats and len(cats[41]) % 8 == 0:
            want = [None, None, None, None, 0x810, 0x818]
            for i in range(0, len(cats[41]), 8):
                o_, s_, c_ = struct.unpack_from("<HHB", cats[41], i)
                m = c_ & 0xf
                if m == 6:
                    want[0] = [o_, s_]
                elif m == 2:
                    want[1] = [o_, s_]
                elif m == 4:
                    want[2], want[4] = [o_, s_], 0x800 + i
                elif m == 0:
                    want[3], want[5] = [o_, s_], 0x800 + i
            if sm != want:
                return f"sync manager layout {sm} != stored {want}"
        # PDO entries: offset/size/bit of every mapped entry
        want_items, totals, bad = {}, [], False
        for ty, smv in ((51, 2), (50, 3)):
            bitpos = 0
            s = cats.get(ty, b"")
            if len(s) % 8:
                return True    # not whole records: outside the well-formed images
            i = 0
            while i < len(s):
                n = s[i + 2]
                i += 8
                for _ in range(n):
                    if i + 8 > len(s):
                        return True
                    idx, sub, _, _, bits = struct.unpack_from("<HBBBB", s, i)
                    i += 8
                    if idx:
                        if bits < 8:
                            want_items[idx * 256 + sub] = [smv, bitpos // 8, 0, bitpos % 8]
                        elif bits % 8 or bitpos % 8 or bits not in (8, 16, 32, 64):
                            bad = True
                        else:
                            want_items[idx * 256 + sub] = [smv, bitpos // 8, 1, bits]
                    bitpos += bits
                    if bad:
                        break
                if bad:
                    break
            totals.append(bitpos)
        if bad:
            return True if isinstance(pd, Err) else "misaligned PDO map accepted"
        if isinstance(pd, Err):
            return "well-formed PDO map rejected"
        if dict((k, v) for k, v in pd[0]) != want_items or pd[1:] != totals:
            return f"PDO layout {sorted(pd[0])} bits {pd[1:]} != stored {sorted(want_items.items())} bits {totals}"
        return True

    @staticmethod
    def wellformed(img):
        return True

    def nontrivial(self, case, o):
        return not isinstance(o, Err) and len(o[1]) >= 2

    def search_cases(self):
        rng = random.Random(5)
        out = []
        for m in (True, False):
            for n in range(0, 12):
                cats = [(30, bytes(range(2 * n))), (50, enc_pdos([(0x1a00, 3, [(0x6000, 1, 1), (0, 0, 7), (0x6000, 2, 16)])]))]
                out.append({"img": build_image((1, 2, 3, 4), cats), "mode8": m, "busy": 1, "seed": n})
        return out

    def rule(self):
        return ("random SII images: 0-7 categories with distinct standard and vendor-specific types (bit 15 set, some equal to a standard type but for that bit; 10% with a duplicate), random even lengths and contents, sync-manager categories "
                "with random entries/control bytes, PDO categories with bit/byte/gap entries (85% byte-aligned), random identity, garbage after the end marker, "
                "5% truncated images; 4- and 8-byte EEPROM reads; busy for 0-3 polls; 30%: the Terminal object decoded another (full) image before (half of them at another station address); a third of the rest: another terminal of the same master reads its own EEPROM at the same time; non-trivial = at least two categories decoded")

    def distribution(self, cases, observed):
        d = {"mode8": 0, "mode4": 0, "busy": 0, "errors": 0, "categories": 0}
        for c, o in zip(cases, observed):
            d["mode8" if c["mode8"] else "mode4"] += 1
            d["busy"] += c["busy"] > 0
            d["errors"] += isinstance(o, Err) or (not isinstance(o, Err) and isinstance(o[3], Err))
            d["categories"] += 0 if isinstance(o, Err) else len(o[1])
        return d

    def describe(self, case):
        return {"img": case["img"].hex(), "mode8": case["mode8"], "busy": case["busy"], "seed": case["seed"], "twice": bool(case.get("twice"))}

    def case_from_json(self, w):
        return {"img": bytes.fromhex(w["img"]), "mode8": w["mode8"], "busy": w["busy"], "seed": w["seed"], "twice": w.get("twice", False)}


CHECK = C17
