From Verif Require Import Lib.Struct_proofs Ecat.Frame Ecat.Frame_proofs Ecat.Alloc.

Definition wf_term (t : term) : Prop :=
  0 <= t_in t /\ 0 <= t_out t /\ match t_kind t with KAero a b => 0 < a /\ 0 < b | _ => True end.

Definition opt_list {A} (o : option A) : list A := match o with Some a => [a] | None => [] end.

(* symbolic regions of one terminal: (base, size) *)
Definition regs_of (t : term) (b : option base * option base) : list (base * Z) :=
  map (fun x => (x, in_region_size t)) (opt_list (fst b)) ++
  map (fun x => (x, out_region_size t)) (opt_list (snd b)).

Definition psize (st : astate) : Z := p_size (sp (a_pk st)).

Definition bounded (st : astate) (r : base * Z) : Prop :=
  0 < snd r /\
  match fst r with
  | BNo a => 16 <= a /\ a + 12 + snd r <= psize st
  | BIn off => 0 <= off /\ off + snd r <= fin_size st
  | BOut off => 0 <= off /\ off + snd r <= fout_size st
  end.

Definition sdisj (r1 r2 : base * Z) : Prop :=
  match fst r1, fst r2 with
  | BNo a, BNo b => a + snd r1 <= b \/ b + snd r2 <= a
  | BIn a, BIn b => a + snd r1 <= b \/ b + snd r2 <= a
  | BOut a, BOut b => a + snd r1 <= b \/ b + snd r2 <= a
  | _, _ => True
  end.

Definition mono (st st' : astate) : Prop :=
  16 <= psize st /\ psize st <= psize st' /\ fin_size st <= fin_size st' /\ fout_size st <= fout_size st' /\
  (psize st <= Packet_MAXSIZE -> psize st' <= Packet_MAXSIZE).

Lemma bounded_mono st st' r : mono st st' -> bounded st r -> bounded st' r.
Proof. unfold mono, bounded. destruct r as [[a|a|a] sz]; cbn [fst snd]; lia. Qed.

Lemma s_append_size pk d pk' : s_append pk d = Some pk' ->
  p_size (sp pk') = p_size (sp pk) + 12 + zlen (d_data d) /\ p_size (sp pk') <= Packet_MAXSIZE.
Proof.
  unfold s_append. destruct (append (sp pk) d) as [[p' [a b]]|] eqn:E; [|discriminate].
  cbn. intros H; inversion H; subst. cbn. apply append_inv in E. lia.
Qed.
Lemma s_append_writer_size pk d pk' : s_append_writer pk d = Some pk' ->
  p_size (sp pk') = p_size (sp pk) + 12 + zlen (d_data d) /\ p_size (sp pk') <= Packet_MAXSIZE.
Proof.
  unfold s_append_writer. destruct (append (sp pk) d) as [[p' [a b]]|] eqn:E; [|discriminate].
  intros H; inversion H; subst. cbn. apply append_inv in E. lia.
Qed.

Lemma zlen_zeros z : 0 <= z -> zlen (zeros (Z.to_nat z)) = z.
Proof. intros. unfold zlen. rewrite zeros_length. lia. Qed.

Lemma truthy_pos z : 0 <= z -> truthy z = true -> 0 < z.
Proof. unfold truthy. intros. destruct (Z.eqb_spec z 0); [discriminate|lia]. Qed.

Ltac inv_some :=
  match goal with
  | H : Some _ = Some _ |- _ => inversion H; subst; clear H
  | H : option_map _ ?x = Some _ |- _ => destruct x eqn:?; cbn [option_map] in H; [|discriminate]
  end.

Ltac lists := repeat (apply FOP_cons || apply FOP_nil || apply Forall_cons || apply Forall_nil).
Ltac solve_inv K :=
  unfold regs_of, in_region_size, out_region_size, mono, bounded, sdisj, psize in *;
  rewrite ?K;
  cbn [fst snd opt_list map app a_pk fin_size fout_size fin_count fout_count with_pk] in *;
  (split; [lia|]);
  (split; [lists; cbn [fst snd]; lia|]);
  (split; [lists; cbn [fst snd]; auto; lia|]);
  intros [[a|a|a] sz]; cbn [fst snd]; intros; lists; cbn [fst snd]; auto; lia.

(* one terminal *)
Lemma alloc_term_inv st t st' b : wf_term t -> 16 <= psize st -> 0 <= fin_size st -> 0 <= fout_size st ->
  alloc_term st t = Some (st', b) ->
  mono st st' /\ Forall (bounded st') (regs_of t b) /\ ForallOrdPairs sdisj (regs_of t b) /\
  (forall r, bounded st r -> Forall (sdisj r) (regs_of t b)).
Proof.
  intros (Hi & Ho & Hk) H16 Hfi Hfo H. unfold alloc_term in H.
  destruct (t_kind t) as [| |ai ao] eqn:K.
  - (* FMMU terminal *)
    destruct (truthy (t_in t)) eqn:Ti; destruct (t_rw t && truthy (t_out t)) eqn:To;
      inversion H; subst; clear H;
      try (apply andb_prop in To; destruct To as [_ To]; apply (truthy_pos _ Ho) in To);
      try apply (truthy_pos _ Hi) in Ti; solve_inv K.
  - (* direct terminal *)
    destruct (truthy (t_in t)) eqn:Ti.
    + destruct (s_append _ _) as [pk1|] eqn:E1 in H; cbn [option_map] in H; [|discriminate].
      pose proof (s_append_size _ _ _ E1) as S1.
      cbn [dg d_data] in S1. rewrite zlen_zeros in S1 by exact Hi. apply (truthy_pos _ Hi) in Ti.
      destruct (t_rw t && truthy (t_out t)) eqn:To.
      * destruct (s_append_writer _ _) as [pk2|] eqn:E2 in H; cbn [option_map] in H; [|discriminate].
        inversion H; subst; clear H. pose proof (s_append_writer_size _ _ _ E2) as S2.
        cbn [dg d_data with_pk a_pk] in S2. rewrite zlen_zeros in S2 by exact Ho.
        apply andb_prop in To; destruct To as [_ To]; apply (truthy_pos _ Ho) in To.
        solve_inv K.
      * inversion H; subst; clear H. solve_inv K.
    + destruct (t_rw t && truthy (t_out t)) eqn:To.
      * destruct (s_append_writer _ _) as [pk2|] eqn:E2 in H; cbn [option_map] in H; [|discriminate].
        inversion H; subst; clear H. pose proof (s_append_writer_size _ _ _ E2) as S2.
        cbn [dg d_data with_pk a_pk] in S2. rewrite zlen_zeros in S2 by exact Ho.
        apply andb_prop in To; destruct To as [_ To]; apply (truthy_pos _ Ho) in To.
        solve_inv K.
      * inversion H; subst; clear H. solve_inv K.
  - (* Aerotech-style terminal *)
    destruct Hk as [Hai Hao].
    destruct (truthy (t_in t)) eqn:Ti.
    + destruct (s_append _ _) as [pk1|] eqn:E1 in H; cbn [option_map] in H; [|discriminate].
      pose proof (s_append_size _ _ _ E1) as S1.
      cbn [dg d_data] in S1. change (zlen [48]) with 1 in S1.
      destruct (t_rw t && truthy (t_out t)) eqn:To.
      * destruct (s_append_writer _ _) as [pkA|] eqn:EA in H; [|discriminate].
        destruct (s_append_writer pkA _) as [pk2|] eqn:E2 in H; cbn [option_map] in H; [|discriminate].
        inversion H; subst; clear H.
        pose proof (s_append_writer_size _ _ _ EA) as SA. pose proof (s_append_writer_size _ _ _ E2) as S2.
        cbn [dg d_data with_pk a_pk] in SA, S2. rewrite zlen_zeros in SA by lia. change (zlen [51]) with 1 in S2.
        solve_inv K.
      * inversion H; subst; clear H. solve_inv K.
    + destruct (t_rw t && truthy (t_out t)) eqn:To.
      * destruct (s_append_writer _ _) as [pkA|] eqn:EA in H; [|discriminate].
        destruct (s_append_writer pkA _) as [pk2|] eqn:E2 in H; cbn [option_map] in H; [|discriminate].
        inversion H; subst; clear H.
        pose proof (s_append_writer_size _ _ _ EA) as SA. pose proof (s_append_writer_size _ _ _ E2) as S2.
        cbn [dg d_data with_pk a_pk] in SA, S2. rewrite zlen_zeros in SA by lia. change (zlen [51]) with 1 in S2.
        solve_inv K.
      * inversion H; subst; clear H. solve_inv K.
Qed.

Fixpoint all_regs (ts : list term) (bs : list (option base * option base)) : list (base * Z) :=
  match ts, bs with
  | t :: ts', b :: bs' => regs_of t b ++ all_regs ts' bs'
  | _, _ => []
  end.

Lemma mono_trans a b c : mono a b -> mono b c -> mono a c.
Proof. unfold mono. lia. Qed.

Lemma FOP_app {A} (R : A -> A -> Prop) l1 l2 :
  ForallOrdPairs R l1 -> ForallOrdPairs R l2 -> (forall a, In a l1 -> Forall (R a) l2) ->
  ForallOrdPairs R (l1 ++ l2).
Proof.
  induction 1 as [|a l Ha Hl IH]; intros H2 Hc; cbn [app]; [exact H2|].
  constructor.
  - apply Forall_app. split; [exact Ha|]. apply Hc. now left.
  - apply IH; [exact H2|]. intros x Hx. apply Hc. now right.
Qed.

Lemma alloc_terms_inv ts : forall st st' bs, Forall wf_term ts ->
  16 <= psize st -> 0 <= fin_size st -> 0 <= fout_size st ->
  alloc_terms st ts = Some (st', bs) ->
  length bs = length ts /\ mono st st' /\ Forall (bounded st') (all_regs ts bs) /\
  ForallOrdPairs sdisj (all_regs ts bs) /\
  (forall r, bounded st r -> Forall (sdisj r) (all_regs ts bs)).
Proof.
  induction ts as [|t tl IH]; intros st st' bs Hwf H16 Hfi Hfo H; cbn [alloc_terms] in H.
  - inversion H; subst. cbn [all_regs length]. split; [reflexivity|]. split; [unfold mono; lia|].
    split; [constructor|]. split; [constructor|]. intros; constructor.
  - inversion Hwf as [|? ? Hwt Hwtl]; subst.
    destruct (alloc_term st t) as [[st1 b]|] eqn:E1; [|discriminate].
    destruct (alloc_terms st1 tl) as [[st2 bs']|] eqn:E2; [|discriminate].
    inversion H; subst; clear H.
    destruct (alloc_term_inv _ _ _ _ Hwt H16 Hfi Hfo E1) as (M1 & B1 & D1 & C1).
    assert (H16' : 16 <= psize st1) by (unfold mono in M1; lia).
    assert (Hfi' : 0 <= fin_size st1) by (unfold mono in M1; lia).
    assert (Hfo' : 0 <= fout_size st1) by (unfold mono in M1; lia).
    destruct (IH _ _ _ Hwtl H16' Hfi' Hfo' E2) as (L2 & M2 & B2 & D2 & C2).
    cbn [all_regs length]. split; [lia|]. split; [eapply mono_trans; eauto|].
    split; [apply Forall_app; split; [|exact B2]; eapply Forall_impl; [|exact B1]; intros; eapply bounded_mono; eauto|].
    split.
    + apply FOP_app; [exact D1|exact D2|]. intros a Ha. apply C2.
      rewrite Forall_forall in B1. apply B1, Ha.
    + intros r Hr. apply Forall_app. split; [apply C1, Hr|]. apply C2. eapply bounded_mono; eauto.
Qed.

(* absolute frame interval [start, start+size) of a symbolic region *)
Definition abs_start (in_pos out_pos : Z) (r : base * Z) : Z :=
  match fst r with
  | BNo a => a + 10
  | BIn off => in_pos + off + 10
  | BOut off => out_pos + off + 10
  end.
Definition adisj (in_pos out_pos : Z) (r1 r2 : base * Z) : Prop :=
  abs_start in_pos out_pos r1 + snd r1 <= abs_start in_pos out_pos r2 \/
  abs_start in_pos out_pos r2 + snd r2 <= abs_start in_pos out_pos r1.

Lemma FOP_strengthen {A} (P : A -> Prop) (R R' : A -> A -> Prop) l :
  (forall a b, P a -> P b -> R a b -> R' a b) -> Forall P l -> ForallOrdPairs R l -> ForallOrdPairs R' l.
Proof.
  intros HR HP H. induction H as [|a l Ha Hl IH]; [constructor|].
  inversion HP as [|? ? Pa Pl]; subst. constructor; [|apply IH, Pl].
  rewrite Forall_forall in *. intros x Hx. apply HR; auto.
Qed.

Lemma append_fmmu_inv st logical st2 in_pos out_pos lin lout :
  16 <= psize st -> 0 <= fin_size st -> 0 <= fout_size st ->
  append_fmmu st logical = Some (st2, (in_pos, out_pos, lin, lout)) ->
  in_pos = psize st /\ lin = logical /\ lout = logical + SterilePacket_logical_addr_inc /\
  out_pos = in_pos + (if truthy (fin_size st) then 12 + fin_size st else 0) /\
  psize st2 = out_pos + (if truthy (fout_size st) then 12 + fout_size st else 0) /\
  (truthy (fin_size st) = true -> out_pos <= Packet_MAXSIZE) /\
  (truthy (fout_size st) = true -> psize st2 <= Packet_MAXSIZE).
Proof.
  intros H16 Hfi Hfo H. unfold append_fmmu in H.
  destruct (truthy (fin_size st)) eqn:Ti.
  - destruct (s_append _ _) as [pk1|] eqn:E1 in H; [|discriminate].
    pose proof (s_append_size _ _ _ E1) as S1. cbn [dg d_data] in S1. rewrite zlen_zeros in S1 by exact Hfi.
    assert (M1 : p_size (sp pk1) <= Packet_MAXSIZE).
    { unfold s_append in E1. destruct (append (sp (a_pk st)) _) as [[p' [a b]]|] eqn:Ea in E1; [|discriminate].
      cbn [option_map fst] in E1. inversion E1; subst. apply append_inv in Ea. cbn [sp]. lia. }
    destruct (truthy (fout_size st)) eqn:To.
    + destruct (s_append_writer _ _) as [pk2|] eqn:E2 in H; cbn [option_map] in H; [|discriminate].
      pose proof (s_append_writer_size _ _ _ E2) as S2. cbn [dg d_data] in S2. rewrite zlen_zeros in S2 by exact Hfo.
      inversion H; subst; clear H. unfold psize. cbn [with_pk a_pk].
      unfold s_append_writer in E2. destruct (append (sp pk1) _) as [[p' [a b]]|] eqn:Ea in E2; [|discriminate].
      inversion E2; subst. apply append_inv in Ea. cbn [sp] in *. repeat split; try lia; try discriminate.
    + cbn [option_map] in H. inversion H; subst; clear H. unfold psize. cbn [with_pk a_pk].
      repeat split; try lia; try discriminate.
  - destruct (truthy (fout_size st)) eqn:To.
    + destruct (s_append_writer _ _) as [pk2|] eqn:E2 in H; cbn [option_map] in H; [|discriminate].
      pose proof (s_append_writer_size _ _ _ E2) as S2. cbn [dg d_data] in S2. rewrite zlen_zeros in S2 by exact Hfo.
      inversion H; subst; clear H. unfold psize. cbn [with_pk a_pk].
      unfold s_append_writer in E2. destruct (append (sp (a_pk st)) _) as [[p' [a b]]|] eqn:Ea in E2; [|discriminate].
      inversion E2; subst. apply append_inv in Ea. cbn [sp] in *. repeat split; try lia; try discriminate.
    + cbn [option_map] in H. inversion H; subst; clear H. unfold psize. cbn [with_pk a_pk].
      repeat split; try lia; try discriminate.
Qed.

Definition final_bound (in_pos fin fout : Z) (rg : base * Z) : Prop :=
  0 < snd rg /\
  match fst rg with
  | BNo a => 16 <= a /\ a + 12 + snd rg <= in_pos
  | BIn off => 0 <= off /\ off + snd rg <= fin
  | BOut off => 0 <= off /\ off + snd rg <= fout
  end.

Theorem allocate_regions ts logical r : Forall wf_term ts -> allocate ts logical = Some r ->
  exists bs in_pos out_pos,
    r_assign r = map (fun b => (resolve in_pos out_pos logical (logical + SterilePacket_logical_addr_inc) (fst b),
                                resolve in_pos out_pos logical (logical + SterilePacket_logical_addr_inc) (snd b))) bs /\
    length bs = length ts /\
    ForallOrdPairs (adisj in_pos out_pos) (all_regs ts bs) /\
    Forall (final_bound in_pos (r_fin r) (r_fout r)) (all_regs ts bs) /\
    16 <= in_pos /\
    out_pos = in_pos + (if truthy (r_fin r) then 12 + r_fin r else 0) /\
    p_size (sp (r_pk r)) = out_pos + (if truthy (r_fout r) then 12 + r_fout r else 0) /\
    p_size (sp (r_pk r)) <= Packet_MAXSIZE /\
    0 <= r_fin r < SterilePacket_logical_addr_inc /\ 0 <= r_fout r < SterilePacket_logical_addr_inc.
Proof.
  intros Hwf H. unfold allocate in H.
  destruct (alloc_terms init_astate ts) as [[st bs]|] eqn:E1; [|discriminate].
  destruct (append_fmmu st logical) as [[st2 [[[in_pos out_pos] lin] lout]]|] eqn:E2; [|discriminate].
  inversion H; subst r; clear H. cbn [r_assign r_fin r_fout r_pk].
  assert (I16 : psize init_astate = 16) by reflexivity.
  assert (Ifi : fin_size init_astate = 0) by reflexivity.
  assert (Ifo : fout_size init_astate = 0) by reflexivity.
  destruct (alloc_terms_inv ts init_astate _ _ Hwf ltac:(lia) ltac:(lia) ltac:(lia) E1) as (L & M & B & D & _).
  unfold mono in M. rewrite I16, Ifi, Ifo in M. destruct M as (_ & H16 & Hfi & Hfo & HM).
  assert (HM' : psize st <= Packet_MAXSIZE) by (apply HM; unfold Packet_MAXSIZE; lia).
  destruct (append_fmmu_inv _ _ _ _ _ _ _ H16 Hfi Hfo E2) as (Ein & El1 & El2 & Eout & Esz & Mi & Mo).
  subst lin lout. exists bs, in_pos, out_pos.
  split; [reflexivity|]. split; [exact L|].
  assert (FB : Forall (final_bound in_pos (fin_size st) (fout_size st)) (all_regs ts bs)).
  { eapply Forall_impl; [|exact B]. intros [[a|a|a] sz]; unfold bounded, final_bound; cbn [fst snd]; lia. }
  split.
  { eapply FOP_strengthen with (P := final_bound in_pos (fin_size st) (fout_size st)); [|exact FB|exact D].
    intros [[a|a|a] sa] [[b|b|b] sb]; unfold final_bound, sdisj, adisj, abs_start; cbn [fst snd];
      intros Ha Hb Hd; destruct (truthy (fin_size st)) eqn:Ti; unfold truthy in Ti;
      destruct (Z.eqb_spec (fin_size st) 0); try discriminate; lia. }
  split; [exact FB|]. split; [lia|]. split; [exact Eout|]. split; [exact Esz|].
  unfold SterilePacket_logical_addr_inc, Packet_MAXSIZE, psize in *.
  destruct (truthy (fin_size st)) eqn:Ti; destruct (truthy (fout_size st)) eqn:To;
    unfold truthy in Ti, To;
    destruct (Z.eqb_spec (fin_size st) 0); destruct (Z.eqb_spec (fout_size st) 0); try discriminate;
    repeat split; try lia;
    try (specialize (Mi eq_refl)); try (specialize (Mo eq_refl)); try lia.
Qed.

(* logical windows of different sync groups of one (single-process) master *)
Definition in_window (k : Z) (fin fout a : Z) : Prop :=
  fmmu_addr k <= a < fmmu_addr k + fin \/
  fmmu_addr k + SterilePacket_logical_addr_inc <= a < fmmu_addr k + SterilePacket_logical_addr_inc + fout.

Theorem windows_disjoint ts1 ts2 k1 k2 r1 r2 a1 a2 :
  Forall wf_term ts1 -> Forall wf_term ts2 -> k1 <> k2 ->
  allocate ts1 (fmmu_addr k1) = Some r1 -> allocate ts2 (fmmu_addr k2) = Some r2 ->
  in_window k1 (r_fin r1) (r_fout r1) a1 -> in_window k2 (r_fin r2) (r_fout r2) a2 -> a1 <> a2.
Proof.
  intros W1 W2 Hk A1 A2 I1 I2.
  destruct (allocate_regions _ _ _ W1 A1) as (? & ? & ? & _ & _ & _ & _ & _ & _ & _ & _ & F1 & O1).
  destruct (allocate_regions _ _ _ W2 A2) as (? & ? & ? & _ & _ & _ & _ & _ & _ & _ & _ & F2 & O2).
  unfold in_window, fmmu_addr, EtherCat_fmmu_stride, SterilePacket_logical_addr_inc in *. lia.
Qed.
