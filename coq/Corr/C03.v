From Verif Require Import Lib.Base Gen.Denote Gen.Cond.
(* one entry per with-block that was reached: did the model enter the body? *)
Definition run (l : list cond) : V := VL (map (fun c => VZ (if runs_body c then 1 else 0)) l).
