(* C18 Sync groups give each terminal disjoint, exactly-sized process data.
   Model: Ecat/Alloc.v (EBPFTerminal.allocate, AerotechBase.allocate,
   SterilePacket.append_fmmu, SyncGroupBase.allocate) on top of Ecat/Frame.v. *)
From Verif Require Import Ecat.Frame Ecat.Alloc Ecat.Alloc_proofs.

(* For EVERY list of terminals (any sizes, flags, addressing mode, including
   Aerotech-style allocators) whose allocation is accepted:
   - the reported frame position / logical address of each terminal area is
     `resolve` of its base (so logical - window base = position - datagram data start);
   - all regions (size = declared size) are pairwise disjoint in the frame;
   - a direct region lies inside its own datagram before the FMMU datagrams,
     an FMMU region inside the LRD (resp. LWR) data of length r_fin (r_fout);
   - the frame is not larger than MAXSIZE and both logical windows are shorter
     than the distance between them. *)
Theorem C18_regions : forall ts logical r, Forall wf_term ts -> allocate ts logical = Some r ->
  exists bs in_pos out_pos,
    r_assign r = map (fun b => (resolve in_pos out_pos logical (logical + SterilePacket_logical_addr_inc) (fst b),
                                resolve in_pos out_pos logical (logical + SterilePacket_logical_addr_inc) (snd b))) bs /\
    length bs = length ts /\
    ForallOrdPairs (adisj in_pos out_pos) (all_regs ts bs) /\
    Forall (final_bound in_pos (r_fin r) (r_fout r)) (all_regs ts bs) /\
    16 <= in_pos /\
    out_pos = in_pos + (if truthy (r_fin r) then 12 + r_fin r else 0) /\
    p_size (sp (r_pk r)) = out_pos + (if truthy (r_fout r) then 12 + r_fout r else 0) /\
    p_size (sp (r_pk r)) <= Packet_MAXSIZE /\
    0 <= r_fin r < SterilePacket_logical_addr_inc /\ 0 <= r_fout r < SterilePacket_logical_addr_inc.
Proof. exact allocate_regions. Qed.
Print Assumptions C18_regions.

(* logical address windows of different sync groups of one master are disjoint *)
Theorem C18_windows_disjoint : forall ts1 ts2 k1 k2 r1 r2 a1 a2,
  Forall wf_term ts1 -> Forall wf_term ts2 -> k1 <> k2 ->
  allocate ts1 (fmmu_addr k1) = Some r1 -> allocate ts2 (fmmu_addr k2) = Some r2 ->
  in_window k1 (r_fin r1) (r_fout r1) a1 -> in_window k2 (r_fin r2) (r_fout r2) a2 -> a1 <> a2.
Proof. exact windows_disjoint. Qed.
Print Assumptions C18_windows_disjoint.

(* a group too large for one frame is rejected: acceptance implies the size
   bound (C18_regions), and each refused append is refused for size/count only *)
Theorem C18_too_large_rejected : forall p d, append p d = None <->
  (p_size p + zlen (d_data d) + Packet_DATAGRAM_HEADER + Packet_DATAGRAM_TAIL > Packet_MAXSIZE \/
   zlen (p_data p) > Packet_append_maxcount).
Proof. exact Frame_proofs.append_rejects. Qed.

Example C18_nonvacuous :
  let t1 := {| t_kind := KFmmu; t_in := 4; t_out := 2; t_rw := true; t_pos := 1001; t_inoff := 4480; t_outoff := 4352 |} in
  let t2 := {| t_kind := KDirect; t_in := 6; t_out := 6; t_rw := true; t_pos := 1003; t_inoff := 4480; t_outoff := 4352 |} in
  let t3 := {| t_kind := KAero 8 12; t_in := 20; t_out := 30; t_rw := true; t_pos := 1004; t_inoff := 4480; t_outoff := 4352 |} in
  option_map r_assign (allocate [t1; t2; t3] (fmmu_addr 1)) =
    Some [(Some (112, Some 4096), Some (136, Some 6144));
          (Some (26, None), Some (44, None));
          (Some (116, Some 4100), Some (75, None))]
  /\ Forall wf_term [t1; t2; t3].
Proof. split; [vm_compute; reflexivity|]. repeat constructor; cbn; lia. Qed.
