From Verif Require Import Ecat.Fmmu.

Definition free (u : used) (j : nat) : Prop := nth_error u j = Some None.

Lemma index_none_spec l k : index_none l = Some k ->
  0 <= k < zlen l /\ nth_error l (Z.to_nat k) = Some None.
Proof.
  revert k. induction l as [|x l IH]; intros k H; [discriminate|].
  unfold zlen in *. cbn [length]. destruct x as [v|].
  - cbn [index_none] in H. destruct (index_none l) as [k'|]; [|discriminate].
    cbn [option_map] in H. assert (Hk : k = 1 + k') by congruence. subst k. clear H. destruct (IH k' eq_refl) as [R N]. split; [lia|].
    replace (Z.to_nat (1 + k')) with (S (Z.to_nat k')) by lia. exact N.
  - cbn [index_none] in H. injection H as <-. split; [lia|reflexivity].
Qed.

Lemma nth_error_firstn {A} (l : list A) : forall m j, (j < m)%nat ->
  nth_error (firstn m l) j = nth_error l j.
Proof.
  induction l as [|x l IH]; intros m j H.
  - rewrite firstn_nil. reflexivity.
  - destruct m; [lia|]. destruct j; [reflexivity|]. cbn. apply IH. lia.
Qed.

Lemma nth_error_rev {A} (l : list A) j : (j < length l)%nat ->
  nth_error (rev l) j = nth_error l (length l - S j).
Proof.
  intros H. destruct (nth_error l (length l - S j)) as [a|] eqn:E.
  - rewrite (nth_error_nth' _ a) by (rewrite rev_length; lia).
    rewrite rev_nth by lia. f_equal. apply nth_error_nth. exact E.
  - apply nth_error_None in E. lia.
Qed.

Lemma slot_free u w i : slot_index u w = Some i ->
  0 <= i < zlen u /\ free u (Z.to_nat i).
Proof.
  unfold slot_index, rev_slice, start_of, free. set (n := zlen u). intros H.
  assert (Hn : 0 <= n) by apply zlen_nonneg.
  set (start := if w then Z.min 1 (n - 1) else n - 1) in *.
  destruct (Z.ltb_spec start 0) as [Hs|Hs].
  - (* n = 0 *) assert (n = 0) by (subst start; destruct w; lia).
    replace (start + n) with start in H by lia.
    destruct (Z.ltb_spec start 0); [discriminate|lia].
  - assert (Hm : Z.min start (n - 1) = start) by (subst start; destruct w; lia).
    rewrite Hm in H. destruct (Z.ltb_spec start 0); [lia|].
    destruct (index_none _) as [k|] eqn:E; [|discriminate]. inversion H; subst i; clear H.
    apply index_none_spec in E. destruct E as [R N].
    unfold zlen, ztake in R, N. rewrite rev_length, firstn_length in R.
    assert (Hs1 : (Z.to_nat (start + 1) <= length u)%nat) by (unfold n, zlen in *; subst start; destruct w; lia).
    rewrite Nat.min_l in R by exact Hs1.
    rewrite nth_error_rev in N by (rewrite firstn_length, Nat.min_l by exact Hs1; lia).
    rewrite firstn_length, Nat.min_l in N by exact Hs1.
    rewrite nth_error_firstn in N by lia.
    split; [unfold n, zlen in *; lia|].
    replace (Z.to_nat (start - k)) with (Z.to_nat (start + 1) - S (Z.to_nat k))%nat by lia. exact N.
Qed.

Lemma set_at_length {A} (l : list A) : forall n v, length (set_at n v l) = length l.
Proof. induction l; intros [|n] v; simpl; auto. Qed.

Lemma set_at_same {A} (l : list A) : forall n v, (n < length l)%nat -> nth_error (set_at n v l) n = Some v.
Proof. induction l as [|x l IH]; intros [|n] v H; simpl in *; try lia; auto. apply IH. lia. Qed.

Lemma set_at_other {A} (l : list A) : forall n m v, n <> m -> nth_error (set_at n v l) m = nth_error l m.
Proof. induction l as [|x l IH]; intros [|n] [|m] v H; simpl; auto; try congruence. Qed.

Lemma py_set_nonneg {A} (u : list A) i v u' : 0 <= i -> py_set u i v = Some u' ->
  i < zlen u /\ u' = set_at (Z.to_nat i) v u.
Proof.
  unfold py_set. intros Hi. destruct (Z.ltb_spec i 0); [lia|].
  destruct (Z.leb_spec 0 i); [|lia]. destruct (Z.ltb_spec i (zlen u)); [|discriminate].
  simpl. intros E; inversion E. auto.
Qed.

(* ---- the invariant over all histories ---- *)
Record Inv (s : st) : Prop := {
  inv_live : forall i lg, In (i, lg) (live s) ->
             0 <= i < zlen (tbl s) /\ nth_error (tbl s) (Z.to_nat i) = Some (Some lg);
  inv_nodup : NoDup (map fst (live s));
  inv_free : forall j, (j < length (tbl s))%nat -> ~ In (Z.of_nat j) (map fst (live s)) -> free (tbl s) j }.

Lemma inv_init n : Inv (init n).
Proof.
  constructor; cbn [init tbl live].
  - intros i lg [].
  - constructor.
  - intros j Hj _. unfold free. rewrite repeat_length in Hj.
    rewrite (nth_error_nth' _ None) by (rewrite repeat_length; lia). f_equal. apply nth_repeat.
Qed.

Lemma remove_nth_in {A} (l : list A) : forall k x y, nth_error l k = Some x -> In y (remove_nth k l) -> In y l.
Proof. induction l as [|a l IH]; intros [|k] x y H I; simpl in *; auto; try discriminate. destruct I; eauto. Qed.

Lemma remove_nth_map_fst {A B} (l : list (A * B)) : forall k, map fst (remove_nth k l) = remove_nth k (map fst l).
Proof. induction l as [|a l IH]; intros [|k]; simpl; auto. now rewrite IH. Qed.

Lemma nodup_remove_nth {A} (l : list A) : forall k x, NoDup l -> nth_error l k = Some x ->
  NoDup (remove_nth k l) /\ ~ In x (remove_nth k l) /\ (forall y, In y l -> y = x \/ In y (remove_nth k l)).
Proof.
  induction l as [|a l IH]; intros [|k] x N H; simpl in *; try discriminate.
  - inversion H; subst. inversion N; subst. repeat split; auto. intros y [->|I]; auto.
  - inversion N as [|? ? Na Nl]; subst. destruct (IH _ _ Nl H) as (N1 & N2 & N3).
    repeat split.
    + constructor; auto. intros I. apply Na. eapply remove_nth_in; eauto.
    + intros [->|I]; auto. apply Na. eapply nth_error_In; eauto.
    + intros y [->|I]; auto. destruct (N3 _ I); auto.
Qed.

Lemma NoDup_app_one {A} (l : list A) x : NoDup l -> ~ In x l -> NoDup (l ++ [x]).
Proof.
  induction l as [|a l IH]; intros N H; simpl.
  - constructor; [intros []|constructor].
  - inversion N; subst. constructor.
    + rewrite in_app_iff. simpl. intros [I|[E|[]]]; [contradiction|]. apply H. left. congruence.
    + apply IH; [assumption|]. intros I. apply H. now right.
Qed.

Lemma step_inv s o : Inv s -> Inv (step s o).
Proof.
  intros [IL IN IF]. destruct o as [w lg|k]; cbn [step].
  - unfold map_enter. destruct (slot_index (tbl s) w) as [i|] eqn:Es; [|constructor; auto].
    destruct (slot_free _ _ _ Es) as [Ri Fi].
    destruct (py_set (tbl s) i (Some lg)) as [u'|] eqn:Ep; [|constructor; auto].
    apply py_set_nonneg in Ep; [|lia]. destruct Ep as [_ ->]. cbn [option_map].
    assert (Hnot : ~ In i (map fst (live s))).
    { intros I. apply in_map_iff in I. destruct I as ([i' lg'] & E & I). simpl in E; subst i'.
      destruct (IL _ _ I) as [_ N]. unfold free in Fi. congruence. }
    constructor; cbn [tbl live].
    + intros i' lg' I. apply in_app_or in I. unfold zlen. rewrite set_at_length. destruct I as [I|[E|[]]].
      * destruct (IL _ _ I) as [R N]. split; [exact R|].
        rewrite set_at_other; [exact N|]. intros E. apply Hnot. apply in_map_iff. exists (i', lg'). split; [simpl; lia|exact I].
      * inversion E; subst. split; [exact Ri|]. apply set_at_same. unfold zlen in Ri. lia.
    + rewrite map_app. simpl. apply NoDup_app_one; auto.
    + intros j Hj Hn. rewrite set_at_length in Hj. unfold free. rewrite map_app, in_app_iff in Hn. simpl in Hn.
      rewrite set_at_other; [apply IF; tauto|]. intros E. apply Hn. right. left. lia.
  - destruct (nth_error (live s) k) as [[i lg]|] eqn:Ek; [|constructor; auto].
    assert (Il : In (i, lg) (live s)) by (eapply nth_error_In; eauto).
    destruct (IL _ _ Il) as [Ri Ni].
    unfold map_exit. destruct (py_set (tbl s) i None) as [u'|] eqn:Ep; [|constructor; auto].
    apply py_set_nonneg in Ep; [|lia]. destruct Ep as [_ ->].
    assert (Ek' : nth_error (map fst (live s)) k = Some i) by (rewrite nth_error_map, Ek; reflexivity).
    destruct (nodup_remove_nth _ _ _ IN Ek') as (N1 & N2 & N3).
    constructor; cbn [tbl live].
    + intros i' lg' I. unfold zlen. rewrite set_at_length.
      assert (I0 : In (i', lg') (live s)) by (eapply remove_nth_in; eauto).
      destruct (IL _ _ I0) as [R N]. split; [exact R|].
      rewrite set_at_other; [exact N|]. intros E. apply N2. rewrite <- remove_nth_map_fst.
      apply in_map_iff. exists (i', lg'). split; [simpl; lia|exact I].
    + rewrite remove_nth_map_fst. exact N1.
    + intros j Hj Hn. rewrite set_at_length in Hj. unfold free.
      destruct (Nat.eq_dec (Z.to_nat i) j) as [<-|Ne].
      * apply set_at_same. unfold zlen in Ri. lia.
      * rewrite set_at_other by exact Ne. apply IF; [exact Hj|].
        intros I. destruct (N3 _ I) as [E|I']; [lia|]. apply Hn. now rewrite remove_nth_map_fst.
Qed.

Theorem reachable_inv n ops : Inv (fold_left step ops (init n)).
Proof.
  assert (G : forall s, Inv s -> Inv (fold_left step ops s)).
  { induction ops as [|o ops IH]; intros s H; cbn [fold_left]; [exact H|]. apply IH, step_inv, H. }
  apply G, inv_init.
Qed.

(* each live mapping uses a different, existing FMMU, which holds its address *)
Theorem distinct_slots n ops : let s := fold_left step ops (init n) in
  NoDup (map fst (live s)) /\
  forall i lg, In (i, lg) (live s) -> 0 <= i < Z.of_nat (length (tbl s)) /\ nth_error (tbl s) (Z.to_nat i) = Some (Some lg).
Proof. intros s. destruct (reachable_inv n ops) as [IL IN _]. split; [exact IN|exact IL]. Qed.

(* a mapping that gets a slot gets a free one; with no free slot it fails *)
Theorem full_fails u w lg : (forall j, ~ free u j) -> map_enter u w lg = None.
Proof.
  intros H. unfold map_enter. destruct (slot_index u w) as [i|] eqn:E; [|reflexivity].
  destruct (slot_free _ _ _ E) as [_ F]. elim (H _ F).
Qed.

Theorem enter_takes_free u w lg i u' : map_enter u w lg = Some (i, u') ->
  0 <= i < zlen u /\ free u (Z.to_nat i) /\ u' = set_at (Z.to_nat i) (Some lg) u.
Proof.
  unfold map_enter. destruct (slot_index u w) as [i0|] eqn:E; [|discriminate].
  destruct (slot_free _ _ _ E) as [R F].
  destruct (py_set u i0 (Some lg)) as [u0|] eqn:Ep; [|discriminate].
  simpl. intros H; inversion H; subst. apply py_set_nonneg in Ep; [|lia]. tauto.
Qed.

(* ending a mapping frees exactly its own FMMU *)
Theorem release_own u i u' : 0 <= i -> map_exit u i = Some u' ->
  free u' (Z.to_nat i) /\ length u' = length u /\ forall j, j <> Z.to_nat i -> nth_error u' j = nth_error u j.
Proof.
  intros Hi H. apply py_set_nonneg in H; [|exact Hi]. destruct H as [R ->].
  split; [apply set_at_same; unfold zlen in R; lia|]. split; [apply set_at_length|].
  intros j Hj. apply set_at_other. congruence.
Qed.
