(* Terminal.to_operational / get_state (ebpfcat/ethercat.py).
   The terminal is an arbitrary stream of AL-status words; the model returns
   the trace of register writes (W) and status reads (R) and the outcome. *)
From Verif Require Export Lib.Base Generated.Consts.

Inductive ev := W (z : Z) | R (z : Z).
Inductive outcome := Returned | FellOff | Raised | Waiting | BadReply.

Definition valid_state (s : Z) : bool := existsb (Z.eqb s) MachineState_order.

(* order[order.index(state) + 1:] *)
Fixpoint tail_after (s : Z) (l : list Z) : list Z :=
  match l with
  | [] => []
  | x :: tl => if x =? s then tl else tail_after s tl
  end.

(* while current is not state: state, error, status = await self.get_state() ... *)
Fixpoint poll (current : Z) (rs : list Z) : list ev * option outcome * list Z :=
  match rs with
  | [] => ([], Some Waiting, [])
  | r :: rs' =>
      if negb (valid_state (Z.land r 15)) then ([R r], Some BadReply, rs')
      else if Z.land r 16 =? 0 then
        if Z.land r 15 =? current then ([R r], None, rs')
        else let '(t, o, rest) := poll current rs' in (R r :: t, o, rest)
      else ([R r], Some Raised, rs')
  end.

Fixpoint go (cs : list Z) (state target : Z) (rs : list Z) : list ev * outcome :=
  match cs with
  | [] => ([], FellOff)
  | c :: cs' =>
      if state >=? target then ([], Returned)
      else if c =? state then let '(t, o) := go cs' state target rs in (W c :: t, o)
      else
        let '(t, o, rest) := poll c rs in
        match o with
        | Some out => (W c :: t, out)
        | None => let '(t2, o2) := go cs' c target rest in (W c :: t ++ t2, o2)
        end
  end.

Definition ack_word : Z := 17.  (* 0x11: INIT + acknowledge *)

Definition to_operational (target : Z) (rs : list Z) : list ev * outcome :=
  match rs with
  | [] => ([], Waiting)
  | r0 :: rs' =>
      if negb (valid_state (Z.land r0 15)) then ([R r0], BadReply)
      else
        let err := negb (Z.land r0 16 =? 0) in
        let st := if err then MachineState_INIT else Z.land r0 15 in
        let '(t, o) := go (tail_after st MachineState_order) st target rs' in
        (R r0 :: (if err then [W ack_word] else []) ++ t, o)
  end.

(* ---- specification vocabulary ---- *)
Definition writes (t : list ev) : list Z :=
  flat_map (fun e => match e with W z => [z] | R _ => [] end) t.

(* the states strictly above `st` up to `tg`, in walking order *)
Definition path (st tg : Z) : list Z :=
  filter (fun c => (st <? c) && (c <=? tg))
         [MachineState_PRE_OPERATIONAL; MachineState_SAFE_OPERATIONAL; MachineState_OPERATIONAL].

(* a new state is requested only when the previously requested one was
   reported (without error) in between *)
Fixpoint ordered (pending : option Z) (t : list ev) : bool :=
  match t with
  | [] => true
  | W z :: tl => match pending with Some _ => false | None => ordered (Some z) tl end
  | R r :: tl =>
      match pending with
      | Some c => if (Z.land r 15 =? c) && (Z.land r 16 =? 0) then ordered None tl else ordered pending tl
      | None => ordered None tl
      end
  end.

(* last reported state in a trace (status reads only), default d *)
Definition last_report (t : list ev) (d : Z) : Z :=
  fold_left (fun acc e => match e with R r => Z.land r 15 | W _ => acc end) t d.

Definition has_error_read (t : list ev) : bool :=
  existsb (fun e => match e with R r => negb (Z.land r 16 =? 0) | W _ => false end) t.
