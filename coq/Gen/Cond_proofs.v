From Verif Require Import Gen.Arith Gen.Denote Gen.Denote_proofs Gen.Cond.

Theorem jumps_spec : forall c negative, jumps c negative = if negative then negb (ctruth c) else ctruth c.
Proof.
  induction c as [t|a IHa b IHb|a IHa b IHb|a IHa]; intros negative; cbn [jumps ctruth].
  - reflexivity.
  - rewrite IHa, IHb. destruct negative, (ctruth a), (ctruth b); reflexivity.
  - rewrite IHa, IHb. destruct negative, (ctruth a), (ctruth b); reflexivity.
  - rewrite IHa. destruct negative, (ctruth a); reflexivity.
Qed.

Theorem with_block_spec c : runs_body c = ctruth c /\ runs_else c = negb (ctruth c).
Proof. unfold runs_body, runs_else. rewrite jumps_spec. destruct (ctruth c); split; reflexivity. Qed.

(* ---------------- atoms ---------------- *)
Definition fits_s (w x : Z) : Prop := - (w / 2) <= x < w / 2.

Lemma sx64_cong v x : cong W64 v x -> fits_s W64 x -> 0 <= v < W64 -> sx64 v = x.
Proof.
  unfold cong, fits_s, sx64, W64. intros C F R. rewrite (Z.mod_small v) in C by lia.
  destruct (Z.ltb_spec v (18446744073709551616 / 2)); lia.
Qed.
Lemma sx32_cong v x : cong W32 v x -> fits_s W32 x -> sx32 v = x.
Proof.
  unfold cong, fits_s, sx32, W32. intros C F.
  destruct (Z.ltb_spec (v mod 4294967296) (4294967296 / 2)); lia.
Qed.

(* the left operand re-extended from 32 to 64 bits by << 32, >> 32 (arithmetic) *)
Lemma reextend v x : cong W32 v x -> fits_s W32 x -> 0 <= v < W64 ->
  sx64 (alu_at 12 true (alu_at 6 true v 32) 32) = x.
Proof.
  unfold cong, fits_s, alu_at, alu, width, sx64, W64, W32. cbn [Z.eqb Pos.eqb]. intros C F R.
  change (32 mod 18446744073709551616) with 32. change (32 mod 64) with 32.
  rewrite (Z.mod_small v) by lia.
  rewrite Z.shiftl_mul_pow2, Z.shiftr_div_pow2 by lia. change (2 ^ 32) with 4294967296.
  change (18446744073709551616 / 2) with 9223372036854775808.
  rewrite (Z.mod_mod (v * 4294967296)) by lia.
  destruct (Z.ltb_spec ((v * 4294967296) mod 18446744073709551616) 9223372036854775808);
    match goal with |- (if ?a <? ?b then _ else _) = _ => destruct (Z.ltb_spec a b) end; lia.
Qed.

(* a signed comparison atom evaluates to the exact comparison when both
   values fit the (signed) width they are compared at: 32 bits when both
   operands report 32 bits, 64 bits otherwise (a 32-bit left operand is
   re-extended) *)
Theorem cmp_signed_exact op a b :
  esigned a || esigned b = true ->
  let la := snd (impl a None) in
  let reqb := if la then Some true else None in
  ok a None -> (small_constant b = None -> ok b reqb) ->
  (match small_constant b with Some imm => True | None => True end) ->
  let rb := match small_constant b with Some _ => false | None => snd (impl b reqb) end in
  fits_s (if la then W64 else W32) (exact a) ->
  fits_s (if la || rb then W64 else W32) (exact b) ->
  cmp_impl op a b = cmp_exact op (exact a) (exact b).
Proof.
  intros Hs la reqb Ha Hb _ rb Fa Fb. unfold cmp_impl.
  pose proof (impl_inv a None Ha) as [Ra Ca]. cbn [eff] in Ca. fold la in Ca.
  destruct (impl a None) as [va la'] eqn:Ea. cbn [fst snd] in *. subst la. subst reqb. rewrite Hs.
  destruct (small_constant b) as [imm|] eqn:Sb.
  - (* immediate *)
    destruct (small_constant_spec _ _ Sb) as [-> Ri]. cbn [exact] in *. subst rb. cbn [negb andb orb] in *.
    rewrite orb_false_r in Fb.
    destruct la'; cbn [negb andb].
    + rewrite (sx64_cong va (exact a) Ca Fa Ra).
      rewrite (sx64_cong (imm mod W64) imm); [reflexivity|apply cong_mod; reflexivity|exact Fb|apply Z.mod_pos_bound; reflexivity].
    + rewrite (sx32_cong va (exact a) Ca Fa).
      rewrite (sx32_cong (imm mod W64) imm); [reflexivity| |exact Fb].
      apply (cong_W64 false). apply cong_mod. reflexivity.
  - specialize (Hb eq_refl). pose proof (impl_inv b _ Hb) as [Rb Cb].
    destruct (impl b _) as [vb rb'] eqn:Eb. cbn [fst snd] in *. subst rb.
    destruct la'; cbn [negb andb orb] in *.
    + cbn [eff] in Cb. rewrite (sx64_cong va _ Ca Fa Ra), (sx64_cong vb _ Cb Fb Rb). reflexivity.
    + cbn [eff] in Cb. destruct rb'; cbn [negb andb].
      * rewrite (reextend va _ Ca Fa Ra), (sx64_cong vb _ Cb Fb Rb). reflexivity.
      * rewrite (sx32_cong va _ Ca Fa), (sx32_cong vb _ Cb Fb). reflexivity.
Qed.

(* ---------------- unsigned atoms ---------------- *)
Lemma alu_range code l a b : 0 <= a < width l -> 0 <= b < width l -> 0 <= alu code l a b < width l.
Proof.
  intros Ra Rb. pose proof (width_pos l) as Wp. unfold alu.
  change (if l then W64 else W32) with (width l). change (if l then 64 else 32) with (wbits l).
  assert (M : forall z, 0 <= z mod width l < width l) by (intros z; apply Z.mod_pos_bound; exact Wp).
  assert (Hb : 0 <= wbits l) by (destruct l; cbn; lia).
  assert (Hm : 0 <= b mod wbits l) by (apply Z.mod_pos_bound; destruct l; cbn; lia).
  destruct (code =? 0); [apply M|]. destruct (code =? 1); [apply M|]. destruct (code =? 2); [apply M|].
  destruct (code =? 3).
  { destruct (Z.eqb_spec b 0); [lia|]. assert (0 <= a / b <= a) by (split; [apply Z.div_pos; lia|apply Z.div_le_upper_bound; nia]). lia. }
  destruct (code =? 4). { rewrite width_pow in *. apply lor_range; assumption. }
  destruct (code =? 5). { rewrite width_pow in *. apply land_range; assumption. }
  destruct (code =? 6); [apply M|].
  destruct (code =? 7).
  { rewrite Z.shiftr_div_pow2 by exact Hm. assert (0 < 2 ^ (b mod wbits l)) by (apply Z.pow_pos_nonneg; lia).
    assert (0 <= a / 2 ^ (b mod wbits l) <= a) by (split; [apply Z.div_pos; lia|apply Z.div_le_upper_bound; nia]). lia. }
  destruct (code =? 8); [apply M|].
  destruct (code =? 9). { destruct (Z.eqb_spec b 0); [lia|]. pose proof (Z.mod_pos_bound a b ltac:(lia)). lia. }
  destruct (code =? 10). { rewrite width_pow in *. apply lxor_range; assumption. }
  destruct (code =? 11); [lia|]. destruct (code =? 12); [apply M|]. lia.
Qed.

Lemma alu_at_range code l a b : 0 <= alu_at code l a b < width l.
Proof. unfold alu_at. apply alu_range; apply Z.mod_pos_bound; apply width_pos. Qed.

(* the upper half of a register holding a 32-bit result is zero *)
Definition clean (e : expr) (req : option bool) : Prop :=
  fst (impl e req) < width (eff req (snd (impl e req))).
Definition plain (e : expr) : bool := match e with ENeg _ | EAbs _ => false | _ => true end.

Lemma clean_long e : ok e (Some true) -> clean e (Some true).
Proof. intros H. destruct (impl_inv e _ H) as [R _]. unfold clean. cbn [eff width]. lia. Qed.

Lemma clean_none e : plain e = true -> esigned e = false -> ok e None -> clean e None.
Proof.
  unfold clean. destruct e as [v|c l sg|raw size sg|op a b|a|a]; cbn [plain]; try discriminate; intros _ Hs Hok.
  - cbn [impl fst snd eff esigned ok] in *. apply Z.ltb_ge in Hs.
    destruct (Z.leb_spec (-2147483648) v); [|lia]. destruct (Z.ltb_spec v 4294967296); cbn [andb negb width];
      rewrite Z.mod_small by (unfold W64 in *; lia); unfold W64, W32 in *; lia.
  - cbn [impl fst snd eff esigned ok] in *. subst sg. destruct Hok as [R Hl]. rewrite Z.mod_small by lia.
    destruct l; cbn [width]; [lia|]. apply Hl. reflexivity.
  - cbn [impl fst snd eff esigned ok] in *. subst sg. cbn [andb]. destruct Hok as [Hin R].
    destruct Hin as [<-|[<-|[<-|[<-|[]]]]]; cbn [Nat.eqb width]; unfold W64, W32; cbn in R; lia.
  - cbn [impl]. destruct (impl a None) as [va la] eqn:Ea. cbn [eff].
    destruct (small_constant b); [|destruct (impl b (Some la))]; cbn [fst snd]; apply alu_at_range.
Qed.

(* when both operands are unsigned the jump compares the two registers as
   64-bit numbers; they hold the exact values *)
Lemma unsigned_values a b :
  esigned a || esigned b = false ->
  let la := snd (impl a None) in
  let reqb := if la then Some true else None in
  ok a None -> (small_constant b = None -> ok b reqb) ->
  clean a None -> (small_constant b = None -> clean b reqb) ->
  let rb := match small_constant b with Some _ => false | None => snd (impl b reqb) end in
  0 <= exact a < width la -> 0 <= exact b < width (la || rb) ->
  fst (impl a None) = exact a /\
  match small_constant b with Some imm => imm mod W64 | None => fst (impl b reqb) end = exact b.
Proof.
  intros Hs la reqb Ha Hb Ca Cb rb Fa Fb.
  pose proof (impl_inv a None Ha) as [Ra Ia]. cbn [eff] in Ia. unfold clean in Ca. cbn [eff] in Ca. fold la in Ia, Ca.
  split.
  - unfold cong in Ia. rewrite (Z.mod_small (fst (impl a None))), (Z.mod_small (exact a)) in Ia by lia. exact Ia.
  - destruct (small_constant b) as [imm|] eqn:Sb.
    + destruct (small_constant_spec _ _ Sb) as [-> Ri]. cbn [exact] in *. apply Z.mod_small.
      subst rb. rewrite orb_false_r in Fb. pose proof (width_le la). lia.
    + specialize (Hb eq_refl). specialize (Cb eq_refl). pose proof (impl_inv b reqb Hb) as [Rb Ib].
      unfold clean in Cb. subst rb.
      assert (E : eff reqb (snd (impl b reqb)) = la || snd (impl b reqb)) by (subst reqb; destruct la; reflexivity).
      rewrite E in *. unfold cong in Ib.
      rewrite (Z.mod_small (fst (impl b reqb))), (Z.mod_small (exact b)) in Ib by lia. exact Ib.
Qed.

Theorem cmp_unsigned_exact op a b :
  esigned a || esigned b = false ->
  let la := snd (impl a None) in
  let reqb := if la then Some true else None in
  ok a None -> (small_constant b = None -> ok b reqb) ->
  clean a None -> (small_constant b = None -> clean b reqb) ->
  let rb := match small_constant b with Some _ => false | None => snd (impl b reqb) end in
  0 <= exact a < width la -> 0 <= exact b < width (la || rb) ->
  cmp_impl op a b = cmp_exact op (exact a) (exact b).
Proof.
  intros Hs la reqb Ha Hb Ca Cb rb Fa Fb.
  destruct (unsigned_values a b Hs Ha Hb Ca Cb Fa Fb) as [Ea Eb].
  unfold cmp_impl. fold la. destruct (impl a None) as [va la'] eqn:E1. cbn [fst snd] in *. subst la. rewrite Hs.
  subst reqb. destruct (small_constant b); [|destruct (impl b _) as [vb rb']; cbn [fst] in Eb]; rewrite Ea, Eb; reflexivity.
Qed.

Theorem jset_unsigned_exact a b :
  esigned a || esigned b = false ->
  let la := snd (impl a None) in
  let reqb := if la then Some true else None in
  ok a None -> (small_constant b = None -> ok b reqb) ->
  clean a None -> (small_constant b = None -> clean b reqb) ->
  let rb := match small_constant b with Some _ => false | None => snd (impl b reqb) end in
  0 <= exact a < width la -> 0 <= exact b < width (la || rb) ->
  jset_impl a b = negb (Z.land (exact a) (exact b) =? 0).
Proof.
  intros Hs la reqb Ha Hb Ca Cb rb Fa Fb.
  destruct (unsigned_values a b Hs Ha Hb Ca Cb Fa Fb) as [Ea Eb].
  unfold jset_impl. fold la. destruct (impl a None) as [va la'] eqn:E1. cbn [fst snd] in *. subst la. rewrite Hs.
  subst reqb. destruct (small_constant b); [|destruct (impl b _) as [vb rb']; cbn [fst] in Eb]; rewrite Ea, Eb; reflexivity.
Qed.
