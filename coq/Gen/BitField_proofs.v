From Verif Require Import Gen.BitField.

Lemma testbit_ones_shift pos bits i : 0 <= pos -> 0 <= bits -> 0 <= i ->
  Z.testbit (fmask pos bits) i = (pos <=? i) && (i <? pos + bits).
Proof.
  intros Hp Hb Hi. unfold fmask. rewrite Z.shiftl_spec by lia.
  destruct (Z.leb_spec pos i).
  - rewrite Z.testbit_ones_nonneg by lia. cbn [andb]. destruct (Z.ltb_spec (i - pos) bits), (Z.ltb_spec i (pos + bits)); try reflexivity; lia.
  - rewrite Z.testbit_neg_r by lia. reflexivity.
Qed.

(* bit by bit: inside the field the new value, outside the old byte *)
Theorem set_field_bits b v pos bits i : 0 <= pos -> 0 <= bits -> 0 <= i ->
  Z.testbit (set_field b v pos bits) i = if (pos <=? i) && (i <? pos + bits) then Z.testbit v (i - pos) else Z.testbit b i.
Proof.
  intros Hp Hb Hi. unfold set_field. rewrite Z.lor_spec, !Z.land_spec, Z.lnot_spec by lia.
  rewrite testbit_ones_shift by lia. rewrite Z.shiftl_spec by lia.
  destruct ((pos <=? i) && (i <? pos + bits)); cbn [andb negb orb]; [rewrite orb_false_r | ]; reflexivity.
Qed.

(* reading the field back gives the value modulo 2^bits - also for negative values and values that do not fit *)
Theorem get_set_same b v pos bits : 0 <= pos -> 0 <= bits -> get_field (set_field b v pos bits) pos bits = v mod 2 ^ bits.
Proof.
  intros Hp Hb. apply Z.bits_inj'. intros i Hi. unfold get_field.
  rewrite Z.shiftr_spec, Z.land_spec by lia. rewrite testbit_ones_shift by lia. rewrite set_field_bits by lia.
  destruct (Z.ltb_spec i bits).
  - rewrite Z.mod_pow2_bits_low by lia.
    replace ((pos <=? i + pos) && (i + pos <? pos + bits)) with true by lia. cbn [andb].
    rewrite andb_true_r. f_equal. lia.
  - rewrite Z.mod_pow2_bits_high by lia.
    replace ((pos <=? i + pos) && (i + pos <? pos + bits)) with false by lia. apply andb_false_r.
Qed.

(* every other field of the same byte keeps its value *)
Theorem get_set_other b v pos bits pos' bits' : 0 <= pos -> 0 <= bits -> 0 <= pos' -> 0 <= bits' ->
  pos + bits <= pos' \/ pos' + bits' <= pos ->
  get_field (set_field b v pos bits) pos' bits' = get_field b pos' bits'.
Proof.
  intros Hp Hb Hp' Hb' Hd. apply Z.bits_inj'. intros i Hi. unfold get_field.
  rewrite !Z.shiftr_spec, !Z.land_spec by lia. rewrite testbit_ones_shift by lia. rewrite set_field_bits by lia.
  destruct ((pos' <=? i + pos') && (i + pos' <? pos' + bits')) eqn:E; [| rewrite !andb_false_r; reflexivity].
  replace ((pos <=? i + pos') && (i + pos' <? pos + bits)) with false by lia. reflexivity.
Qed.

(* the byte stays a byte *)
Theorem set_field_byte b v pos bits : 0 <= b < 256 -> 0 <= pos -> 0 <= bits -> pos + bits <= 8 -> 0 <= set_field b v pos bits < 256.
Proof.
  intros Hb Hp Hn H8.
  assert (Hbit : forall i, 8 <= i -> Z.testbit (set_field b v pos bits) i = false).
  { intros i Hi. rewrite set_field_bits by lia. replace ((pos <=? i) && (i <? pos + bits)) with false by lia.
    destruct (Z.eq_dec b 0) as [-> | Hnz]; [apply Z.testbit_0_l|].
    apply Z.bits_above_log2; [lia|]. assert (Z.log2 b < 8) by (apply Z.log2_lt_pow2; lia). lia. }
  assert (Hnn : 0 <= set_field b v pos bits).
  { unfold set_field. apply Z.lor_nonneg. split.
    - apply Z.land_nonneg. left. unfold fmask. apply Z.shiftl_nonneg. rewrite Z.ones_equiv. assert (0 < 2 ^ bits) by (apply Z.pow_pos_nonneg; lia). lia.
    - apply Z.land_nonneg. right. lia. }
  split; [exact Hnn|].
  destruct (Z.eq_dec (set_field b v pos bits) 0) as [E | Hnz]; [rewrite E; lia|].
  destruct (Z.ltb_spec (set_field b v pos bits) 256) as [Hlt | Hge]; [exact Hlt|]. exfalso.
  assert (Hl : 8 <= Z.log2 (set_field b v pos bits)) by (apply Z.log2_le_pow2; lia).
  specialize (Hbit _ Hl). rewrite Z.bit_log2 in Hbit by lia. discriminate.
Qed.

(* one-bit fields *)
Theorem set_flag_bits b t pos i : 0 <= pos -> 0 <= i ->
  Z.testbit (set_flag b t pos) i = if i =? pos then t else Z.testbit b i.
Proof.
  intros Hp Hi. unfold set_flag. assert (H1 : Z.testbit (Z.shiftl 1 pos) i = (i =? pos)).
  { rewrite Z.shiftl_spec by lia. destruct (Z.ltb_spec i pos).
    - rewrite Z.testbit_neg_r by lia. symmetry. apply Z.eqb_neq. lia.
    - destruct (i - pos) as [|p|p] eqn:E; [| destruct p; cbn; symmetry; apply Z.eqb_neq; lia | lia].
      cbn. symmetry. apply Z.eqb_eq. lia. }
  destruct t.
  - rewrite Z.lor_spec, H1. destruct (i =? pos); [apply orb_true_r | apply orb_false_r].
  - rewrite Z.land_spec, Z.lnot_spec, H1 by lia. destruct (i =? pos); [apply andb_false_r | apply andb_true_r].
Qed.
