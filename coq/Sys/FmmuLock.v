(* The logical address windows of processes sharing an interface
   (ebpfcat/lock.py FMMULock): a 512-bit map in a shared file says which 9-bit
   window numbers are taken; every change of the map is made under an exclusive
   file lock, so `alloc` and `release` are atomic. *)
From Verif Require Export Lib.Base.

Record fstate := { used : list Z; held : list (Z * Z) }.     (* window numbers set in the map; (process, window number) *)
Inductive fev := Alloc (p a : Z) | Release (p : Z).

Definition zmem (x : Z) (l : list Z) : bool := existsb (Z.eqb x) l.
Definition fstep (s : fstate) (e : fev) : fstate :=
  match e with
  | Alloc p a =>
      (* the process draws numbers until it finds one that is free in the map; then sets the bit *)
      if zmem a (used s) || (a <=? 0) || (512 <=? a) then s
      else {| used := a :: used s; held := (p, a) :: held s |}
  | Release p =>
      match find (fun h => fst h =? p) (held s) with
      | Some (_, a) => {| used := filter (fun x => negb (x =? a)) (used s); held := filter (fun h => negb (fst h =? p)) (held s) |}
      | None => s
      end
  end.

(* the window of number a: 2^22 addresses; a process hands out 4096-byte blocks inside it, one per sync group *)
Definition window_lo (a : Z) : Z := a * 4194304.
Definition window_hi (a : Z) : Z := (a + 1) * 4194304.
Definition group_addr (a k : Z) : Z := window_lo a + k * 4096.        (* get_next_addr: k = 1, 2, ... *)

(* the pinned tree: the creator of the file wrote its map WITHOUT the lock, after a joiner may have allocated *)
Inductive fev_pinned := PCreate | PJoinAlloc (p a : Z) | PCreatorWrite.
Definition fstep_pinned (s : fstate) (e : fev_pinned) : fstate :=
  match e with
  | PCreate => {| used := used s; held := (0, 1) :: held s |}                   (* the creator takes window 1 *)
  | PJoinAlloc p a => if zmem a (used s) then s else {| used := a :: used s; held := (p, a) :: held s |}
  | PCreatorWrite => {| used := [1]; held := held s |}                          (* b'\2' + 63 zero bytes over whatever is there *)
  end.

(* why the lock matters for removals too: a removal is read-modify-write of one map byte.  Without mutual exclusion against
   allocations it splits into a read (snapshot of the byte, here of the whole map) and a write of the snapshot minus the own bit *)
Inductive fev_split := SAlloc (p a : Z) | SRelRead (p : Z) | SRelWrite (p : Z).
Record sstate := { s_f : fstate; s_snap : list (Z * list Z) }.
Definition sstep (s : sstate) (e : fev_split) : sstate :=
  match e with
  | SAlloc p a => {| s_f := fstep (s_f s) (Alloc p a); s_snap := s_snap s |}
  | SRelRead p => {| s_f := s_f s; s_snap := (p, used (s_f s)) :: s_snap s |}
  | SRelWrite p =>
      match find (fun h => fst h =? p) (held (s_f s)), find (fun h => fst h =? p) (s_snap s) with
      | Some (_, a), Some (_, snap) =>
          {| s_f := {| used := filter (fun x => negb (x =? a)) snap; held := filter (fun h => negb (fst h =? p)) (held (s_f s)) |}; s_snap := s_snap s |}
      | _, _ => s
      end
  end.
