"""C16: Terminal.sdo_write / sdo_read through the real mailbox code
(mbx_send / mbx_recv / roundtrip / sendloop) against a protocol-conformant
SDO server on the simulated bus, and against Ecat/Sdo.v"""
import asyncio
import logging
import struct

from .common import Check, Err, cbool, cnat, cz, czlist
from .sim_bus import SimBus, SimTerminal, attach
from .sim_mailbox import SdoServer

logging.disable(logging.CRITICAL)


class C16(Check):
    pid = "C16"
    props_file = "Props/C16.v"
    corr_imports = ["Ecat.Sdo", "Corr.C16"]
    shard = 60
    technique = "Coq proof (client and conformant server composed: induction over the segment sequence for all lengths and mailbox sizes) + differential correspondence: real sdo_write/sdo_read through the real mailbox code against a strict SDO server on the simulated bus"
    trusted = ["harness/sim_mailbox.py: the SDO server / mailbox sync-manager behaviour written from ETG.1000.6 (its responses are also compared with the Coq server `ul_responses`)",
               "harness/sim_bus.py"]
    assumptions = ["mailbox sizes of at least 24 bytes", "every response is positive (aborting terminals are not modelled)",
                   "unrelated mail only arrives before the first response of an upload (later the client raises, which C16 does not cover)"]

    # case: {"kind": "up"|"down", "n": len, "mbx": size, "sub": int|None, "delay": polls, "unrelated": k, "seed": s}
    def corpus(self):
        out = []
        for kind in ("up", "down"):
            for sub in (3, None):
                for mbx in (24, 32, 128):
                    for n in (0, 1, 4, 5, mbx - 17, mbx - 16, mbx - 15, mbx - 9, 2 * mbx, 2 * mbx - 26, 2 * mbx - 25, 2 * mbx - 24,
                              3 * mbx - 34, 3 * mbx - 35, 4 * mbx - 43, 2 * mbx - 25 - 7, 2 * mbx - 25 - 6):
                        out.append({"kind": kind, "n": max(n, 0), "mbx": mbx, "sub": sub, "delay": 0, "unrelated": 0, "seed": n})
        return out

    def gen_cases(self):
        rng = self.rng
        out = []
        for _ in range(150 if self.tier == "quick" else 2500):
            mbx = rng.choice([24, 32, 48, 64, 128, 256])
            r = rng.random()
            if r < 0.3:
                n = rng.randint(0, 8)
            elif r < 0.6:
                n = rng.randint(max(0, mbx - 20), mbx + 4)
            else:
                k = rng.randint(1, 4)       # around k further segments
                n = max(0, (mbx - 16) + k * (mbx - 9) + rng.choice([0, 0, 0, -1, 1, -7, -6, rng.randint(-8, 8)]))
            kind = rng.choice(["up", "down"])
            mbx_in = mbx if rng.random() < 0.6 else rng.choice([24, 32, 48, 64, 128, 256])     # the two mailboxes need not have one size
            out.append({"kind": kind, "n": n, "mbx": mbx, "mbx_in": mbx_in, "sub": rng.choice([None, 0, 1, 7, 255]), "delay": rng.choice([0, 0, 1, 3]),
                        "unrelated": rng.choice([0, 0, 0, 1, 2]) if kind == "up" else 0, "seed": rng.randrange(1 << 30)})
        import random
        rng = random.Random(self.seed + 16)      # its own stream: the cases above stay what they were
        for _ in range(30 if self.tier == "quick" else 400):
            # two transfers of one terminal started together: the second begins while the first still waits for its (delayed) response
            mbx = rng.choice([24, 32, 64, 128])
            pick = lambda: rng.choice([rng.randint(1, 4), rng.randint(1, 4), rng.randint(5, mbx - 17), mbx + rng.randint(0, 40)])      # noqa
            out.append({"kind": rng.choice(["up", "down"]), "n": pick(), "mbx": mbx, "mbx_in": mbx, "sub": rng.choice([1, 7, 255, None]),
                        "delay": rng.choice([0, 3, 8, 10, 12, 20]), "unrelated": 0, "seed": rng.randrange(1 << 30),
                        "also": {"kind": rng.choice(["up", "down"]), "n": pick(), "seed": rng.randrange(1 << 30)}})
        return out

    def value(self, case):
        import random
        r = random.Random(case["seed"])
        return bytes(r.randrange(256) for _ in range(case["n"]))

    def run_impl(self, case):
        from ebpfcat.ebpfcat import SimpleEtherCat
        from ebpfcat.ethercat import Terminal, EtherCatError
        val = self.value(case)
        index, sub, mbx = 0x8000 + (case["seed"] & 0xff), case["sub"], case["mbx"]
        mbx_in = case.get("mbx_in", mbx)          # "mbx": the mailbox the master writes, "mbx_in": the one it reads

        async def both(ec, t, srv, key):
            also = case["also"]
            val2 = self.value(also)
            index2 = index ^ 0x100
            key2 = (index2, "CA" if sub is None else sub)

            async def one(kind, idx, k, v):
                try:
                    if kind == "up":
                        srv.objects[k] = v
                        return await asyncio.wait_for(t.sdo_read(idx, sub), 120)
                    await asyncio.wait_for(t.sdo_write(v, idx, sub), 120)
                except (EtherCatError, TypeError, struct.error, ValueError) as e:
                    return Err(5, f"{type(e).__name__}: {e}")
                except asyncio.TimeoutError:
                    return Err(8, "transfer did not finish")
            try:
                res, res2 = await asyncio.gather(one(case["kind"], index, key, val), one(also["kind"], index2, key2, val2))
            finally:
                ec._sendloop_task.cancel()
            return {"res": res, "stored": srv.objects.get(key), "res2": res2, "stored2": srv.objects.get(key2), "rx": srv.rx_payloads, "tx": srv.tx_payloads,
                    "violations": srv.violations, "toggles": [], "messages": srv.messages, "counters": srv.counters}

        async def go():
            ec = SimpleEtherCat("verif0")
            sim = SimTerminal(station=1005)
            srv = SdoServer(0x1000, mbx, 0x1400, mbx_in, delay=case["delay"], unrelated=case["unrelated"])
            sim.mailbox = srv
            attach(ec, SimBus([sim]))
            t = Terminal(ec)
            t.position = 1005
            t.mbx_lock = ec.get_mbx_lock(1005)
            t.mbx_out_off, t.mbx_out_sz, t.mbx_in_off, t.mbx_in_sz = 0x1000, mbx, 0x1400, mbx_in
            key = (index, "CA" if sub is None else sub)
            res = None
            if case.get("also"):
                return await both(ec, t, srv, key)
            try:
                if case["kind"] == "up":
                    srv.objects[key] = val
                    res = await asyncio.wait_for(t.sdo_read(index, sub), 120)
                else:
                    # half of the downloads hand the value over as a bytearray (struct refuses other buffer types for the expedited form)
                    rep = (case["seed"] >> 8) % 2
                    await asyncio.wait_for(t.sdo_write(bytearray(val) if rep == 1 else val, index, sub), 120)
            except (EtherCatError, TypeError, struct.error, ValueError) as e:
                res = Err(5, f"{type(e).__name__}: {e}")
            except asyncio.TimeoutError:
                res = Err(8, "transfer did not finish")
            finally:
                ec._sendloop_task.cancel()
            return {"res": res, "stored": srv.objects.get(key), "rx": srv.rx_payloads, "tx": srv.tx_payloads,
                    "violations": srv.violations, "toggles": srv.toggles, "messages": srv.messages, "counters": srv.counters}
        o = asyncio.run(go())
        case["_o"] = o
        return o

    def model_term(self, case):
        if case.get("also"):
            return None      # two exchanges one after the other in either order: decided by the oracle
        val = self.value(case)
        index, sub = 0x8000 + (case["seed"] & 0xff), case["sub"]
        if case["kind"] == "down":
            csub = "None" if sub is None else f"(Some {cz(sub)})"
            return f"(run_dl {cnat(case['mbx'])} {czlist(val)} {cz(index)} {csub})"
        return f"(run_ul {cnat(case.get('mbx_in', case['mbx']))} {czlist(val)} {cz(index)} {cz(1 if sub is None else sub)} {cbool(sub is None)})"

    def model_value(self, case, o):
        val = self.value(case)
        if case["kind"] == "down":
            return [list(o["rx"]), o["stored"] if not isinstance(o["res"], Err) else o["stored"]]
        res = o["res"]
        return [list(o["tx"]), None if isinstance(res, Err) else [res, o["toggles"]]]

    def holds(self, case, o):
        val = self.value(case)
        if o["violations"]:
            return f"the terminal's SDO server rejected the transfer: {o['violations'][:2]}"
        if isinstance(o["res"], Err):
            return f"transfer of {case['n']} bytes failed: {o['res'].what}"
        if case["kind"] == "down":
            if o["stored"] != val:
                return f"terminal holds {None if o['stored'] is None else o['stored'].hex()[:60]} after downloading {val.hex()[:60]}"
        elif o["res"] != val:
            return f"upload returned {o['res'].hex()[:60]} for a stored value {val.hex()[:60]}"
        if case.get("also"):
            val2 = self.value(case["also"])
            if isinstance(o["res2"], Err):
                return f"the transfer started at the same time ({case['also']['kind']}load of {len(val2)} bytes) failed: {o['res2'].what}"
            if case["also"]["kind"] == "down":
                if o["stored2"] != val2:
                    return f"terminal holds {None if o['stored2'] is None else o['stored2'].hex()[:60]} after the concurrent download of {val2.hex()[:60]}"
            elif o["res2"] != val2:
                return f"the concurrent upload returned {o['res2'].hex()[:60]} for a stored value {val2.hex()[:60]}"
        for k, tg in enumerate(o["toggles"]):
            if tg != (0x10 if k % 2 else 0):
                return f"segment toggle bits {o['toggles']} do not alternate starting at 0"
        for d, n in o["messages"]:
            size = case["mbx"] if d == "out" else case.get("mbx_in", case["mbx"])
            if n > size:
                return f"mailbox message of {n} bytes in a {size}-byte mailbox"
        prev = None
        for c in o["counters"]:
            if prev is not None and c != prev % 7 + 1:
                return f"mailbox counters {o['counters']}"
            prev = c
        return True

    def nontrivial(self, case, o):
        return not isinstance(o["res"], Err) and len(o["rx"]) >= 2

    def search_cases(self):
        out = []
        for kind in ("up", "down"):
            for sub in (3, None):
                for mbx in (24, 40):
                    for n in range(0, 3 * mbx):
                        out.append({"kind": kind, "n": n, "mbx": mbx, "sub": sub, "delay": 0, "unrelated": 0, "seed": n})
        return out

    def rule(self):
        return ("downloads and uploads of values of 0..5 mailbox sizes (30% tiny, 30% around the first-message capacity, 40% around k further segments +-8 bytes), "
                "mailbox sizes 24..256 (40%: write and read mailbox of different sizes), with subindex or complete access, responses delayed by 0-3 status polls, 0-2 unrelated mails before an upload response; "
                "plus pairs of transfers of one terminal started together (responses delayed by up to 20 polls), both of which must be exact; "
                "corpus: all boundary lengths for 3 mailbox sizes; non-trivial = at least two mailbox messages sent")

    def distribution(self, cases, observed):
        d = {"up": 0, "down": 0, "segmented": 0, "expedited": 0, "ca": 0, "failed": 0}
        for c, o in zip(cases, observed):
            d[c["kind"]] += 1
            d["ca"] += c["sub"] is None
            d["segmented"] += len(o["rx"]) > 1
            d["expedited"] += 0 < c["n"] <= 4 and c["sub"] is not None
            d["failed"] += isinstance(o["res"], Err)
            d["pairs"] = d.get("pairs", 0) + bool(c.get("also"))
        return d

    def describe(self, case):
        return {k: v for k, v in case.items() if not k.startswith("_")}


CHECK = C16
