(* C13 Datagram field encoding and decoding round-trip.
   Model: Ecat/Codec.v (EtherCat.roundtrip), Lib/Struct.v (struct "<").
   Only statements here; proofs are in Ecat/Codec_proofs.v. *)
From Verif Require Import Lib.Struct Lib.Struct_proofs Ecat.Codec Ecat.Codec_proofs.

(* what is sent: struct encoding of the values under the formats, a trailing
   read-only format as zeros, then the raw data - for every argument list *)
Theorem C13_encode : forall args d out, rt_out args d = Some out ->
  exists p, pack (fmts_of (removelast args)) (vals_of args) = Some p /\
            out = p ++ zeros (calcsize (trailing args)) ++ raw_bytes d /\
            length p = calcsize (fmts_of (removelast args)).
Proof. exact encode_layout. Qed.
Print Assumptions C13_encode.

(* what is returned for ANY response of the payload's length: the fields
   decoded with the same formats at the same offsets, and, when raw data was
   given (including empty raw data / a zero count), the bytes after them *)
Theorem C13_decode : forall args d out ret, rt_out args d = Some out -> length ret = length out ->
  let n := calcsize (rt_fmt args) in
  exists vs, unpack (rt_fmt args) (firstn n ret) = Some vs /\
    rt_ret args d ret =
      Some match d, args with
           | DNone, _ => RFields vs
           | _, [] => RRaw ret
           | _, _ => RFieldsRaw vs (skipn n ret)
           end.
Proof. exact decode_offsets. Qed.
Print Assumptions C13_decode.

(* struct decoding inverts struct encoding (all formats, all in-range values) *)
Theorem C13_struct_roundtrip : forall f, sizes_pos f -> forall vs out, vals_ok f vs ->
  pack f vs = Some out -> unpack f out = Some vs.
Proof. exact unpack_pack. Qed.
Print Assumptions C13_struct_roundtrip.

(* hence on an echoing bus the caller reads back exactly what it sent *)
Theorem C13_echo : forall args d out,
  sizes_pos (rt_fmt args) -> vals_ok (fmts_of (removelast args)) (vals_of args) ->
  rt_out args d = Some out ->
  rt_ret args d out =
    Some match d, args with
         | DNone, _ => RFields (vals_of args ++ zero_vals (trailing args))
         | _, [] => RRaw out
         | _, _ => RFieldsRaw (vals_of args ++ zero_vals (trailing args)) (raw_bytes d)
         end.
Proof. exact echo_roundtrip. Qed.
Print Assumptions C13_echo.

(* non-vacuity: formats + values + EMPTY raw data *)
Example C13_nonvacuous :
  let args := [AFmt [FInt 2 false; FInt 1 true]; AVal (SInt 513); AVal (SInt (-2)); AFmt [FInt 4 false]] in
  rt_out args (DCount 0) = Some [1; 2; 254; 0; 0; 0; 0] /\
  rt_ret args (DCount 0) [1; 2; 254; 9; 0; 0; 0] =
    Some (RFieldsRaw [SInt 513; SInt (-2); SInt 9] []).
Proof. vm_compute. split; reflexivity. Qed.
