(* C27 The Valve device enforces its safe state on timeout.
   Model: Dev/Valve.v (Valve.update / reset); every statement holds for every
   valve state, hence for every state reachable by any history. *)
From Verif Require Import Dev.Valve Dev.Valve_proofs.

(* coil follows the target while the switches confirm the commanded position
   (default safe state) or the moving time has not elapsed since lastGood *)
Theorem C27_follow : forall moving v op cl now,
  (confirms (coil v) op cl = true \/ now - lastGood v < moving) ->
  let v' := update false moving v op cl now in
  coil v' = target v /\ target v' = target v /\ error v' = error v.
Proof. exact follow_default. Qed.
Print Assumptions C27_follow.

(* otherwise: error, and coil and target go to the safe state (default) *)
Theorem C27_timeout_default : forall moving v op cl now,
  confirms (coil v) op cl = false -> moving <= now - lastGood v ->
  let v' := update false moving v op cl now in
  error v' = true /\ coil v' = false /\ target v' = false.
Proof. exact timeout_default. Qed.
Print Assumptions C27_timeout_default.

(* the error reaction for BOTH safe-state settings *)
Theorem C27_timeout : forall safe moving v op cl now,
  let inPosition := negb (Bool.eqb op cl) in
  let isCorrect := if Bool.eqb (coil v) safe then cl || negb op else op || negb cl in
  inPosition && isCorrect = false -> moving <= now - lastGood v ->
  let v' := update safe moving v op cl now in
  error v' = true /\ coil v' = safe /\ target v' = safe.
Proof. exact timeout. Qed.
Print Assumptions C27_timeout.

Theorem C27_follow_any_safe : forall safe moving v op cl now,
  let inPosition := negb (Bool.eqb op cl) in
  let isCorrect := if Bool.eqb (coil v) safe then cl || negb op else op || negb cl in
  (inPosition && isCorrect = true \/ now - lastGood v < moving) ->
  let v' := update safe moving v op cl now in
  coil v' = target v /\ target v' = target v /\ error v' = error v.
Proof. exact follow. Qed.
Print Assumptions C27_follow_any_safe.

(* "since they last did": lastGood is set exactly by a reset or a confirming update *)
Theorem C27_lastgood : forall moving v e,
  let v' := step false moving v e in
  lastGood v' = match e with
                | EReset now => now
                | ESetTarget _ => lastGood v
                | EUpdate op cl now => if confirms (coil v) op cl then now else lastGood v
                end.
Proof. exact lastgood_step. Qed.
Print Assumptions C27_lastgood.

Example C27_nonvacuous :
  let v := fold_left (step true 5) [EReset 10; ESetTarget false; EUpdate false false 12; EUpdate false false 15]
                     {| coil := true; target := true; error := true; lastGood := 0 |} in
  v = {| coil := true; target := true; error := true; lastGood := 10 |}.
Proof. vm_compute. reflexivity. Qed.
