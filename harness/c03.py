"""C03: with-blocks: the real generator's code for nested / sequenced conditional
blocks is executed in the Coq ISA model; every block must run exactly the branch
its condition selects and execution must continue after the construct."""
import random
from .common import Check, Err, clist
from . import dsl, exprs, isa_check
from .c01 import GenCheck, layout_bytes, read_var, env_of

CMP = ["==", "!=", "<", "<=", ">", ">="]


FB = 100000


def rand_atom(rng, names, regs, env_vals, decls):
    kind = rng.random()
    xs = [n for n, _, f in decls if f == "x"]
    if xs and kind < 0.3:
        # fixed-point variable against another one or an integer constant near its value
        a = rng.choice(xs)
        if len(xs) > 1 and rng.random() < 0.4:
            return ["xcmp", rng.choice(CMP), a, ["v", rng.choice([x for x in xs if x != a])]]
        near = env_vals[a] // FB
        return ["xcmp", rng.choice(CMP), a, ["c", rng.choice([near, near + 1, near - 1, 0, 0, 1, -1])]]
    if kind < 0.7:
        a = exprs.rand_leaf(rng, names, regs, allow_const=False)
        if rng.random() < 0.5:
            b = exprs.rand_leaf(rng, names, regs)
        else:
            # a constant near the left value, so that both outcomes occur
            b = ["c", 0]
        if rng.random() < 0.25:
            a = [rng.choice(["+", "-", "&"]), a, exprs.rand_leaf(rng, names, regs)]
        elif a[0] == "r" and a[1] in ("sr", "sw") and rng.random() < 0.6:
            # the negative / the absolute value of a register is compared - the register itself is read again by later atoms and
            # statements and must still hold its value
            reg = a
            a = [rng.choice(["neg", "abs"]), a]
            if rng.random() < 0.6:
                # ... and the same register is tested for its sign right afterwards, in the same condition
                first = [rng.choice(CMP), a, rng.choice([b, ["c", 10 ** 6], ["c", -10 ** 6]])]
                return [rng.choice(["or", "and"]), first, [rng.choice(["<", ">=", ">", "<="]), reg, ["c", 0]]]
        return [rng.choice(CMP), a, b]
    if kind < 0.85:
        # bit test: expr & mask (true iff non-zero)
        return ["bit", ["&", exprs.rand_leaf(rng, names, regs, allow_const=False), ["c", rng.choice([1, 2, 0x80, 0xff, 0x8000, 0x10000, 0xf0])]]]
    return ["bit", exprs.rand_leaf(rng, names, regs, allow_const=False)]


def rand_cond(rng, depth, mk):
    if depth == 0 or rng.random() < 0.4:
        return mk()
    r = rng.random()
    if r < 0.4:
        return ["and", rand_cond(rng, depth - 1, mk), rand_cond(rng, depth - 1, mk)]
    if r < 0.8:
        return ["or", rand_cond(rng, depth - 1, mk), rand_cond(rng, depth - 1, mk)]
    return ["not", rand_cond(rng, depth - 1, mk)]


def atoms(c):
    if c[0] in ("and", "or"):
        return atoms(c[1]) + atoms(c[2])
    if c[0] == "not":
        return atoms(c[1])
    return [c]


def k_elif_after_bit_test(case):
    """an else-if chain in which a bit test (x & mask used as a condition) is followed by a further link of the chain"""
    def is_bit(c):
        return c[0] in ("bit", "truth") and c[1][0] == "&"

    def walk(stmts):
        for s in stmts:
            if s[0] != "if":
                continue
            if len(s) > 4 and s[4] == "chain" and is_bit(s[1]):
                return True
            if walk(s[2]) or (s[3] and walk(s[3])):
                return True
        return False
    return walk(case["stmts"])


class C03(GenCheck):
    pid = "C03"
    props_file = "Props/C03.v"
    corr_imports = ["Ebpf.Isa", "Corr.Exec", "Gen.Denote", "Gen.Cond", "Corr.C03"]
    technique = "Coq theorem about the comparison-width model of the generator (truth of every condition tree = exact truth under the range precondition, induction over the tree) + execution of the REAL generated with/Else code in the Coq ISA model with marker variables"
    trusted = ["coq/Ebpf/Isa.v (kernel-validated)", "jump patching / Else splicing of the generator is covered by execution of the emitted code only"]
    assumptions = []
    known_classes = {"elif_after_bit_test": lambda case, o: k_elif_after_bit_test(case)}

    @property
    def c01(self):
        from .c01 import C01
        if not hasattr(self, "_c01"):
            self._c01 = C01.__new__(C01)
        return self._c01

    def make_case(self, rng):
        nvars = rng.randint(1, 3)
        decls, values = [], {}
        if not hasattr(self, "_rng_bo"):
            self._rng_bo = random.Random(self.seed + 3303)   # its own stream: the other choices stay as they were
        rng_bo = self._rng_bo
        for k in range(nvars):
            fmt = rng.choice(exprs.FMTS)
            if rng_bo.random() < 0.2:
                # a variable declared with an explicit byte order (its value is the same, its bytes in memory differ): compared with
                # other variables and with constants too wide for an immediate, both operands need a scratch register
                fmt = rng_bo.choice("<>!") + fmt
            decls.append((f"v{k}", rng.choice(["local", "array"]), fmt))
            values[f"v{k}"] = exprs.rand_value(rng, fmt)
        for k in range(rng.choice([0, 0, 1, 2])):
            decls.append((f"x{k}", rng.choice(["local", "array"]), "x"))
            values[f"x{k}"] = rng.choice([0, 150000, -150000, -1, 1, 200000, -275000, 4295067296, -4295067296, rng.randint(-10 ** 7, 10 ** 7)])
        regs, reginit = [], {}
        for no in rng.sample([2, 3], rng.randint(0, 1)):
            kind = rng.choice(["r", "sr"])
            regs.append((kind, no))
            reginit[no] = rng.choice(exprs.BOUNDARY64 + [rng.randint(-100, 100)])
        names = [n for n, _, f in decls if f != "x"]
        env = exprs.Env({n: (s, f, values[n]) for n, s, f in decls}, reginit)

        fm = {n: f for n, s, f in decls}

        def mk():
            at = rand_atom(rng, names, regs, values, decls)
            if at[0] in CMP and at[2] == ["c", 0]:
                v = exprs.meaning(at[1], env, 64)[0][0]
                at[2] = ["c", v + rng.choice([-1, 0, 0, 1, rng.randint(-5, 5)])]
            if at[0] in CMP and at[2][0] == "c" and at[1][0] == "v" and rng.random() < 0.25:
                # a constant at the limits of what an instruction's immediate can hold, the variable next to it
                f = fm[at[1][1]]
                nb, sg = dsl.fmt_size(f), dsl.fmt_signed(f)
                lo, hi = (-(1 << 8 * nb - 1), (1 << 8 * nb - 1) - 1) if sg else (0, (1 << 8 * nb) - 1)
                B = rng.choice([2 ** 31, 2 ** 31, 2 ** 31 - 1, 2 ** 31 + 1, -2 ** 31, -2 ** 31 - 1, -2 ** 31 + 1, 2 ** 32, 2 ** 32 - 1, 2 ** 15, 2 ** 16])
                at[2] = ["c", B]
                near = B + rng.choice([-1, 0, 0, 1])
                values[at[1][1]] = near if lo <= near <= hi else rng.choice([lo, hi])
            if at[0] in CMP and at[1][0] == "v" and rng.random() < 0.12:
                # a masked value compared with its own mask: all of several bits, not any of them
                mask = rng.choice([6, 3, 0x30, 0x81, 0xff, 0x0f0, 5])
                name = at[1][1]
                f = fm[name]
                nb = dsl.fmt_size(f)
                if mask < (1 << (8 * nb - 1)):
                    bits = [b for b in range(16) if mask >> b & 1]
                    part = sum(1 << b for b in bits if rng.random() < 0.5) if rng.random() < 0.7 else mask
                    values[name] = (rng.randrange(1 << 6) << 8 & ((1 << (8 * nb - 1)) - 1) & ~mask) | part
                    lhs = ["&", ["v", name], ["c", mask]] if rng.random() < 0.7 else ["&", ["c", mask], ["v", name]]
                    at = [rng.choice(["==", "!="]), lhs, ["c", mask]]
            if at[0] == "xcmp" and at[3][0] == "c" and rng.random() < 0.2:
                # the same for a fixed-point variable: the scaled constant is 2**31 exactly
                at[3] = ["c", rng.choice([21474.83648, 21474.83647, 21474.83649, -21474.83648, 42949.67296])]
                values[at[2]] = round(at[3][1] * FB) + rng.choice([-1, 0, 0, 1])
            return at
        # markers
        nblocks = rng.randint(1, 3)
        stmts, blocks = [], []
        mid = 0

        def block(depth):
            nonlocal mid
            cond = rand_cond(rng, rng.choice([0, 1, 1, 2]), mk)
            if cond[0] == "bit" and rng.random() < 0.5:
                cond = ["truth", cond[1]]
            m = f"m{mid}"
            mid += 1
            body = [["set", ["v", m], ["c", 1]]]
            if depth > 0 and rng.random() < 0.4:
                inner = block(depth - 1)
                if rng.random() < 0.35:
                    inner[2].append(["exit", 2])       # the nested block ends the program: nothing after it may run
                body.append(inner)
            has_else = rng.random() < 0.5
            els = [["set", ["v", m], ["c", 2]]] if has_else else None
            if els is not None and depth > 0 and rng.random() < 0.3:
                els.append(block(depth - 1))
            blocks.append((m, cond, has_else))
            if has_else and rng.random() < 0.3:
                # an else-if chain: `with Else, cond2 as Else2:` after the block instead of a block nested in `with Else:`
                return ["if", cond, body, [block(max(depth - 1, 0))], "chain"]
            return ["if", cond, body, els]
        for _ in range(nblocks):
            stmts.append(block(rng.choice([0, 0, 1, 2])))
        stmts.append(["set", ["v", "end"], ["c", 77]])
        for k in range(mid):
            decls.append((f"m{k}", "local", "B"))
            values[f"m{k}"] = 0
        decls.append(("end", "local", "B"))
        values["end"] = 0
        case = {"decls": decls, "values": values, "reginit": reginit, "regs": regs, "stmts": stmts}
        import json
        text = json.dumps(stmts)
        cand = [(n, f) for n, st_, f in decls if st_ == "local" and f in ("b", "h", "i") and json.dumps(["v", n]) in text]
        if cand and rng.random() < 0.5:
            n, f = rng.choice(cand)
            if rng.random() < 0.7 and values[n] >= 0:
                values[n] = -values[n] - 1 if values[n] < (1 << (8 * dsl.fmt_size(f) - 1)) else -1
            case["vm"] = [n, [r for r in (6, 7, 8) if r not in reginit][0], rng.choice([0, 8, 24])]
        return case

    def edge_case(self, rng, idx):
        """two operand combinations the random conditions reach too seldom for 400 cases, on their own stream: a 64-bit operand against a
        narrower signed variable holding a negative value, and a fixed-point variable sitting exactly at a negative decimal constant"""
        op = rng.choice(CMP)
        if idx % 3 == 2:
            # a block whose last statement is a nested block ending the program, followed by an Else block: all four outcomes
            f0, f1 = rng.choice("BHiq"), rng.choice("BhIq")
            decls = [("v0", rng.choice(["local", "array"]), f0), ("v1", rng.choice(["local", "array"]), f1)]
            values = {"v0": rng.randint(0, 3), "v1": rng.randint(0, 3)}
            outer = [op, ["v", "v0"], ["c", rng.randint(0, 3)]]
            inner = [rng.choice(CMP), ["v", "v1"], ["c", rng.randint(0, 3)]]
            if rng.random() < 0.3:
                outer = [rng.choice(["and", "or"]), outer, [rng.choice(CMP), ["v", "v1"], ["c", rng.randint(0, 3)]]]
            nested = ["if", inner, [["set", ["v", "m1"], ["c", 1]], ["exit", 2]], None]
            stmts = [["if", outer, [["set", ["v", "m0"], ["c", 1]], nested], [["set", ["v", "m0"], ["c", 2]]]],
                     ["set", ["v", "end"], ["c", 77]]]
            decls += [("m0", "local", "B"), ("m1", "local", "B"), ("end", "local", "B")]
            values.update(m0=0, m1=0, end=0)
            return {"decls": decls, "values": values, "reginit": {}, "regs": [], "stmts": stmts}
        if idx % 3 == 0:
            nf = rng.choice("bhi")
            nb = dsl.fmt_size(nf)
            small = -rng.randint(1, (1 << (8 * nb - 1)) - 1) if rng.random() < 0.8 else rng.randint(0, 100)
            wide = small + rng.choice([-1, 0, 0, 1, rng.randint(-50, 50)])
            decls = [("v0", rng.choice(["local", "array"]), "q"), ("v1", rng.choice(["local", "array"]), nf)]
            values = {"v0": wide, "v1": small}
            cond = [op, ["v", "v0"], ["v", "v1"]] if rng.random() < 0.75 else [op, ["v", "v1"], ["v", "v0"]]
        else:
            c = rng.choice([-3.5, -0.29, -2.25, -1.0, -100.00001, -21474.83648, -0.00001, 3.5, -7.125])
            decls = [("x0", rng.choice(["local", "array"]), "x")]
            values = {"x0": round(c * FB) + rng.choice([-1, 0, 0, 0, 1])}
            cond = ["xcmp", op, "x0", ["c", c]]
        if rng.random() < 0.3:
            cond = ["not", cond]
        els = [["set", ["v", "m0"], ["c", 2]]] if rng.random() < 0.7 else None
        stmts = [["if", cond, [["set", ["v", "m0"], ["c", 1]]], els], ["set", ["v", "end"], ["c", 77]]]
        decls += [("m0", "local", "B"), ("end", "local", "B")]
        values.update(m0=0, end=0)
        return {"decls": decls, "values": values, "reginit": {}, "regs": [], "stmts": stmts}

    def gen_cases(self):
        quick = self.tier == "quick"
        cases = [self.make_case(self.rng) for _ in range(400 if quick else 6000)]
        rng2 = random.Random(self.seed + 3304)
        return cases + [self.edge_case(rng2, i) for i in range(60 if quick else 900)]

    def stmts(self, case):
        pre = [["set", ["r", "r", no], ["c", v]] for no, v in sorted(case["reginit"].items())]
        vm = case.get("vm")
        if not vm:
            return pre + case["stmts"]
        # the reads of one local variable go through a computed address (stack pointer + register + constant); model and oracle see
        # the plain variable

        def ex(x):
            if not isinstance(x, list) or not x:
                return x
            if x[0] == "v" and len(x) == 2 and x[1] == vm[0]:
                return ["vm", vm[0], vm[1], vm[2]]
            if x[0] in ("c", "v", "r"):
                return x
            if x[0] == "xcmp":
                return [x[0], x[1], x[2], ex(x[3])]
            return [x[0]] + [ex(y) for y in x[1:]]

        def st(l):
            out = []
            for q in l:
                if q[0] == "if":
                    out.append(["if", ex(q[1]), st(q[2]), (st(q[3]) if q[3] is not None else None)] + list(q[4:]))
                elif q[0] == "set":
                    out.append(["set", q[1], ex(q[2])])
                else:
                    out.append(q)
            return out
        return pre + [["set", ["r", "r", vm[1]], ["c", vm[2]]]] + st(case["stmts"])

    def prepare(self, cases):
        return self.execute(cases)

    CMPN = {"==": "CEq", "!=": "CNe", "<": "CLt", "<=": "CLe", ">": "CGt", ">=": "CGe"}

    def ccond(self, case, c):
        if c[0] == "and":
            return f"(CAnd {self.ccond(case, c[1])} {self.ccond(case, c[2])})"
        if c[0] == "or":
            return f"(COr {self.ccond(case, c[1])} {self.ccond(case, c[2])})"
        if c[0] == "not":
            return f"(CNot {self.ccond(case, c[1])})"
        if c[0] == "xcmp":
            rhs = ["c", round(c[3][1] * FB)] if c[3][0] == "c" else c[3]          # comparison() scales the integer side
            return f"(CAtom (cmp_impl {self.CMPN[c[1]]} {self.c01.cexpr(case, ['v', c[2]])} {self.c01.cexpr(case, rhs)}))"
        if c[0] in ("bit", "truth"):
            x = self.c01.fold(c[1])
            if x[0] == "&":
                a, b = (x[2], x[1]) if x[1][0] == "c" else (x[1], x[2])
                return f"(CAtom (jset_impl {self.c01.cexpr(case, a)} {self.c01.cexpr(case, b)}))"
            return f"(CAtom (cmp_impl CNe {self.c01.cexpr(case, x)} (EConst 0)))"
        return f"(CAtom (cmp_impl {self.CMPN[c[0]]} {self.c01.cexpr(case, c[1])} {self.c01.cexpr(case, c[2])}))"

    def reached(self, stmts, o, out):
        """the with-blocks that were reached according to the observed markers, in program order"""
        self._reached(stmts, o, out)
        return out

    def _reached(self, stmts, o, out):
        """returns True when an exit statement was executed (nothing after it is reached)"""
        for s in stmts:
            if s[0] == "exit":
                return True
            if s[0] != "if":
                continue
            m = o[s[2][0][1][1]]
            out.append((s[1], m))
            if m == 1:
                if self._reached(s[2], o, out):
                    return True
            elif s[3] and (m == 2 or (len(s) > 4 and m == 0)):      # an else-if chain has no marker of its own for "else"
                if self._reached(s[3], o, out):
                    return True
        return False

    def model_term(self, case):
        o = case.get("_o")
        if o is None or isinstance(o, Err) or k_elif_after_bit_test(case):
            return None          # the open finding: which blocks were "reached" cannot be told from the markers there
        env = env_of(case)
        ok_all = [True]
        self.walk(case["stmts"], env, dict(case["values"]), ok_all)
        if not ok_all[0]:
            return None          # a value inside a condition does not fit the narrowest width involved: outside the property (and the model)
        return f"(run {clist([self.ccond(case, c) for c, _ in self.reached(case['stmts'], o, [])])})"

    def model_value(self, case, o):
        return [1 if m == 1 else 0 for _, m in self.reached(case["stmts"], o, [])]

    def run_impl(self, case):
        b = case["_built"]
        if b.error is not None:
            return Err(6, b.error)
        r = case["_run"]
        if r is None:
            return Err(9, "model evaluation failed")
        status, pkt, maps, stack, regs = r
        if status != [1]:
            return Err(7, f"program did not exit normally: status {status}")
        amap = maps[0] if maps else []
        case["_o"] = {n: read_var(n, b, stack, amap) for n in b.layout}
        return case["_o"]

    # ---- exact truth with the property's precondition
    @staticmethod
    def operands_fit(x, env, W):
        """the precondition "all values fit the narrowest width involved" for the operands INSIDE an expression: a constant of 64 bits
        combined with a 4-byte variable (v & -2**63) is outside it - the generator extends the variable as if it were signed"""
        if x[0] in ("c", "v", "r"):
            return True
        if x[0] in ("neg", "abs"):
            return C03.operands_fit(x[1], env, W)
        for sub in x[1:]:
            if not C03.operands_fit(sub, env, W):
                return False
            vals, ok, _ = exprs.meaning(sub, env, W)
            if not ok or not exprs.fits(vals[0], W, exprs.signed_of(sub, env) or vals[0] < 0):
                return False
        return True

    def truth(self, c, env):
        """(truth value, precondition ok)"""
        if c[0] == "and":
            a, oa = self.truth(c[1], env)
            b, ob = self.truth(c[2], env)
            return a and b, oa and ob
        if c[0] == "or":
            a, oa = self.truth(c[1], env)
            b, ob = self.truth(c[2], env)
            return a or b, oa and ob
        if c[0] == "not":
            a, oa = self.truth(c[1], env)
            return (not a), oa
        if c[0] == "xcmp":
            a = env.vars[c[2]][2]
            b = round(c[3][1] * FB) if c[3][0] == "c" else env.vars[c[3][1]][2]
            return {"==": a == b, "!=": a != b, "<": a < b, "<=": a <= b, ">": a > b, ">=": a >= b}[c[1]], True
        if c[0] in ("bit", "truth"):
            W = 32 if any((exprs.leaf_info(l, env)[0] or 8) <= 4 for l in exprs.leaves(c[1])) else 64
            vals, ok, _ = exprs.meaning(c[1], env, W)
            sg = exprs.signed_of(c[1], env)
            return vals[0] != 0, ok and exprs.fits(vals[0], W, sg) and self.operands_fit(c[1], env, W)
        W = 32 if any((exprs.leaf_info(l, env)[0] or 8) <= 4 for l in exprs.leaves(c[1]) + exprs.leaves(c[2])) else 64
        va, oka, _ = exprs.meaning(c[1], env, W)
        vb, okb, _ = exprs.meaning(c[2], env, W)
        sg = exprs.signed_of(c[1], env) or exprs.signed_of(c[2], env)
        ok = oka and okb and exprs.fits(va[0], W, sg) and exprs.fits(vb[0], W, sg) and self.operands_fit(c[1], env, W) and self.operands_fit(c[2], env, W)
        a, b = va[0], vb[0]
        t = {"==": a == b, "!=": a != b, "<": a < b, "<=": a <= b, ">": a > b, ">=": a >= b}[c[0]]
        return t, ok

    def walk(self, stmts, env, exp, ok_all):
        """returns True when the program has exited"""
        for s in stmts:
            if s[0] == "set":
                exp[s[1][1]] = s[2][1]
            elif s[0] == "exit":
                return True
            elif s[0] == "if":
                t, ok = self.truth(s[1], env)
                if not ok:
                    ok_all[0] = False
                    return True
                if t:
                    if self.walk(s[2], env, exp, ok_all):
                        return True
                elif s[3] is not None:
                    if self.walk(s[3], env, exp, ok_all):
                        return True
            if not ok_all[0]:
                return True
        return False

    def holds(self, case, o):
        if isinstance(o, Err):
            if o.code == 6:
                return True if ("no value" in o.what or "not enough registers" in o.what or "ZeroDivisionError" in o.what) else f"generator refused a well-typed program: {o.what}"
            return o.what
        env = env_of(case)
        exp = {n: case["values"][n] for n, _, _ in case["decls"]}
        ok_all = [True]
        self.walk(case["stmts"], env, exp, ok_all)
        if not ok_all[0]:
            return True      # a compared value does not fit the narrowest width: outside the property
        for n, v in exp.items():
            if o[n] != v:
                what = "execution did not continue after the construct" if n == "end" else f"marker {n} is {o[n]}, the selected branch sets {v}"
                return f"{what}; program {case['stmts']} with {case['values']} {case['reginit']}"
        return True

    def nontrivial(self, case, o):
        return not isinstance(o, Err)

    def extra_checks(self):
        return [isa_check.check(self.seed + 1, 60 if self.tier == "quick" else 400)]

    def rule(self):
        return ("1-3 sequenced with-blocks, nested up to depth 2, with and without Else, conditions = trees (depth <= 2) of & | ~ over comparison atoms (all six "
                "operators, variables of all formats / registers / constants placed next to the left value so that both outcomes occur), bit tests x & mask and "
                "plain truth tests; every block sets its own marker, a third of the nested blocks end the program with exit(), 30% of the blocks with Else continue as an else-if chain (`with Else, cond as Else2:`), a final marker checks that execution continues otherwise; checked when all compared values fit the narrowest width")

    def distribution(self, cases, observed):
        d = {"blocks": 0, "with_else": 0, "atoms": 0, "outside_precondition": 0}
        for c, o in zip(cases, observed):
            def cnt(stmts):
                for s in stmts:
                    if s[0] == "if":
                        d["blocks"] += 1
                        d["with_else"] += s[3] is not None
                        d["atoms"] += len(atoms(s[1]))
                        cnt(s[2])
                        if s[3]:
                            cnt(s[3])
            cnt(c["stmts"])
        return d

    def describe(self, case):
        return {k: v for k, v in case.items() if not k.startswith("_")}

    def case_from_json(self, w):
        w["decls"] = [tuple(d) for d in w["decls"]]
        w["regs"] = [tuple(r) for r in w["regs"]]
        w["reginit"] = {int(k): v for k, v in w["reginit"].items()}
        return w


CHECK = C03
