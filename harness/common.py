"""Shared machinery of the per-property checks.

A check (harness/cXX.py) supplies
  * the theorem file        coq/Props/CXX.v  (built by `make`, cone scanned),
  * a correspondence        cases -> (Coq term of the model's output, value the
                            real code produced) evaluated by coqc/vm_compute,
  * a property oracle       holds(case, observed) evaluated on the real code,
  * known-finding classes   predicates that recognise listed defects.
and this module runs them, classifies what broke, searches for a replay and
writes the evidence file.
"""
import fcntl
import hashlib
import json
import os
import random
import re
import subprocess
import sys
import time
import traceback

VERIF = os.path.dirname(os.path.dirname(os.path.abspath(__file__)))
REPO = os.environ.get("VERIF_REPO", "/repo")
COQ = os.path.join(VERIF, "coq")
GEN = os.path.join(COQ, "Generated")
EVID = os.path.join(VERIF, "evidence")
REPLAYS = os.path.join(VERIF, "replays")
PY = "/venv/bin/python"

FORBIDDEN = re.compile(
    r"\b(Admitted|admit|Axiom|Axioms|Parameter|Parameters|Conjecture|"
    r"Conjectures|Admit Obligations|Unset Guard Checking|bypass_check|"
    r"Unset Positivity Checking|Unset Universe Checking)\b|-type-in-type|"
    r"-impredicative-set")


# ---------------------------------------------------------------- Coq terms
def cz(n):
    n = int(n)
    return f"({n})" if n < 0 else str(n)


def clist(items):
    return "[" + "; ".join(items) + "]"


def czlist(xs):
    return clist([cz(x) for x in xs])


def cbool(b):
    return "true" if b else "false"


def cnat(n):
    assert 0 <= n < 5000
    return f"{int(n)}%nat"


def copt(x, f=cz):
    return "None" if x is None else f"(Some {f(x)})"


def cV(obj):
    """Encode a Python value as a Coq term of type V (see Lib/Base.v)."""
    if obj is None:
        return "VNone"
    if isinstance(obj, bool):
        return f"(VZ {1 if obj else 0})"
    if isinstance(obj, int):
        return f"(VZ {cz(obj)})"
    if isinstance(obj, (bytes, bytearray, memoryview)):
        return f"(VB {czlist(bytes(obj))})"
    if isinstance(obj, (list, tuple)):
        return "(VL " + clist([cV(o) for o in obj]) + ")"
    if isinstance(obj, Err):
        return f"(VErr {cz(obj.code)})"
    if isinstance(obj, RLE):
        return cV(obj.pairs())
    raise TypeError(f"cannot encode {obj!r}")


class RLE:
    """bytes compared run-length encoded (model side: VR)"""
    def __init__(self, b):
        self.b = bytes(b)

    def pairs(self):
        out = []
        for x in self.b:
            if out and out[-1][0] == x:
                out[-1][1] += 1
            else:
                out.append([x, 1])
        return out


if hasattr(sys, "set_int_max_str_digits"):
    sys.set_int_max_str_digits(0)      # constant folding in generated expressions can give very long integers


class Err:
    """An error outcome, mapped to a small enum so that messages never
    take part in a comparison."""
    def __init__(self, code, what=""):
        self.code = code
        self.what = what

    def __repr__(self):
        return f"Err({self.code},{self.what!r})"

    def __eq__(self, other):
        return isinstance(other, Err) and other.code == self.code

    def __hash__(self):
        return hash(("Err", self.code))


def jsonable(o):
    if isinstance(o, (bytes, bytearray, memoryview)):
        return {"hex": bytes(o).hex()}
    if isinstance(o, Err):
        return {"error": o.code, "what": o.what}
    if isinstance(o, RLE):
        return {"rle": o.pairs()[:40]}
    if isinstance(o, (list, tuple)):
        return [jsonable(x) for x in o]
    if isinstance(o, dict):
        return {str(k): jsonable(v) for k, v in o.items()}
    if isinstance(o, (int, float, str, bool)) or o is None:
        return o
    return repr(o)


# ------------------------------------------------------------ Coq building
def sh(cmd, timeout=900, cwd=COQ, env=None):
    p = subprocess.run(cmd, shell=isinstance(cmd, str), cwd=cwd, text=True,
                       stdout=subprocess.PIPE, stderr=subprocess.STDOUT,
                       timeout=timeout, env=env)
    return p.returncode, p.stdout


def write_if_changed(path, text):
    try:
        with open(path) as f:
            if f.read() == text:
                return False
    except FileNotFoundError:
        pass
    os.makedirs(os.path.dirname(path), exist_ok=True)
    with open(path, "w") as f:
        f.write(text)
    return True


class BuildLock:
    def __enter__(self):
        self.f = open(os.path.join(COQ, ".buildlock"), "w")
        fcntl.flock(self.f, fcntl.LOCK_EX)

    def __exit__(self, *a):
        fcntl.flock(self.f, fcntl.LOCK_UN)
        self.f.close()


def ensure_makefile():
    files = []
    for d in sorted(os.listdir(COQ)):
        dd = os.path.join(COQ, d)
        if os.path.isdir(dd):
            for f in sorted(os.listdir(dd)):
                if f.endswith(".v") and not f.startswith("Cases_"):
                    files.append(f"{d}/{f}")
    proj = open(os.path.join(COQ, "_CoqProject")).read().splitlines()
    proj = [l for l in proj if l.startswith("-")]
    text = "\n".join(proj + files) + "\n"
    changed = write_if_changed(os.path.join(COQ, "_CoqProject.full"), text)
    if changed or not os.path.exists(os.path.join(COQ, "Makefile")):
        rc, out = sh("coq_makefile -f _CoqProject.full -o Makefile")
        if rc:
            raise RuntimeError("coq_makefile failed:\n" + out)


def regenerate():
    """Tie G: rebuild coq/Generated/* from /repo's current sources."""
    from . import gen_consts
    return gen_consts.generate(REPO, GEN)


def build(target, extra=()):
    """make one .vo (with its dependency cone) plus the correspondence
    modules.  Returns (ok, log)."""
    with BuildLock():
        ensure_makefile()
        vo = os.path.join(COQ, target)
        if os.path.exists(vo):
            os.remove(vo)  # always re-check the property file itself
        rc, out = sh(f"timeout 1500 make -j8 {target} {' '.join(extra)}", timeout=1600)
    return rc == 0, out


def cone(target_v):
    """Source files the target depends on (inside this development)."""
    seen, todo = [], [target_v]
    while todo:
        f = todo.pop()
        if f in seen:
            continue
        seen.append(f)
        try:
            src = open(os.path.join(COQ, f)).read()
        except FileNotFoundError:
            continue
        for m in re.finditer(r"From Verif Require (?:Import|Export)([^.]*(?:\.[A-Za-z_][^.\s]*)*)\.\s", src):
            for name in m.group(1).split():
                todo.append(name.replace(".", "/") + ".v")
    return seen


def strip_comments(src):
    out, depth, i = [], 0, 0
    while i < len(src):
        if src.startswith("(*", i):
            depth += 1
            i += 2
        elif src.startswith("*)", i) and depth:
            depth -= 1
            i += 2
        else:
            if not depth:
                out.append(src[i])
            i += 1
    return "".join(out)


def scan_forbidden(files):
    bad = []
    for f in files:
        try:
            src = strip_comments(open(os.path.join(COQ, f)).read())
        except FileNotFoundError:
            continue
        for m in FORBIDDEN.finditer(src):
            bad.append(f"{f}: {m.group(0)}")
        for m in re.finditer(r"^\s*(Variable|Hypothesis|Variables|Hypotheses)\b", src, re.M):
            # allowed only inside a Section
            pre = src[:m.start()]
            if len(re.findall(r"^\s*Section\b", pre, re.M)) <= len(re.findall(r"^\s*End\b", pre, re.M)):
                bad.append(f"{f}: {m.group(1)} outside a section")
    return bad


def parse_assumptions(log):
    """Return dict theorem-order -> list of axioms from Print Assumptions."""
    res = []
    blocks = re.split(r"(?=Closed under the global context|Axioms:)", log)
    for b in blocks:
        if b.startswith("Closed under the global context"):
            res.append([])
        elif b.startswith("Axioms:"):
            names = re.findall(r"^([A-Za-z_][\w.']*)\s*:", b[len("Axioms:"):], re.M)
            res.append(names)
    return res


def theorems_of(props_v):
    src = strip_comments(open(os.path.join(COQ, props_v)).read())
    return re.findall(r"^\s*(?:Theorem|Lemma|Corollary|Example)\s+([\w']+)", src, re.M)


def run_cases(name, imports, pairs, shard=400, timeout=600):
    """pairs: list of (coq_term_of_model_output : V, python_value).  Returns
    (list of mismatching indices, log).  One coqc per shard, in parallel."""
    os.makedirs(GEN, exist_ok=True)
    shards = [pairs[i:i + shard] for i in range(0, len(pairs), shard)] or [[]]
    procs = []
    for k, sh_pairs in enumerate(shards):
        path = os.path.join(GEN, f"Cases_{name}_p{os.getpid()}_{k}.v")
        with open(path, "w") as f:
            f.write("From Verif Require Import Lib.Base.\n")
            for imp in imports:
                f.write(f"From Verif Require Import {imp}.\n")
            f.write("Definition cases : list (V * V) := [\n")
            f.write(";\n".join(f" ({m}, {cV(v)})" for m, v in sh_pairs))
            f.write("].\nEval vm_compute in (mismatches cases).\n")
        procs.append((k, path, subprocess.Popen(
            ["bash", "-c", f"ulimit -s unlimited 2>/dev/null; exec timeout {timeout} coqc -Q . Verif -w -notation-overridden {path}"],
            cwd=COQ, text=True, stdout=subprocess.PIPE, stderr=subprocess.STDOUT)))
        if len(procs) % 12 == 0:
            for _, _, p in procs[-12:]:
                p.wait()
    bad, logs = [], []
    for k, path, p in procs:
        out, _ = p.communicate()
        m = re.search(r"=\s*\[(.*?)\]\s*:\s*list nat", out, re.S)
        if p.returncode != 0 or not m:
            logs.append(f"shard {k}: coqc failed\n{out[-2000:]}")
            bad.extend(range(k * shard, k * shard + len(shards[k])))
            continue
        for num in re.findall(r"\d+", m.group(1)):
            bad.append(k * shard + int(num))
        for ext in (".v", ".vo", ".glob", ".vok", ".vos"):
            try:
                os.remove(path[:-2] + ext)
            except FileNotFoundError:
                pass
        try:
            os.remove(os.path.join(GEN, "." + os.path.basename(path)[:-2] + ".aux"))
        except FileNotFoundError:
            pass
    return sorted(bad), "\n".join(logs)


def unflat(seq):
    """inverse of Lib/Base.v `flat`"""
    pos = 0

    def go():
        nonlocal pos
        tag = seq[pos]
        if tag == 0:
            pos += 2
            return seq[pos - 1]
        n = seq[pos + 1]
        pos += 2
        return [go() for _ in range(n)]
    return go()


def eval_terms(name, imports, terms, shard=200, timeout=600, preamble=""):
    """evaluate Coq terms of type V with vm_compute and return them as Python values
    (ints / nested lists); None for a shard that failed"""
    os.makedirs(GEN, exist_ok=True)
    shards = [terms[i:i + shard] for i in range(0, len(terms), shard)] or [[]]
    procs = []
    for k, ts in enumerate(shards):
        path = os.path.join(GEN, f"Cases_{name}_p{os.getpid()}_e{k}.v")
        with open(path, "w") as f:
            f.write("From Verif Require Import Lib.Base.\n")
            for imp in imports:
                f.write(f"From Verif Require Import {imp}.\n")
            f.write("Set Printing Width 100000000.\nSet Printing Depth 100000000.\n")
            f.write(preamble + "\n")
            f.write("Definition terms : list V := [\n" + ";\n".join(" " + t for t in ts) + "].\n")
            f.write("Eval vm_compute in (map flat terms).\n")
        # the output can exceed a pipe buffer: write it to a file
        procs.append((k, path, subprocess.Popen(
            ["bash", "-c", f"ulimit -s unlimited 2>/dev/null; exec timeout {timeout} coqc -Q . Verif -w -notation-overridden {path} > {path}.out 2>&1"],
            cwd=COQ)))
        if len(procs) % 12 == 0:
            for _, _, p in procs[-12:]:
                p.wait()
    out, logs = [], []
    for k, path, p in procs:
        p.wait()
        try:
            with open(path + ".out") as f:
                text = f.read()
            os.remove(path + ".out")
        except FileNotFoundError:
            text = ""
        m = re.search(r"=\s*(\[.*\])\s*:\s*list \(list Z\)", text, re.S)
        if p.returncode != 0 or not m:
            logs.append(f"shard {k}: coqc failed\n{text[-1500:]}")
            out.extend([None] * len(shards[k]))
        else:
            body = m.group(1).replace(";", ",").replace("%Z", "")
            try:
                vals = eval(body, {"__builtins__": {}})
                out.extend(unflat(v) for v in vals)
            except Exception as e:
                logs.append(f"shard {k}: cannot parse output: {e}")
                out.extend([None] * len(shards[k]))
        for ext in (".v", ".vo", ".glob", ".vok", ".vos"):
            try:
                os.remove(path[:-2] + ext)
            except FileNotFoundError:
                pass
        try:
            os.remove(os.path.join(GEN, "." + os.path.basename(path)[:-2] + ".aux"))
        except FileNotFoundError:
            pass
    return out, "\n".join(logs)


# ------------------------------------------------------------- known findings
def load_known(pid):
    path = os.path.join(VERIF, "known_findings.json")
    try:
        data = json.load(open(path))
    except FileNotFoundError:
        return []
    return [e for e in data.get("findings", []) if e["property"] == pid]


# ------------------------------------------------------------------- a check
def foreign_correspondence(check_cls, tier, seed, limit):
    """the correspondence and the oracle of ANOTHER property's check on `limit` of its cases, as a further tie
    (used where a property is stated over the objects another property models); returns (name, ok, detail)"""
    c = check_cls(tier, seed)
    cases = (list(c.corpus()) + list(c.gen_cases()))[:limit]
    try:
        c.prepare(cases)
    except Exception as e:      # noqa
        return (f"{c.pid}-correspondence", False, f"prepare failed: {e!r}")
    pairs, fails, paired = [], [], []
    for x in cases:
        try:
            o = c.run_impl(x)
        except Exception as e:      # noqa
            o = Err(99, f"harness: {type(e).__name__}: {e}")
        mt = c.model_term(x)
        if mt is not None:
            pairs.append((mt, c.model_value(x, o)))
            paired.append(x)
        h = c.holds(x, o)
        if h is not True:
            fails.append(str(h)[:300])
    mism, _ = run_cases(c.pid + "x", c.corr_imports, pairs, shard=getattr(c, "shard", 400))
    ok = not mism and not fails
    return (f"{c.pid}-correspondence", ok, f"{len(pairs)} cases of the {c.pid} check (real code against its model): {len(mism)} differ, "
            f"{len(fails)} fail its oracle {fails[:1] if fails else ''}"
            + (f"; first differing case: {json.dumps(c.describe(paired[mism[0]]), default=repr)[:500]}" if mism else ""))


class Check:
    """Subclass per property; see module docstring."""
    pid = None
    props_file = None           # "Props/C13.v"
    corr_imports = []           # Coq modules the Cases file imports
    technique = ""
    trusted = []
    assumptions = []
    known_classes = {}          # name -> predicate(case, observed)
    shard = 400                 # cases per generated Coq file

    def __init__(self, tier, seed):
        self.tier = tier
        self.seed = seed
        self.rng = random.Random(seed)

    # --- to be provided
    def corpus(self):
        return []

    def gen_cases(self):
        raise NotImplementedError

    def run_impl(self, case):
        raise NotImplementedError

    def model_term(self, case):
        raise NotImplementedError

    def holds(self, case, observed):
        """True, or a string describing how the property fails here."""
        return True

    def nontrivial(self, case, observed):
        return True

    def prepare(self, cases):
        """batch work before the per-case loop (e.g. one Coq run for all cases)"""
        return None

    def search_cases(self):
        """extra cases tried when a proof or the correspondence broke"""
        return []

    def extra_checks(self):
        """further ties; returns list of (name, ok, detail)"""
        return []

    def describe(self, case):
        return jsonable(case)

    # --- driver
    def main(self):
        t0 = time.time()
        pid = self.pid
        os.makedirs(EVID, exist_ok=True)
        os.makedirs(REPLAYS, exist_ok=True)
        broken = []          # (what, detail)
        notes = []
        # 1. tie G
        try:
            gen_info = regenerate()
        except Exception as e:  # fail closed
            gen_info = {}
            broken.append(("generated-model", f"translator failed: {e!r}"))
        # 2. proofs
        ok, log = build(self.props_file.replace(".v", ".vo"),
                        [m.replace(".", "/") + ".vo" for m in self.corr_imports])
        thms = theorems_of(self.props_file)
        assumptions = parse_assumptions(log)
        axioms = sorted({a for l in assumptions for a in l})
        if not ok:
            m = re.search(r'File "\./([^"]+)", line (\d+).*?\n(Error:.*?)(?:\n\S|\Z)', log, re.S)
            where = f"{m.group(1)}:{m.group(2)} {m.group(3)[:300]}" if m else log[-600:]
            broken.append(("proof", where))
        files = cone(self.props_file)
        bad = scan_forbidden(files)
        if bad:
            broken.append(("forbidden-construct", "; ".join(bad)))
        # 3. correspondence + property oracle on the real code
        cases = list(self.corpus()) + list(self.gen_cases())
        try:
            plog = self.prepare(cases)
            if plog:
                notes.append(str(plog)[:1500])
        except Exception as e:
            broken.append(("harness", f"prepare failed: {e!r}"))
            notes.append(traceback.format_exc()[-800:])
        observed, failures, known_hits = [], [], {}
        pairs, paired, encode_failed = [], [], False
        distinct = set()
        for c in cases:
            try:
                o = self.run_impl(c)
            except Exception as e:
                o = Err(99, f"harness: {type(e).__name__}: {e}")
                notes.append(traceback.format_exc()[-800:])
            observed.append(o)
            try:
                mt = self.model_term(c)
                if mt is not None:
                    pairs.append((mt, self.model_value(c, o)))
                    paired.append(len(observed) - 1)
            except Exception as e:
                broken.append(("correspondence", f"cannot encode case: {e!r}"))
                encode_failed = True
                break
            h = self.holds(c, o)
            if h is not True:
                self.classify(c, o, h, failures, known_hits)
            if self.nontrivial(c, o):
                distinct.add(hashlib.sha1(repr(self.describe(c)).encode()).hexdigest())
        mism = []
        if ok and not encode_failed and pairs:
            mism, clog = run_cases(pid, self.corr_imports, pairs, shard=self.shard)
            if clog:
                notes.append(clog)
            mism = [paired[m] for m in mism]
            if mism:
                i = mism[0]
                broken.append(("correspondence",
                               f"{len(mism)} of {len(cases)} cases differ; first: "
                               f"{json.dumps(self.describe(cases[i]), default=repr)[:600]} impl={jsonable(observed[i])!r}"[:1500]))
        extra_ties = []
        for name, eok, detail in self.extra_checks():
            extra_ties.append({"tie": name, "ok": bool(eok), "detail": str(detail)[:400]})
            if not eok:
                broken.append((name, detail))
        # 4. search when something broke
        searched = 0
        if broken and not failures:
            extra = list(self.search_cases())
            try:
                self.prepare(extra)
            except Exception:
                extra = []
            for c in extra:
                searched += 1
                try:
                    o = self.run_impl(c)
                except Exception as e:
                    o = Err(99, repr(e))
                h = self.holds(c, o)
                if h is not True:
                    self.classify(c, o, h, failures, known_hits)
                    if failures:
                        break
        # 5. known findings still present?
        out_lines = []
        for e in load_known(pid):
            if e.get("status") == "fixed":
                continue
            if known_hits.get(e["class"]) or self.known_still_present(e):
                out_lines.append(f"KNOWN-FINDING: property={pid} {e['what']}")
            else:
                notes.append(f"known finding {e['class']} not reproduced in this run")
        # 6. verdict
        violation = None
        if failures:
            c, o, h = failures[0]
            violation = self.write_replay(
                {"property": pid, "kind": "failing-input", "case": self.describe(c),
                 "observed": jsonable(o), "why": h,
                 "broken": [list(b) for b in broken],
                 "rerun": f"bin/check {pid} --replay <this file>"})
            out_lines.append(f"VIOLATION property={pid} replay={violation}")
        elif broken:
            violation = self.write_replay(
                {"property": pid, "kind": "no-failing-input-found",
                 "broken": [list(b) for b in broken], "searched_cases": len(cases) + searched,
                 "note": "a theorem or the model/code correspondence no longer checks; "
                         "the property is no longer shown to hold"})
            out_lines.append(f"VIOLATION property={pid} replay={violation} no-failing-input-found")
        wall = time.time() - t0
        samples = [{"case": self.describe(c), "observed": jsonable(o)}
                   for c, o in list(zip(cases, observed))[:3]]
        if len(observed) > 6:
            k = len(observed) // 2
            samples.append({"case": self.describe(cases[k]), "observed": jsonable(observed[k])})
        ev = {
            "property_id": pid, "tier": self.tier, "seed": self.seed, "level": "proof",
            "coverage": {
                "obligations": len(thms) + 1,
                "discharged": (len(thms) if ok else 0) + (0 if [b for b in broken if b[0] != "proof"] else 1),
                "theorems": thms,
                "checker_cmd": f"cd /verif/coq && make {self.props_file.replace('.v', '.vo')}  (coqc 8.16.1, full .vo build; Print Assumptions under every theorem)",
                "trusted_base": ["Coq 8.16.1 kernel (vm_compute used, no native_compute)",
                                 "axioms reported by Print Assumptions: " + (", ".join(axioms) if axioms else "none (Closed under the global context)"),
                                 "harness/gen_consts.py (ast reader of /repo constants, fail-closed)",
                                 "correspondence harness harness/%s.py + coqc vm_compute evaluation of the model" % pid.lower(),
                                 ] + list(self.trusted),
                "print_assumptions": assumptions,
                "cone": files,
                "evaluations": len(cases) + searched,
                "distinct_nontrivial": len(distinct),
                "rule": self.rule(),
                "samples": samples,
                "correspondence_mismatches": len(mism),
                "generated_from_source": gen_info,
                "input_distribution": self.distribution(cases, observed),
                "technique": self.technique,
                "further_ties": extra_ties,
            },
            "assumptions": list(self.assumptions),
            "wall_s": round(wall, 2),
            "violations": 1 if violation else 0,
            "known_findings_reported": [l for l in out_lines if l.startswith("KNOWN")],
            "notes": notes[:10],
        }
        with open(os.path.join(EVID, f"{pid}.json"), "w") as f:
            json.dump(ev, f, indent=1, default=repr)
        for l in out_lines:
            print(l)
        print(f"{pid} {self.tier}: theorems={len(thms)} built={ok} cases={len(cases)} "
              f"mismatches={len(mism)} failures={len(failures)} known={sum(1 for l in out_lines if l.startswith('KNOWN'))} "
              f"wall={wall:.1f}s")
        return 1 if violation else 0

    def model_value(self, case, observed):
        return observed

    def rule(self):
        return ""

    def distribution(self, cases, observed):
        return {}

    def known_still_present(self, entry):
        """replay the recorded witness of a known finding on the real code"""
        w = entry.get("witness")
        if w is None:
            return False
        try:
            c = self.case_from_json(w)
            o = self.run_impl(c)
            return self.holds(c, o) is not True
        except Exception:
            return True

    def case_from_json(self, w):
        return w

    def classify(self, c, o, h, failures, known_hits):
        for e in load_known(self.pid):
            if e.get("status") == "fixed":
                continue
            pred = self.known_classes.get(e["class"])
            if pred is not None and pred(c, o):
                known_hits[e["class"]] = known_hits.get(e["class"], 0) + 1
                return
        failures.append((c, o, h))

    def write_replay(self, obj):
        blob = json.dumps(obj, indent=1, default=repr, sort_keys=True)
        h = hashlib.sha1(blob.encode()).hexdigest()[:10]
        path = os.path.join(REPLAYS, f"{self.pid}-{h}.json")
        with open(path, "w") as f:
            f.write(blob)
        return path

    def replay(self, path):
        obj = json.load(open(path))
        if obj.get("kind") != "failing-input":
            print(json.dumps(obj, indent=1))
            return 0
        c = self.case_from_json(obj["case"])
        shown = json.dumps(obj["case"])[:2000]
        self.prepare([c])
        o = self.run_impl(c)
        h = self.holds(c, o)
        print("case:", shown)
        print("observed:", jsonable(o))
        t = self.model_term(c)
        if t is not None:
            vals, log = eval_terms(self.pid + "r", self.corr_imports, [t])
            print("model:", vals[0] if vals else log, " implementation (as model value):", jsonable(self.model_value(c, o)))
        print("holds:", h)
        return 0 if h is True else 1
