(* Hash maps as the helper calls see them: a finite table from key bytes to a
   value (here polymorphic: the executable model stores the index of the memory
   region holding the value bytes).  bpf_map_lookup_elem / update_elem /
   delete_elem. *)
From Verif Require Export Lib.Base.

Fixpoint bytes_eqb (a b : list Z) : bool :=
  match a, b with
  | [], [] => true
  | x :: a', y :: b' => (x =? y) && bytes_eqb a' b'
  | _, _ => false
  end.

Section Table.
Context {A : Type}.
Definition table := list (list Z * A).

Fixpoint t_lookup (k : list Z) (t : table) : option A :=
  match t with
  | [] => None
  | (k', v) :: tl => if bytes_eqb k k' then Some v else t_lookup k tl
  end.
Fixpoint t_update (k : list Z) (v : A) (t : table) : table :=
  match t with
  | [] => [(k, v)]
  | (k', v') :: tl => if bytes_eqb k k' then (k, v) :: tl else (k', v') :: t_update k v tl
  end.
Fixpoint t_delete (k : list Z) (t : table) : table :=
  match t with
  | [] => []
  | (k', v') :: tl => if bytes_eqb k k' then t_delete k tl else (k', v') :: t_delete k tl
  end.
End Table.
