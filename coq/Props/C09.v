(* C09 Hash-map variables and Dict entries agree between Python and program.
   Model: Sys/HashMapSpec.v - a hash map as both sides see it through the
   kernel's lookup / update / delete: a table from key bytes to a value;
   structure members are laid out at the running sum of their sizes
   (Gen/Layout.v `positions`, the same offsets on both sides because both use
   Member.relative_addr).  Executable: Corr/C09.v serves the helper calls on top
   of the ISA model.  Validated on every run: the real Python API (against the
   bpf() stand-in) and the real generated program exchange the map contents. *)
From Verif Require Import Sys.HashMapSpec Sys.HashMapSpec_proofs Gen.Layout Gen.Layout_proofs.

(* what one side stores under a key, the other finds under that key *)
Theorem C09_lookup_update_same : forall (A : Type) k (v : A) t, t_lookup k (t_update k v t) = Some v.
Proof. intros. apply lookup_update_same. Qed.
(* every other key - every other hash-map variable - is an independent cell *)
Theorem C09_cells_independent : forall (A : Type) k k' (v : A) t, bytes_eqb k' k = false ->
  t_lookup k' (t_update k v t) = t_lookup k' t.
Proof. intros. apply lookup_update_other. assumption. Qed.
(* deleting (also: pop) removes exactly that key; absent keys are not found *)
Theorem C09_delete : forall (A : Type) k k' (t : @table A),
  t_lookup k (t_delete k t) = None /\ (bytes_eqb k' k = false -> t_lookup k' (t_delete k t) = t_lookup k' t).
Proof. intros. split; [apply lookup_delete_same|apply lookup_delete_other]. Qed.
Print Assumptions C09_lookup_update_same.
Print Assumptions C09_cells_independent.
Print Assumptions C09_delete.

(* members of a structure (any sizes) occupy pairwise disjoint bytes *)
Theorem C09_members_disjoint : forall sizes, Forall (fun s => 0 <= s) sizes -> pairwise_disjoint (positions 0 sizes).
Proof. intros sizes H. apply (positions_disjoint sizes 0 H). Qed.
Print Assumptions C09_members_disjoint.

Example C09_nonvacuous :
  let t := t_update [2] 7%nat (t_update [1] 5%nat []) in
  t_lookup [1] t = Some 5%nat /\ t_lookup [2] t = Some 7%nat /\ t_lookup [3] t = None /\
  t_lookup [1] (t_delete [1] t) = None.
Proof. vm_compute. auto. Qed.
