(* C17 EEPROM contents and derived layouts are decoded exactly.
   Model: Ecat/Eeprom.v (Terminal._eeprom_read_one, read_eeprom,
   parse_sync_managers, parse_pdos from the EEPROM).  Specification: the SII
   layout (enc_cats / enc_sm / enc_pdo) and direct slicing of the image. *)
From Verif Require Import Ecat.Eeprom Ecat.Eeprom_proofs.

(* one EEPROM access returns the 8 image bytes at the word address, whether
   the interface reads 4 or 8 bytes and whatever the unused half contains
   (busy polls are skipped by the polling loops and do not reach the model) *)
Theorem C17_read_one : forall img mode8 junk start, 0 <= start ->
  eeprom_read_one img mode8 junk start = img_bytes img start 8.
Proof. exact read_one_exact. Qed.
Print Assumptions C17_read_one.

(* for ANY image whose category area is the SII encoding of `cats` (any number,
   types, even lengths, contents) followed by anything: identity and every
   category up to the end marker are returned exactly *)
Theorem C17_categories : forall img mode8 junk cats tail,
  skipn 128 img = enc_cats cats ++ tail -> Forall cat_ok cats ->
  let r := read_eeprom (S (length img)) (eeprom_read_one img mode8 junk) in
  snd r = Some cats /\
  vendorId (fst r) = le_val (pad_from img 16 4) /\ productCode (fst r) = le_val (pad_from img 20 4) /\
  revisionNo (fst r) = le_val (pad_from img 24 4) /\ serialNo (fst r) = le_val (pad_from img 28 4).
Proof. exact read_eeprom_spec. Qed.
Print Assumptions C17_categories.

(* sync managers: each mailbox / process-data area gets the offset and size
   stored in its entry (entry k at register 0x800+8k, later entries win) *)
Theorem C17_sync_managers : forall es fuel i l, Forall sm_ok es -> (length es < fuel)%nat ->
  parse_sms fuel i (flat_map enc_sm es) l = Some (sm_table i es l).
Proof. exact parse_sms_spec. Qed.
Print Assumptions C17_sync_managers.

(* PDO categories decode to exactly the stored entries, in order ... *)
Theorem C17_pdo_entries : forall pdos fuel, Forall pdo_ok pdos -> (length pdos < fuel)%nat ->
  parse_pdo_cat fuel (flat_map enc_pdo pdos) = Some (flat_map (fun p => map triple (p_entries p)) pdos).
Proof. exact parse_pdo_cat_spec. Qed.
Print Assumptions C17_pdo_entries.

(* ... and each mapped entry gets byte offset / bit position = the running sum
   of the lengths of all entries before it (gaps included) *)
Theorem C17_pdo_layout : forall es bitpos acc l tot, layout es bitpos acc = Some (l, tot) ->
  l = rev acc ++ positions es bitpos /\ tot = bitpos + total_bits es.
Proof. exact layout_spec. Qed.
Print Assumptions C17_pdo_layout.

Theorem C17_pdo_layout_total : forall es bitpos acc, aligned es bitpos ->
  exists l tot, layout es bitpos acc = Some (l, tot).
Proof. exact layout_total. Qed.
Print Assumptions C17_pdo_layout_total.

Example C17_nonvacuous :
  let cats := [(30, [1; 2; 3; 4]); (41, [0; 16; 128; 0; 38; 0; 1; 1])] in
  let img := repeat 0 16 ++ [2; 0; 0; 0; 52; 18; 0; 0; 5; 0; 0; 0; 77; 0; 0; 0] ++ repeat 0 96 ++ enc_cats cats ++ [9; 9] in
  skipn 128 img = enc_cats cats ++ [9; 9] /\ Forall cat_ok cats /\
  snd (read_eeprom (S (length img)) (eeprom_read_one img false [7; 7; 7; 7])) = Some cats /\
  positions [(24576, 1, 1); (0, 0, 7); (24576, 17, 16)] 0 = [(24576, 1, PBit 0 0); (24576, 17, PFmt 1 16)].
Proof.
  split; [reflexivity|]. split; [repeat constructor; cbn; lia|]. split; vm_compute; reflexivity.
Qed.
