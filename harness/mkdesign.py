"""Assemble /verif/DESIGN.md: the hand-written sections below plus the per-property
table (from MANIFEST.json), the findings (known_findings.json) and the seed table
(seeded/RESULTS.md), so that the document cannot drift from what is registered."""
import json
import os

VERIF = os.path.dirname(os.path.dirname(os.path.abspath(__file__)))

HEAD = r'''# DESIGN - machine-checked proof (Coq 8.16) for the ebpfcat properties

(The plan written before any code is kept as DESIGN_round0.md.  This file describes what was built, where it deviates from
that plan, what is trusted, what was found, and which checks catch which seeded changes.  Sections 5-8 are assembled by
harness/mkdesign.py from MANIFEST.json, known_findings.json and seeded/RESULTS.md.)

## 1. Approach, and why it reaches what the tests cannot

tecki/ebpfcat is pure Python in three layers: a code generator (a DSL whose operator overloads emit eBPF instructions), an
EtherCAT master (frames, send loop, mailbox / CoE / SDO, EEPROM, state machine, FMMU layout, lock files), and devices.  Its 44
tests compare a few emitted instruction lists with golden lists and run almost nothing.  Every property in properties.jsonl is
universally quantified - over all expression trees, operand values, datagram sequences, terminal histories, interleavings.

For each claimed property there is

```
 property  <== theorem, checked by the Coq kernel ==  Gallina model  <== tie, checked on every run ==  /repo working tree
```

* **Model**: small total computable Gallina functions (`coq/<Area>/<X>.v`), proofs in `X_proofs.v`, the property statements
  alone in `coq/Props/Cxx.v` (`exact lemma. Qed.` + `Print Assumptions`).  Shapes: codec inversion (C11, C13, C16, C17, C07),
  invariants by induction over event lists (C12, C15, C20, C21, C23, C24, C25, C28), structural induction over expression /
  condition trees (C01, C03), rationals (C02), layout functions over arbitrary declaration lists (C04, C08, C18, C29), all
  interleavings via an inductive interleaving relation (C06) or a closed finite state set checked in the kernel (C23), control laws
  over unbounded integers (C26, C27).
* **Tie** - two kinds, both re-run by every check:
  * *generated constants*: `harness/gen_consts.py` reads literals from the source with `ast` (fail-closed) into
    `coq/Generated/Consts.v`; the theorems are re-checked against them;
  * *correspondence*: the harness runs the REAL code and the model on the same inputs / operation sequences / schedules.  The
    model side is evaluated by `coqc` + `vm_compute` on generated `coq/Generated/Cases_*.v` files (sharded, in parallel); model
    outputs are Coq terms of one universal value type `V`, compared inside Coq (`mismatches`) or read back (`flat`/`unflat`).
* **Oracle**: independently of the model, each harness also states the property directly on what the real code did (exact
  integers / Fractions / struct / a Python dict), so that a wrong *model* cannot hide a violation and a violation comes with a
  concrete replay.

What the generator properties needed in addition (this replaces the "source-level generator model with exact instruction
equality" of the round-0 plan, which turned out too large): an **eBPF ISA model in Coq** (`coq/Ebpf/Isa.v`: registers, stack,
packet, array maps, ALU32/64, jumps, byte swaps, atomic add, helper calls 1 / 5 / 7 / 12) that is itself validated against the
running kernel on every run (`harness/isa_check.py`: random programs through BPF_PROG_TEST_RUN; skipped when bpf() is not
permitted); the hash-map helper calls layered on top of it (`coq/Corr/C09.v`) are validated the same way against real BPF hash
maps (`harness/hash_check.py`: lookup / update with every flag / delete, capacity, values through returned pointers, pointers kept
across an update).  The REAL generator is driven through a small JSON surface language (`harness/dsl.py`, real operator overloads and
descriptors), its real bytecode is executed in the ISA model, and three things are compared: executed code == operand-level
model (`Gen/Denote.v`, `Gen/Cond.v`, `Gen/Packet.v`, `Gen/Fixed.v`, ...; all cases), executed code == exact mathematical
meaning (inside the property's precondition), ISA == kernel.  Device and dispatcher programs (C19, C21, C22, C26) are assembled
from real `FastSyncGroup` / `EtherXDP` objects built on a simulated bus (`harness/rig.py`).

What runs around the master properties: a register-level EtherCAT bus simulator (`sim_bus.py`), a strict mailbox / SDO server
(`sim_mailbox.py`), stand-ins for the bpf() wrappers (`sim_kernel.py`) and for the bpf() system call itself with a registry of
buffer lengths (`sim_bpf.py`), forked child processes whose file-system steps are gated by the parent (`procs.py`).

## 2. How a check runs (`bin/check Cxx quick|thorough|--replay F`, `harness/common.py`)

1. regenerate `Consts.v` from `/repo`; 2. full `.vo` build of the property's cone (`coq_makefile`, no `-vos`), under a lock;
3. scan the cone for `Axiom|Parameter|Admitted|admit|Conjecture|Unset Guard|bypass_check` and collect the `Print Assumptions`
output (all theorems: "Closed under the global context"); 4. corpus + generated cases (one PRNG seeded by `VERIF_SEED`); run the
real code; 5. correspondence (all cases that have a model term) ; 6. oracle; 7. classify failures against `known_findings.json`
(a class predicate per open finding - a different failure of the same property is still a violation); 8. if a theorem, the
build, the tie or the correspondence broke and no failing input is at hand, search more cases; print
`VIOLATION property=<id> replay=<file>` (plus `no-failing-input-found` if none), `KNOWN-FINDING: ...` lines, write
`evidence/<id>.json` (obligations = theorems + build + forbidden-construct scan, discharged, distribution of the generated
inputs, sample of observations, `further_ties`: the outcome of every additional tie such as ISA-vs-kernel).  `bin/setup` builds everything; `bin/checkall` runs every quick check.

## 3. Trusted base

* Coq 8.16.1 kernel; `vm_compute` (no `native_compute`); no axioms: every `Print Assumptions` says "Closed under the global
  context" (QArith, MSetRBT, Lia are axiom-free); nothing declared with Axiom / Parameter / Admitted; no kernel check switched off.
  `bin/coqchk` re-checks the compiled property files and everything they depend on with Coq's independent checker (ten minutes;
  its last summary is kept in `coqchk_summary.txt`): "Axioms: <none>", nothing relying on type-in-type, unsafe fixpoints or
  assumed positivity.
* `harness/gen_consts.py` also regenerates `Generated/SerialLayout.v` (the process-image layout of the two-channel serial terminals,
  read from terminals.py with `ast`, fail-closed; compared with the live descriptor objects on every run of C28).
* `harness/gen_consts.py` (ast reader), `harness/common.py` (case files, result parsing), `coqc` printing.
* The hand-written models: the tie is differential testing, so it is only as good as the generated inputs; every evidence
  file records the generation rule and the distribution actually produced.
* `coq/Ebpf/Isa.v` (validated against the kernel when bpf() works, otherwise trusted); `coq/Corr/C09.v` (hash-map helper calls
  on top of it: validated against the kernel's real hash maps by `harness/hash_check.py` - return values of lookup / update with
  every flag / delete, capacity, values through the returned pointers, final map - when bpf() works); `coq/Corr/C06.v` (multi-instance scheduler).
* The simulators listed in section 1 (they stand for hardware, kernel and netlink); Python's `struct`, `fractions`, `asyncio`
  cancellation semantics, `fcntl` locks, `multiprocessing` shared arrays.
* Per check, `evidence/<id>.json` repeats its own list under `trusted_base`.

## 4. Interpretation decisions and corrected false alarms

* **Widths (C01-C03)**: "fit the narrowest width involved" is read with the generator's rule: an operation is computed in 32
  bits when its destination or any operand is 4 bytes or narrower; additionally a sub-expression whose left-most operand is a
  constant is computed at the constant's (32-bit) width (`0.29 - q < c`): such cases are outside the precondition.  The first
  C02 comparison oracle did not know that and raised two false alarms; corrected in the oracle, not in the code.
* **C04**: `ArrayMap.init` clears a scratch word when the program starts; the harness presets memory and first read that as
  "a subprogram local changed" - a harness artefact (no declared variable can hold a value before the program starts); the
  baseline is now what memory holds after that write.  Expression targets are checked for non-interference only (their value
  is C01's / C02's business).
* **C12, C24, C30**: events are attributed when a request is submitted, not when it is transmitted; a task cancelled before its
  coroutine first runs is outside C24's quantifier.
* **C22, last clause**: proved is "never two consecutive frames bypass both program and user space".  Counting frames handed to
  user space as "passing without the program", the bounded exploration finds a history with three (three injections in a row);
  the clause is ambiguous on that point, so this is reported in the evidence and in the manifest note, not raised.
* **C23**: a failed `open(..., 'x')` attempt is a step of its own (the first model made the whole ethertype search atomic and
  disagreed with the real processes on 13 of 402 schedules); model corrected.
* **eval_terms**: large outputs through a pipe dead-locked the harness (20-minute stalls); outputs now go through files.
* **C09, accepted refusals**: the C09 oracle accepted "register r0 has no value" as "the generator refused the program".  After
  fix 83524c6 kept r1 alive across helper calls, 85% of the Dict cases were refused that way and the check had silently lost most
  of its coverage (found while strengthening it for seed C09-b).  The refusal was itself a genuine defect (Dict.update / lookup
  saved live registers into r0, fix e7e48d1); the exemption is removed and `distinct_nontrivial` is back to all cases.
* **C29 thorough**: a test value (-3.0e10) that is not representable in 32 bits was written to an `f` variable and "read back
  differently": harness error, value replaced.
* **C01 thorough, unfolded constant sub-tree**: `d:b = abs(neg(-1) - (-3 & v2))` was reported because the oracle typed `neg(-1)` as signed
  (negation is signed) while Python folds it to the plain constant 1 before the DSL sees it; the unsigned-typed difference is
  negative and outside the precondition.  The oracle now folds constant sub-trees first (as the model term already did).
* **C23, participants still trying ethertypes**: after the generator's random stream changed, one schedule in 405 differed from the
  model only in the ethertype field of a participant that never got past its candidates; that field is now normalised like the one
  of aborted participants.  The same re-run surfaced a second shape of the open start / stop race (section 6).
* **Concurrent development runs**: a thorough run of C06 reported 970 mismatches once because Coq sources were rebuilt under it
  (model evaluation failed); checks must not run while the development is being edited.  Re-run alone: clean.
* **Atomicity assumptions are now exercised, not only stated**: where a theorem treats a critical section as one step, the tie
  drives the real code through the gap - file locks (C23: an allocation against a removal, the waiting side must report that it
  waits; C15: two terminals per process), asyncio sections (C20: bus writes that complete when the script says; C25), and
  machine-checked witnesses show what happens without the atomicity (`C23_split_release_refuted`, `C20_split_booking_refuted`).
* **Alarms raised by new case families on the unchanged tree while strengthening (rounds 7-9), all corrected in the machinery**:
  C03 - `abs()` / unary minus of an UNSIGNED register holding a value of 2**63 and more in a condition: the generator negates in
  two's complement, the oracle took the mathematical absolute value; such operands are outside the quantifier (as in C01) and the
  new atoms are restricted to signed registers.  C16 - a `memoryview` offered to `sdo_write` is refused by struct for the expedited
  form: a refusal, not a violation; values are offered as bytes and bytearray only.  C20 - the first oracle of the group scripts
  demanded that a group be accepted whenever enough FMMUs were free; the slot search of an output / input mapping does not cover
  every slot (that rule is the terminal-level model's), the demand was dropped, and the scripts are now compared with the group
  model `run_groups` instead.  C25 - in the first hot-plug scenario a newcomer could carry an address that the first scan had just
  handed out: a conflict no master can avoid; newcomers now carry addresses of the range that nobody has at that moment.  C08 - a
  preliminary program in the same simulated kernel shifted the map numbering the harness used for the program under test.  C06 -
  a device's local variable preset by the harness shared bytes with the scratch word of the main program's map lookup (harmless
  at program start, cf. C04): the program now sets the local itself.  C28 - not an alarm but the opposite: the harness's trace
  kept references to the device's own chunk objects alive and thereby hid an address-reuse defect (seed C28-g); it stores copies.
* **Round 10, C03**: giving a fifth of C03's variables an explicit byte order shifted the random stream, and two of the new conditions
  alarmed on the unchanged tree (thorough tier and seed 3): `(v2 & -2**63) == 0` with a 4-byte v2 = 2**31, and `(v0 + v0) == -1`
  with a 4-byte v0.  Both are outside the property's precondition - an operand INSIDE the condition does not fit the narrowest
  width involved (32 bits) - which the oracle only tested for the two sides of the comparison, not for the operands of the
  arithmetic inside them; the oracle now tests every operand (`operands_fit`), and a case with such a condition is not handed to
  the model.  The byte-order choice moved to its own random stream, so the older cases are generated as before.  Re-running all
  ten C03 seeds afterwards showed that three of them (C03-c, C03-e, C03-g) had been caught by only one or two lucky cases of the
  400 and were lost when the stream moved: a family of 60 (900 thorough) directed cases on its own stream now covers them
  (64-bit operand against a negative narrower variable; fixed-point variable exactly at a negative decimal constant; block
  ending in a nested block that exits, followed by an Else block) - each of the three is now caught by 3 to 9 cases.
* Every other mismatch met on the unchanged tree turned out to be a genuine defect: section 6.
'''

NA = r'''
## 7. Not applicable

* **C05 (every accepted program loads into the kernel)**: the deciding component is the Linux eBPF verifier, which is outside
  the repository.  A Gallina model faithful enough to *decide* acceptance would be a re-implementation of the verifier (register
  types, pointer arithmetic bounds, packet-range propagation, helper prototypes, state pruning) that could only be validated by
  differential testing against the kernel - at which point the theorem adds nothing over loading the programs.  What a proof
  can carry is covered elsewhere: the ISA model faults on every out-of-bounds access (C04, C07, C09 executions), locals are
  laid out inside the stack (C04), packet accesses lie inside the guard (C07).  During development the repaired dispatcher and
  the kernel tests were loaded into the real kernel (BPF_PROG_LOAD accepts `EtherXDP` after the fixes 83524c6 / e2737e5), but
  that is a test, not a proof, and is not registered as a check.
'''


def main():
    man = json.load(open(os.path.join(VERIF, "MANIFEST.json")))
    kf = json.load(open(os.path.join(VERIF, "known_findings.json")))["findings"]
    out = [HEAD]
    out.append("\n## 5. The properties: theorem, tie, what is partial\n")
    for c in man["checks"]:
        out.append(f"### {c['property_id']}\n\n{c['level_claimed']['text']}\n\n*Trusted / partial:* {c['level_note']}\n")
    out.append("\n## 6. Findings on the unchanged tree\n")
    out.append("Every entry was first reported by a check as a VIOLATION with a replay against the real code.  Fixed entries are one "
               "`fix:` commit each in /repo (the 44 baseline tests still pass, unedited); open entries are printed as KNOWN-FINDING "
               "by the check (matched by a class predicate, so any other violation of the property is still reported).\n")
    out.append("\n**Open (recorded, not repaired - pinned by golden instruction lists or not a small patch):**\n")
    for f in kf:
        if f["status"] == "open":
            out.append(f"* {f['property']} `{f['class']}`: {f['what']}")
    out.append("\n**Fixed:**\n")
    for f in kf:
        if f["status"] == "fixed":
            out.append(f"* {f['fixed']}")
    out.append(NA)
    out.append("\n## 8. Seeded changes: which check catches what\n")
    out.append("Each seed was written by a fresh sub-agent that saw only the property text and a scratch worktree; the patch passes the "
               "44 tests.  `bin/seedtest <dir> <Cxx>` applies it, runs demo, tests and the check, and restores the tree.  Where a check "
               "first missed a seed it was strengthened (last column).  `bin/seedall [jobs] [pattern]` is the regression over the whole "
               "table: every seed against the quick tier of the check that owns it, each in its own scratch worktree (28 minutes with ten "
               "jobs).  Its last run, after the tenth round: 273 rows, all caught by the owning check's quick tier except two that had "
               "depended on one or two random cases and had been lost when the generators grew (C01-f; C03-c, -e, -g were found the "
               "same way) - directed case families on their own random streams now cover those shapes, so they no longer depend on "
               "the stream.  Generators draw new case families from separate streams for the same reason.  The same regression under "
               "VERIF_SEED=1 (quick tier) catches 267 of the 273; six seeds are caught with the default seed but not with seed 1 at the quick "
               "tier - C07-a, C19-g, C16-h, C02-i, C13-i, C23-i: their failing inputs are reached by a few random cases only, the quick tier "
               "can miss them depending on the seed, and directed families for them were not written for lack of time (the thorough "
               "tier draws 8 to 16 times as many cases).\n")
    res = open(os.path.join(VERIF, "seeded", "RESULTS.md")).read()
    out.append(res[res.index("| seed |"):])
    with open(os.path.join(VERIF, "DESIGN.md"), "w") as f:
        f.write("\n".join(out) + "\n")
    print("DESIGN.md written:", sum(len(x) for x in out), "chars")


if __name__ == "__main__":
    main()
