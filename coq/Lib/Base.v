(* Common header: arithmetic automation and the universal value type used by
   the correspondence checks. *)
From Coq Require Export ZArith List Bool Lia ZifyBool.
Export ListNotations.
Open Scope Z_scope.

Ltac Zify.zify_post_hook ::= Z.to_euclidean_division_equations.

(* Universal value: what the Python harness and the Gallina models both
   produce, so that one boolean equality decides agreement. *)
Inductive V : Type :=
| VZ (z : Z)
| VL (l : list V).

Fixpoint veqb (a b : V) {struct a} : bool :=
  match a, b with
  | VZ x, VZ y => Z.eqb x y
  | VL xs, VL ys =>
      (fix go (xs ys : list V) {struct xs} : bool :=
         match xs, ys with
         | [], [] => true
         | x :: xs', y :: ys' => veqb x y && go xs' ys'
         | _, _ => false
         end) xs ys
  | _, _ => false
  end.

Definition VB (l : list Z) : V := VL (map VZ l).
Definition VBool (b : bool) : V := VZ (if b then 1 else 0).
Definition VNone : V := VL [VZ (-1)].
Definition VErr (code : Z) : V := VL [VZ (-2); VZ code].
Definition VOpt {A} (f : A -> V) (o : option A) : V :=
  match o with Some a => VL [VZ 1; f a] | None => VNone end.

(* run-length encoding, so that long frames stay short in the case files *)
Fixpoint rle (l : list Z) : list (Z * Z) :=
  match l with
  | [] => []
  | x :: tl =>
      match rle tl with
      | (y, n) :: r => if x =? y then (y, n + 1) :: r else (x, 1) :: (y, n) :: r
      | [] => [(x, 1)]
      end
  end.
Definition VR (l : list Z) : V := VL (map (fun p => VL [VZ (fst p); VZ (snd p)]) (rle l)).

(* flat integer encoding of a value, printed by the harness to read results back:
   VZ z -> 0, z ; VL l -> 1, length, elements *)
Fixpoint flat (v : V) : list Z :=
  match v with
  | VZ z => [0; z]
  | VL l => 1 :: Z.of_nat (length l) :: flat_map flat l
  end.

(* indices of the cases on which model and implementation disagree *)
Fixpoint mismatches_from (i : nat) (l : list (V * V)) : list nat :=
  match l with
  | [] => []
  | (a, b) :: tl => if veqb a b then mismatches_from (S i) tl
                    else i :: mismatches_from (S i) tl
  end.
Definition mismatches := mismatches_from 0.
