"""C21: the REAL SterilePacket.sterile() and the REAL generated FastSyncGroup program
(re-activation of the write datagrams, executed in the Coq ISA model) against
Ecat/Dispatch.v `sterile` / `activate`; the dispatcher half of the property is
validated by C22's check."""
import asyncio
import logging
import struct

from .common import Check, Err, clist, cz, cnat
from . import ebpf_exec, sim_kernel, isa_check

logging.disable(logging.CRITICAL)


class C21(Check):
    pid = "C21"
    props_file = "Props/C21.v"
    corr_imports = ["Ebpf.Isa", "Corr.Exec", "Ecat.Dispatch", "Ecat.UserLoop", "Corr.C22", "Corr.C21"]
    shard = 60
    technique = ("Coq theorems (activation rewrites exactly command byte and working counter of the write datagrams, counts at most one error each, does nothing "
                 "with output disabled; the dispatcher enables nothing; in EVERY history a frame bypassing the group's program has no enabled write datagrams - "
                 "invariant proof by induction over event lists) + the REAL sterile() and the REAL generated FastSyncGroup program against the model")
    trusted = ["coq/Ebpf/Isa.v (kernel-validated)", "harness/rig.py, sim_bus.py, sim_kernel.py (provide the objects the sync group is built from)"]
    assumptions = ["the abstraction of a group's frames to (index, enabled) in `gstep` - tied to the bytecode through C22's correspondence of `dispatch_core`"]
    known_classes = {}

    def make_case(self, rng):
        terms = [{"in": rng.randint(1, 6), "out": rng.randint(1, 6), "fmmu": rng.random() < 0.6, "rw": rng.random() < 0.75} for _ in range(rng.randint(1, 4))]
        if not any(t["rw"] for t in terms):
            terms[0]["rw"] = True
        return {"terms": terms, "wkc_errors": rng.choice([0, 0, 1, 1, 1, 5, 2 ** 32 - 1]), "wkc_mode": rng.choice(["expected", "expected", "random", "zero", "mixed"]),
                "seed": rng.randrange(2 ** 30), "index": rng.randrange(256)}

    def loop_case(self, rng):
        script = [rng.choice(["sterile", "active", "active", "lost"]) for _ in range(rng.randint(4, 9))]
        if "lost" not in script:
            script[rng.randrange(1, len(script))] = "lost"
        return {"kind": "loop", "script": script}

    def gen_cases(self):
        import random
        cases = [self.make_case(self.rng) for _ in range(80 if self.tier == "quick" else 800)]
        rng = random.Random(self.seed + 12)      # its own stream: the cases above stay what they were
        return cases + [self.loop_case(rng) for _ in range(6 if self.tier == "quick" else 60)]

    def build(self, case, kernel):
        import random
        from .rig import Rig
        from ebpfcat.ebpfcat import FastEtherCat, FastSyncGroup, Device, TerminalVar
        res = {}

        class Dev(Device):
            a = TerminalVar()
            b = TerminalVar()

            def __init__(self, t, rw):
                self.a = t.in_word if t.pdo_in_sz >= 2 else t.in_bit if t.pdo_in_sz >= 3 else None
                if rw:
                    self.b = t.out_word if t.pdo_out_sz >= 2 else None

            def program(self):
                pass

        async def go():
            specs = [dict(pos=1001 + i, **{"in": max(t["in"], 2), "out": max(t["out"], 2)}, fmmu=t["fmmu"], rw=t["rw"]) for i, t in enumerate(case["terms"])]
            rig = Rig(specs, ec_class=FastEtherCat)
            rig.connect()
            devs = [Dev(t, s["rw"]) for t, s in zip(rig.terms, case["terms"])]
            sg = FastSyncGroup(rig.ec, devs)
            sg.allocate()
            sg.assemble()
            fds = {fd: i for i, fd in enumerate(kernel.maps)}
            instrs = []
            for ins in sg.opcodes:
                op, dst, src, off, imm = ins
                if op.value == 0x18 and src == 1:
                    imm = fds.get(imm, 0)
                instrs.append((op.value, dst, src, off, imm))
            full = bytes(sg.packet.assemble(case["index"], 0x88a4))
            ster = bytes(sg.packet.sterile(case["index"], 0x88a4))
            otf = [(start, stop - 2, cmd.value, sg.packet.counters[stop - 2]) for start, stop, cmd in sg.packet.on_the_fly]
            res.update(instrs=instrs, full=full, sterile=ster, otf=otf, map_size=FastSyncGroup.properties.size, wkc_pos=sg.__dict__["wkc_errors"])
            await rig.shutdown()
        asyncio.run(go())
        rnd = random.Random(case["seed"])
        f = bytearray(res["sterile"])
        for k, (start, wkc, cmd, exp) in enumerate(res["otf"]):
            mode = case["wkc_mode"] if case["wkc_mode"] != "mixed" else rnd.choice(["expected", "random", "zero"])
            v = exp if mode == "expected" else 0 if mode == "zero" else rnd.choice([exp + 1, exp - 1, rnd.randrange(65536)]) % 65536
            struct.pack_into("<H", f, wkc, v)
        res["frame_in"] = bytes(14) + bytes(f)
        amap = bytearray(res["map_size"])
        struct.pack_into("<I", amap, res["wkc_pos"], case["wkc_errors"])
        res["map_in"] = bytes(amap)
        return res

    def prepare(self, cases):
        from .common import eval_terms
        terms, idx = [], []
        for i, c in enumerate(cases):
            c["_run"] = None
            if c.get("kind") == "loop":
                continue
            with sim_kernel.installed() as kernel:
                try:
                    c["_b"] = self.build(c, kernel)
                except Exception as e:      # noqa
                    import traceback
                    c["_b"] = Err(6, f"{type(e).__name__}: {e} {traceback.format_exc()[-300:]}")
                    continue
            b = c["_b"]
            terms.append(f"(exec_vars {ebpf_exec.cprog(b['instrs'])} {ebpf_exec.cbytes(b['frame_in'])} [{ebpf_exec.cbytes(b['map_in'])}] [] [])")
            idx.append(i)
        vals, log = eval_terms(self.pid, self.corr_imports, terms, shard=30)
        for i, v in zip(idx, vals):
            cases[i]["_run"] = v
        return log

    def run_impl(self, case):
        if case.get("kind") == "loop":
            try:
                o = self.run_loop(case["script"])
                case["_o"] = o
                return o
            except Exception as e:      # noqa
                return Err(8, f"{type(e).__name__}: {e}")
        b = case["_b"]
        if isinstance(b, Err):
            return b
        r = case["_run"]
        if r is None:
            return Err(9, "model evaluation failed")
        status, pkt, maps, stack, regs = r
        if status != [1]:
            return Err(7, f"the program did not exit normally: status {status}")
        pkt = bytes(x for x, n in pkt for _ in range(n))
        errors = struct.unpack_from("<I", bytes(maps[0]), b["wkc_pos"])[0]
        o = {"frame": pkt.hex(), "errors": errors, "r0": regs[0] % 2 ** 32, "sterile": b["sterile"].hex(), "full": b["full"].hex()}
        case["_o"] = o
        return o

    def cotf(self, b):
        return clist([f"({cnat(s)}, {cnat(w)}, {cz(c)}, {cz(e)})" for s, w, c, e in b["otf"]])

    def model_term(self, case):
        if case.get("kind") == "loop":
            o = case.get("_o")
            if o is None or isinstance(o, Err) or not o["asm"]:
                return None
            # the two priming frames' answers never reach the loop (their futures are cancelled); from the third frame on every
            # script entry is an event of the loop
            H = bytes(14)
            evs = ["UTimeout" if e is None else f"(URecv {ebpf_exec.cbytes(H + bytes.fromhex(e))})" for e in o["events"][2:]]
            return f"(run_uloop {cnat(len(o['sent']))} {ebpf_exec.cbytes(H + bytes.fromhex(o['asm']))} {clist(evs)})"
        b = case["_b"]
        if isinstance(b, Err) or case.get("_o") is None:
            return None
        # [activation of the frame by the program; user space's sterile() of the assembled frame (with Ethernet header for the model)]
        return (f"(VL [run_activate {self.cotf(b)} {ebpf_exec.cbytes(b['frame_in'])} {cz(case['wkc_errors'])}; "
                f"VB (sterile {self.cotf(b)} {ebpf_exec.cbytes(bytes(14) + b['full'])})])")

    def model_value(self, case, o):
        if case.get("kind") == "loop":
            return [list(bytes(14) + bytes.fromhex(f)) for f in o["sent"]]
        e = o["errors"]
        if case["wkc_errors"] == 0:
            e = 0
        return [[list(bytes.fromhex(o["frame"])), e], list(bytes(14) + bytes.fromhex(o["sterile"]))]

    def holds(self, case, o):
        if isinstance(o, Err):
            return f"{o.what}; {case}"
        if case.get("kind") == "loop":
            if o["bad"]:
                return f"{len(o['bad'])} of {o['frames']} cyclic frames sent by the real FastSyncGroup.run() had enabled write datagrams; first: {o['bad'][0]}"
            if o["frames"] < len(case["script"]):
                return f"the loop sent only {o['frames']} cyclic frames for a script of {len(case['script'])}"
            return True
        b = case["_b"]
        fin, fout = b["frame_in"], bytes.fromhex(o["frame"])
        ster, full = bytes.fromhex(o["sterile"]), bytes.fromhex(o["full"])
        # user space: sterile = assembled frame with the write datagrams' commands replaced by NOP, nothing else
        diff = [k for k in range(len(full)) if full[k] != ster[k]]
        starts = [s for s, w, c, e in b["otf"]]
        if any(ster[s] != 0 for s in starts) or any(k not in starts for k in diff):
            return f"sterile() does not disable exactly the write datagrams: differs from assemble() at {diff}, write datagrams start at {starts}"
        if o["r0"] != 3:
            return f"the group's program returned {o['r0']} instead of XDP_TX"
        if case["wkc_errors"] == 0:
            if fout != fin:
                return "output disabled (wkc_errors = 0) but the program changed the frame"
            return True
        expect = bytearray(fin)
        errs = case["wkc_errors"]
        for s, w, c, e in b["otf"]:
            expect[s + 14] = c
            if struct.unpack_from("<H", fin, w + 14)[0] != e:
                errs += 1
            expect[w + 14] = expect[w + 15] = 0
        if fout != bytes(expect):
            return f"activated frame {fout.hex()} differs from the expected {bytes(expect).hex()} (write datagrams {b['otf']})"
        if o["errors"] != errs % 2 ** 32:
            return f"wkc_errors is {o['errors']}, expected {errs % 2 ** 32} (one per write datagram with a wrong counter)"
        return True

    def nontrivial(self, case, o):
        return not isinstance(o, Err) and (case.get("kind") == "loop" or case["wkc_errors"] != 0)

    def run_loop(self, script):
        """the user-space half of a fast group: the REAL FastSyncGroup.run() on the simulated bus; the 'kernel' hands it sterile and
        active frames and loses some (20 ms timeout, re-send): every cyclic frame that leaves user space must have its write
        datagrams disabled."""
        from .rig import Rig
        from ebpfcat.ebpfcat import FastEtherCat, FastSyncGroup, Device, TerminalVar
        res = {"frames": 0, "lost": 0, "bad": [], "sent": [], "events": [], "asm": None}

        class Dev(Device):
            a = TerminalVar()
            b = TerminalVar()

            def __init__(self, t):
                self.a = t.in_word
                self.b = t.out_word

            def program(self):
                pass

        async def one(kernel):
            specs = [dict(pos=1001 + i, **{"in": 8, "out": 4}, fmmu=i % 2 == 0, rw=True) for i in range(2)]
            rig = Rig(specs, ec_class=FastEtherCat)
            state = {"k": 0}

            def deliver(no, req, resp):
                sg_ = state.get("sg")
                if sg_ is None or len(req) < 30:
                    return [resp]
                idx, = struct.unpack_from("<I", req, 4)
                if idx != getattr(sg_, "packet_index", None):
                    return [resp]
                res["frames"] += 1
                res["sent"].append(bytes(req).hex())
                res["asm"] = bytes(sg_.asm_packet).hex()
                for start, stop, cmd in sg_.packet.on_the_fly:
                    if req[start] != 0:
                        res["bad"].append(f"cyclic frame #{state['k']} left user space with command {req[start]} (not NOP) in the write datagram at {start}, "
                                          f"working counter {req[stop - 2] | req[stop - 1] << 8}")
                what = script[state["k"] % len(script)]
                state["k"] += 1
                if what == "lost":
                    res["lost"] += 1
                    res["events"].append(None)
                    return []
                r = bytearray(resp)
                if what == "active":
                    # what the group's program makes of it: odd loop index (EtherXDP.INDEX0 - 14), write datagrams enabled and processed
                    r[3] |= 1
                    for start, stop, cmd in sg_.packet.on_the_fly:
                        r[start] = cmd.value
                        r[stop - 2], r[stop - 1] = 1, 0
                else:
                    r[3] &= 0xfe
                res["events"].append(bytes(r).hex())
                return [bytes(r)]
            rig.connect(deliver)
            devs = [Dev(t) for t in rig.terms]
            rig.ec.programs = kernel.create_map(type("T", (), {"name": "PROG_ARRAY"}), 4, 4, 64)
            sg = FastSyncGroup(rig.ec, devs)
            sg.cycletime = 0
            state["sg"] = sg
            task = sg.start()
            for _ in range(3000):
                await asyncio.sleep(0)
                if task.done() or state["k"] >= len(script):
                    break
                if state["k"] and script[(state["k"] - 1) % len(script)] == "lost":
                    await asyncio.sleep(0.03)
            task.cancel()
            try:
                await task
            except BaseException:      # noqa
                pass
            await rig.shutdown()
        with sim_kernel.installed() as kernel:
            asyncio.run(one(kernel))
        return res

    def extra_checks(self):
        # the property is stated over the frame histories of the dispatcher (C22): the real dispatcher bytecode must be the
        # dispatch model for which tx_never_enabled is proved
        from .common import foreign_correspondence
        from .c22 import C22
        return [isa_check.check(self.seed + 10, 40 if self.tier == "quick" else 300),
                foreign_correspondence(C22, self.tier, self.seed + 11, 150 if self.tier == "quick" else 1500)]

    def rule(self):
        return ("fast sync groups over 1-4 simulated terminals (FMMU or direct, read-write or read-only: 1-5 write datagrams), frames from the real sterile() "
                "with working counters equal to / different from the expected values, wkc_errors 0 (output disabled), 1, 5, 2**32-1; "
                "plus scripted runs of the real FastSyncGroup.run() on the simulated bus, in which the kernel side answers with sterile or activated frames "
                "or loses the frame (timeout and re-send): no cyclic frame may leave user space with an enabled write datagram")

    def distribution(self, cases, observed):
        d = {"disabled": 0, "write_datagrams": 0, "wrong_counters": 0, "errors": 0}
        for c, o in zip(cases, observed):
            d["errors"] += isinstance(o, Err)
            if c.get("kind") == "loop":
                d["loop_scripts"] = d.get("loop_scripts", 0) + 1
                if not isinstance(o, Err):
                    d["loop_frames"] = d.get("loop_frames", 0) + o["frames"]
                    d["loop_frames_lost"] = d.get("loop_frames_lost", 0) + o["lost"]
                continue
            d["disabled"] += c["wkc_errors"] == 0
            if not isinstance(c.get("_b"), Err) and c.get("_b"):
                d["write_datagrams"] += len(c["_b"]["otf"])
        return d

    def describe(self, case):
        return {k: v for k, v in case.items() if not k.startswith("_")}


CHECK = C21
