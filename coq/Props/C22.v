(* C22 The dispatcher keeps fast groups running under loss and injection.
   Model (Ecat/Dispatch.v): `dispatch_core` - the loop-counter logic of
   EtherXDP.program (frame index against counter byte), `dispatch` - its effect
   on a frame and the counter map.  Validated on every run against the REAL
   dispatcher bytecode executed in the ISA model. *)
From Verif Require Import Ecat.Dispatch Ecat.Dispatch_proofs.

(* never drops (the random dropper is off): every frame is returned to the bus, handed to user space, or to its group's program *)
Theorem C22_never_drops : forall reg f m, snd (dispatch reg f m) <> ADrop.
Proof. exact dispatch_never_drops. Qed.
Print Assumptions C22_never_drops.

(* non-EtherCAT frames, EtherCAT frames not starting with the identification datagram and frames of at most 30 bytes pass unchanged *)
Theorem C22_foreign_unchanged : forall reg f m, is_group_frame f = false -> dispatch reg f m = (f, m, APass).
Proof. exact foreign_unchanged. Qed.
Print Assumptions C22_foreign_unchanged.

(* a group without registered program: its frames are never handed to a program, and reach user space with the ethertype of
   the identification datagram; a frame goes straight back to the bus at most every other time (next theorem) *)
Theorem C22_unregistered_group : forall reg f m f' m' a, is_group_frame f = true -> (forall g, reg g = false) ->
  Forall (fun b => 0 <= b < 256) f -> dispatch reg f m = (f', m', a) ->
  (a = ATx \/ (a = APass /\ byte_at f' ETHERTYPE_POS = byte_at f (S DATA0) /\ byte_at f' (S ETHERTYPE_POS) = byte_at f DATA0)).
Proof. exact unregistered_group. Qed.
Print Assumptions C22_unregistered_group.

(* after a frame of a group went straight back to the bus, the NEXT frame of that group - whatever its index - is handed to
   the group's program or to user space: never two consecutive frames bypass both *)
Theorem C22_no_two_bypasses : forall c i c' idx i', 0 <= c -> 0 <= i < 256 ->
  dispatch_core c i = (c', idx, KTx) -> snd (dispatch_core c' i') <> KTx.
Proof. exact no_two_tx. Qed.
Print Assumptions C22_no_two_bypasses.

(* PARTIAL with respect to the property's last clause ("no more than two consecutive frames pass without running the group's
   program"): proved is C22_no_two_bypasses; counting frames handed to user space as well, the bounded exploration of the check
   finds histories with three (three frames injected at once), which the clause may or may not mean - see DESIGN.md. *)

Example C22_nonvacuous :
  dispatch_core 7 6 = (8, Some 8, KTx) /\ dispatch_core 8 7 = (9, Some 9, KTail) /\ dispatch_core 8 8 = (9, Some 9, KTail) /\
  dispatch_core 9 3 = (9, None, KUser).
Proof. vm_compute. auto. Qed.
