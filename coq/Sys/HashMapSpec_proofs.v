From Verif Require Import Sys.HashMapSpec.

Lemma bytes_eqb_refl a : bytes_eqb a a = true.
Proof. induction a as [|x a IH]; cbn; [reflexivity|]. rewrite Z.eqb_refl, IH. reflexivity. Qed.
Lemma bytes_eqb_eq a : forall b, bytes_eqb a b = true -> a = b.
Proof.
  induction a as [|x a IH]; intros [|y b] H; cbn in H; try discriminate; [reflexivity|].
  apply andb_true_iff in H as [H1 H2]. apply Z.eqb_eq in H1. f_equal; auto.
Qed.
Lemma bytes_eqb_sym a b : bytes_eqb a b = bytes_eqb b a.
Proof.
  destruct (bytes_eqb a b) eqn:E.
  - apply bytes_eqb_eq in E. subst. symmetry. apply bytes_eqb_refl.
  - destruct (bytes_eqb b a) eqn:E'; [|reflexivity]. apply bytes_eqb_eq in E'. subst. rewrite bytes_eqb_refl in E. discriminate.
Qed.

Section Laws.
Context {A : Type}.
Implicit Types t : @table A.

(* what one side stores under a key, the other finds under that key *)
Theorem lookup_update_same k v t : t_lookup k (t_update k v t) = Some v.
Proof.
  induction t as [|[k' v'] tl IH]; cbn [t_update t_lookup]; [rewrite bytes_eqb_refl; reflexivity|].
  destruct (bytes_eqb k k') eqn:E; cbn [t_lookup]; [rewrite bytes_eqb_refl; reflexivity|rewrite E; exact IH].
Qed.
(* every other key is an independent cell *)
Theorem lookup_update_other k k' v t : bytes_eqb k' k = false -> t_lookup k' (t_update k v t) = t_lookup k' t.
Proof.
  intros N. induction t as [|[k0 v0] tl IH]; cbn [t_update t_lookup]; [rewrite N; reflexivity|].
  destruct (bytes_eqb k k0) eqn:E; cbn [t_lookup].
  - apply bytes_eqb_eq in E. subst k0. rewrite N. reflexivity.
  - destruct (bytes_eqb k' k0); [reflexivity|exact IH].
Qed.
Theorem lookup_delete_same k t : t_lookup k (t_delete k t) = None.
Proof.
  induction t as [|[k' v'] tl IH]; cbn [t_delete t_lookup]; [reflexivity|].
  destruct (bytes_eqb k k') eqn:E; [exact IH|]. cbn [t_lookup]. rewrite E. exact IH.
Qed.
Theorem lookup_delete_other k k' t : bytes_eqb k' k = false -> t_lookup k' (t_delete k t) = t_lookup k' t.
Proof.
  intros N. induction t as [|[k0 v0] tl IH]; cbn [t_delete t_lookup]; [reflexivity|].
  destruct (bytes_eqb k k0) eqn:E.
  - apply bytes_eqb_eq in E. subst k0. rewrite N. exact IH.
  - cbn [t_lookup]. destruct (bytes_eqb k' k0); [reflexivity|exact IH].
Qed.
End Laws.
