(* The process image of the two-channel serial terminals (ebpfcat/terminals.py:
   EL6002, EL6022).  The descriptors and channel offsets come from
   Generated/SerialLayout.v, which harness/gen_consts.py rewrites from the
   source on every run.  A Python write of a process variable
   (ebpfcat.py PacketVar.set) replaces `width` bytes of the image starting at
   sync-manager base + channel offset + position (a bit variable rewrites its
   one byte). *)
From Verif Require Export Lib.Base.
From Verif Require Export Generated.SerialLayout.

Definition desc := (Z * Z * Z * Z)%type.
Definition d_sm (d : desc) : Z := let '(sm, _, _, _) := d in sm.
Definition d_pos (d : desc) : Z := let '(_, p, _, _) := d in p.
Definition d_bit (d : desc) : Z := let '(_, _, b, _) := d in b.
Definition d_width (d : desc) : Z := let '(_, _, _, w) := d in w.

(* offset of a channel in the image of sync manager sm (3 = inputs, 2 = outputs) *)
Definition chan_off (c : Z * Z) (sm : Z) : Z := if sm =? 3 then fst c else snd c.
(* first and one-past-last byte of descriptor d of channel c, relative to the start of its sync manager's image *)
Definition lo (c : Z * Z) (d : desc) : Z := chan_off c (d_sm d) + d_pos d.
Definition hi (c : Z * Z) (d : desc) : Z := lo c d + d_width d.

(* data[start : start + len bs] = bs, all inside the image *)
Definition wr (img : list Z) (start : nat) (bs : list Z) : list Z :=
  firstn start img ++ bs ++ skipn (start + length bs) img.

Definition disjointb (a b c d : Z) : bool := (b <=? c) || (d <=? a).

(* every variable of one channel against every variable of ANOTHER channel in the same sync manager *)
Definition pairs_ok (descs : list desc) (chans : list (Z * Z)) : bool :=
  forallb (fun cc => let '(c1, c2) := cc in
     (if (fst c1 =? fst c2) && (snd c1 =? snd c2) then true else
      forallb (fun dd => let '(d1, d2) := dd in
         negb (d_sm d1 =? d_sm d2) || disjointb (lo c1 d1) (hi c1 d1) (lo c2 d2) (hi c2 d2))
        (list_prod descs descs)))
    (list_prod chans chans).

(* channels are distinct, positions non-negative, widths positive *)
Definition shape_ok (descs : list desc) (chans : list (Z * Z)) : bool :=
  forallb (fun d => (0 <=? d_pos d) && (0 <? d_width d) && ((d_sm d =? 2) || (d_sm d =? 3))) descs &&
  forallb (fun c => (0 <=? fst c) && (0 <=? snd c)) chans.

(* inside one channel: the string does not reach the control / status byte, which the three handshake bits share *)
Definition channel_ok (ctl1 ctl2 ctl3 str : desc) : bool :=
  (d_sm ctl1 =? d_sm str) && (d_pos ctl1 =? d_pos ctl2) && (d_pos ctl1 =? d_pos ctl3) && (d_sm ctl1 =? d_sm ctl2) && (d_sm ctl1 =? d_sm ctl3) &&
  (0 <=? d_bit ctl1) && (0 <=? d_bit ctl2) && (0 <=? d_bit ctl3) &&
  negb (d_bit ctl1 =? d_bit ctl2) && negb (d_bit ctl1 =? d_bit ctl3) && negb (d_bit ctl2 =? d_bit ctl3) &&
  disjointb (d_pos ctl1) (d_pos ctl1 + d_width ctl1) (d_pos str) (d_pos str + d_width str).
