(* User-space map calls (ebpfcat/bpf.py _lookup_elem, update_elem, delete_elem,
   get_next_key; ebpfcat/hashmap.py HashGlobalVarDesc, TheDict;
   ebpfcat/arraymap.py PerCPUReader): the size of the Python buffers passed to
   the kernel, and what the kernel reads / writes through them. *)
From Verif Require Export Lib.Base.

Inductive mtype := MHash | MArray | MPerCpuArray.
Record mapspec := { m_type : mtype; m_key : Z; m_value : Z }.

(* bytes the kernel copies through the value pointer of lookup / update *)
Definition round8 (n : Z) : Z := (n + 7) / 8 * 8.
Definition kernel_value_bytes (ncpu : Z) (m : mapspec) : Z :=
  match m_type m with MPerCpuArray => round8 (m_value m) * ncpu | _ => m_value m end.

(* the maps the library creates *)
Definition hashvar_map : mapspec := {| m_type := MHash; m_key := 1; m_value := 8 |}.            (* HashMap.init *)
Definition dict_map (kstack vstack : Z) : mapspec := {| m_type := MHash; m_key := kstack; m_value := vstack |}.
Definition array_size (total : Z) : Z := (total + 7) / 8 * 8.                                      (* ArrayMap.collect *)
Definition percpu_map (total : Z) : mapspec := {| m_type := MPerCpuArray; m_key := 4; m_value := array_size total |}.

(* the operations of the Python API and the buffers they pass: (key buffer, value buffer, map) *)
Inductive api :=
| HashVarGet | HashVarSet                       (* e.var, e.var = v *)
| PerCpuRead (total ncpu : Z)                   (* e.map.read() *)
| DictSet (k v : Z) | DictGet (k v : Z) | DictPop (k v : Z) | DictDel (k v : Z)
| DictIterFirst (k v : Z) | DictIterNext (k v : Z).

Definition api_map (a : api) (ncpu : Z) : mapspec :=
  match a with
  | HashVarGet | HashVarSet => hashvar_map
  | PerCpuRead total _ => percpu_map total
  | DictSet k v | DictGet k v | DictPop k v | DictDel k v | DictIterFirst k v | DictIterNext k v => dict_map k v
  end.
Definition key_buffer (a : api) : Z :=
  match a with
  | HashVarGet | HashVarSet => 1                    (* pack("B", count) *)
  | PerCpuRead _ _ => 4                             (* bytes(4) *)
  | DictSet k _ | DictGet k _ | DictPop k _ | DictDel k _ | DictIterNext k _ => k     (* key.data = bytearray(Key.stack) *)
  | DictIterFirst k _ => 0                          (* no key: NULL *)
  end.
Definition value_buffer (a : api) : Z :=
  match a with
  | HashVarGet => 8                                 (* lookup_elem(fd, key, 8) *)
  | HashVarSet => 8                                 (* pack("q" / "Q", value) *)
  | PerCpuRead total ncpu => array_size total * ncpu
  | DictSet _ v | DictGet _ v | DictPop _ v => v    (* value.data / bytearray(Value.stack) *)
  | DictDel _ _ => 0
  | DictIterFirst k _ | DictIterNext k _ => k       (* the next key *)
  end.
(* what the kernel accesses through them *)
Definition key_needed (a : api) (ncpu : Z) : Z :=
  match a with DictIterFirst _ _ => 0 | _ => m_key (api_map a ncpu) end.
Definition value_needed (a : api) (ncpu : Z) : Z :=
  match a with
  | DictDel _ _ => 0
  | DictIterFirst _ _ | DictIterNext _ _ => m_key (api_map a ncpu)
  | _ => kernel_value_bytes ncpu (api_map a ncpu)
  end.
