"""C06: in-place addition on 4/8-byte variables: several instances of the REAL
generated statement run on a shared map in the Coq ISA model, one instruction at
a time under many schedules; the variable must change by the sum of all amounts."""
from .common import Check, Err, clist, cz, cnat, eval_terms
from . import dsl, exprs, ebpf_exec, isa_check, sim_kernel
from .c01 import layout_bytes

FMTS = ["i", "I", "q", "Q"]


def wrap(fmt, v):
    return dsl.from_bytes(fmt, dsl.to_bytes(fmt, v))


def build_devvar(case, rv):
    """`dev.v += amount` in the program of a Device whose sync group generates code: the variable is a DeviceVar in the shared
    device_properties map of the group"""
    from ebpfcat.ebpfcat import Device, DeviceVar, device_properties
    from ebpfcat.ebpf import EBPF, LocalVar, AssembleError
    from ebpfcat.bpf import ProgType
    res = dsl.Built()
    wr = len(case["regvals"]) % 4 == 0
    Dev = type("Dev", (Device,), {"n0": DeviceVar("I"), "v": DeviceVar(case["fmt"], write=wr) if wr else DeviceVar(case["fmt"]), "n1": DeviceVar("I"),
                                  "o": LocalVar(case["ofmt"]), "program": lambda self: None})
    Main = type("Main", (EBPF,), {"properties": device_properties})
    with sim_kernel.installed() as kernel:
        try:
            dev = Dev()
            e = Main(ProgType.XDP, "GPL", subprograms=[dev])
            dev.sync_group = e
            # (the device's local is set by the program itself: the map lookup at the start of the main program uses scratch bytes that
            # a subprogram's locals may share - harmless, since no local holds a value yet at that point)
            dsl.run_stmts(dev, [["set", ["r", "r", 3], ["c", rv]], ["set", ["v", "o"], ["c", case["oval"]]], [case["op"], ["v", "v"], case["amount"]]])
            e.r0 = 2
            e.exit()
        except (AssembleError, AssertionError, TypeError, ValueError, KeyError, AttributeError, OverflowError) as ex:
            res.error = f"{type(ex).__name__}: {ex}"
            return res
        fds = {fd: k for k, fd in enumerate(kernel.maps)}
        res.instrs = [(op.value, dst, src, off, fds.get(imm, 0) if op.value == 0x18 and src == 1 else imm) for op, dst, src, off, imm in e.opcodes]
    for n in ("n0", "v", "n1"):
        res.layout[n] = ("array", "I" if n != "v" else case["fmt"], dev.__dict__[n])
    res.layout["o"] = ("local", case["ofmt"], Dev.__dict__["o"].fmt_addr(dev)[1])
    res.stack_size = max(16, -min(0, getattr(e, "stack", 0)))
    res.map_size = device_properties.size
    return res


class C06(Check):
    pid = "C06"
    props_file = "Props/C06.v"
    corr_imports = ["Ebpf.Isa", "Corr.Exec", "Gen.Xadd", "Corr.C06", "Corr.C09", "Corr.C06h"]
    shard = 100
    technique = ("Coq theorem over ALL interleavings of any number of instances (induction over the interleaving relation) + the ISA step of XADD is one atomic "
                 "add + execution of 2-3 instances of the REAL generated statement on a shared map under round-robin, sequential, adversarial and random schedules")
    trusted = ["coq/Ebpf/Isa.v (kernel-validated): XADD is one atomic step, as the hardware / kernel guarantees for BPF_XADD",
               "the abstraction of an instance to Priv / Add events is validated by the executions only"]
    assumptions = ["instruction-granular interleaving (sequential consistency) of the instances"]
    known_classes = {}

    def make_case(self, rng):
        fmt = rng.choice(FMTS + ["x"])
        shared = rng.random() < 0.8
        kind_mem = "hash" if (shared and rng.random() < 0.3) else "array"
        if shared and kind_mem == "array" and rng.random() < 0.25:
            kind_mem = "percpu"         # a variable of a per-CPU array map: instances on one CPU preempt each other
        if shared and kind_mem == "array" and rng.random() < 0.3:
            kind_mem = "ptr"
        xdp = rng.choice([14, 20, 32]) if kind_mem in ("ptr", "array") and shared and rng.random() < (0.6 if kind_mem == "ptr" else 0.25) else None            # the array-map variable through a pointer register: e.mI[e.r9 + offset] += amount
        k = rng.choice([2, 2, 3]) if shared else 1
        kind = rng.choice(["const", "reg", "expr", "expr"])
        ofmt = rng.choice(exprs.FMTS)
        oval = exprs.rand_value(rng, ofmt)
        regkind = rng.choice(["r", "sr"])
        if kind == "const":
            amount = ["c", rng.choice([1, 2, 255, 65536, 2 ** 31 - 1, 2 ** 31, 2 ** 32 + 5, -1, -1000, rng.randint(-10 ** 6, 10 ** 6)])]
        elif kind == "reg":
            amount = ["r", regkind, 3]
        else:
            amount = rng.choice([
                ["+", ["*", ["r", regkind, 3], ["c", rng.choice([2, 3, -5])]], ["v", "o"]],
                ["-", ["v", "o"], ["r", regkind, 3]],
                ["+", ["r", regkind, 3], ["c", rng.randint(-100, 100)]],
                ["&", ["r", regkind, 3], ["c", 0xffff]],
                ["v", "o"],
            ])
        regvals = [rng.choice(exprs.BOUNDARY64 + [rng.randint(-1000, 1000)] * 6) for _ in range(k)]
        if fmt == "x":
            # fixed-point: amounts are integer or decimal constants, the scaled value starts near a 32-bit boundary
            kind = "const"
            amount = ["c", rng.choice([1, 2, 1000, 42949, 0.75, 1.25, 0.5, 42949.67296, 0.00001])]
            if k % 2 == 1 or not shared:
                # ... or an integer amount known only at run time (a signed register): scaled by the generated code, in 64 bits
                kind = "reg"
                amount = ["r", "sr", 3]
                regvals = [[3, -4, 42950, -3, 100000, 7, -42950, 1][(j + len(regvals) + abs(oval)) % 8] for j in range(k)]
        if shared and kind_mem == "array" and xdp is None and fmt != "x" and len(regvals) % 2 == 0:
            # the variable is a DeviceVar of a device in a program-generating sync group (the route of FastSyncGroup devices); declared with
            # the default write=False or with write=True
            kind_mem = "devvar"
        return {"fmt": fmt, "shared": shared, "mem": kind_mem, "k": k, "op": rng.choice(["iadd", "isub"]), "amount": amount,
                "ofmt": ofmt, "oval": oval, "regvals": regvals,
                "init": rng.choice([0, 25000, -25000, -1, 1, 2 ** 32 - 50000, 2 ** 32 - 1, -2 ** 32 + 50000, 2 ** 31, 7 * 2 ** 32 - 3]) if fmt == "x" else exprs.rand_value(rng, fmt),
                "neighbours": [rng.randrange(2 ** 32), rng.randrange(2 ** 32)], "schedseed": rng.randrange(2 ** 30), "preg": rng.choice([6, 8, 9]) if xdp is None else rng.choice([6, 8]), "xdp": xdp}

    def gen_cases(self):
        return [self.make_case(self.rng) for _ in range(150 if self.tier == "quick" else 1500)]

    def decls(self, case):
        if case.get("mem") == "hash":
            return [("v", "hash", case["fmt"]), ("o", "local", case["ofmt"])]
        st = ("percpu" if case.get("mem") == "percpu" else "array") if case["shared"] else "local"
        return [("n0", st, "I"), ("v", st, case["fmt"]), ("n1", st, "I"), ("o", "local", case["ofmt"])]

    def prepare(self, cases):
        import random
        terms, idx = [], []
        for i, c in enumerate(cases):
            c["_progs"], c["_err"], c["_run"] = [], None, None
            decls = self.decls(c)
            values = {"n0": c["neighbours"][0], "v": c["init"], "n1": c["neighbours"][1], "o": c["oval"]}
            if c.get("mem") == "hash":
                values = {"o": c["oval"]}
            c["values"] = values
            c["decls"] = decls
            # every fourth program is generated by a process that may run on ONE CPU only (a pinned real-time master, a one-CPU
            # container): the code runs in the kernel on whichever CPU receives the frame, and must be the same
            import os
            pinned = os.sched_getaffinity(0) if i % 4 == 1 else None
            if pinned:
                os.sched_setaffinity(0, {min(pinned)})
            for rv in (c["regvals"] if c.get("mem") == "devvar" else []):
                b = build_devvar(c, rv)
                if b.error is not None:
                    c["_err"] = b.error
                    break
                c["_progs"].append(b)
            for rv in (c["regvals"] if c.get("mem") != "devvar" else []):
                tgt = ["p", "v", c.get("preg", 9)] if c.get("mem") == "ptr" else ["v", "v"]
                # "xdp": the statement sits in an XDP program with a minimum packet size (a packet object exists)
                st = [["set", ["r", "r", 3], ["c", rv]], [c["op"], tgt, c["amount"]]]
                if i % 3 == 2 and c.get("mem") in ("array", "percpu") and c["shared"]:
                    # ... directly after a conditional block that is SKIPPED at run time and whose last statement is the same in-place
                    # addition on the neighbouring variable: whatever the generator remembers from the block must not be relied upon
                    st.insert(1, ["if", ["==", ["v", "o"], ["c", c["oval"] + 1]], [[c["op"], ["v", "n1"], c["amount"]]], None])
                b = dsl.build(decls, st, xdp_min=c.get("xdp"))
                if b.error is not None:
                    c["_err"] = b.error
                    break
                c["_progs"].append(b)
            if pinned:
                os.sched_setaffinity(0, pinned)
            if c["_err"]:
                continue
            b = c["_progs"][0]
            stack, amap = layout_bytes(c, b)
            c["_b"] = b
            lens = [len([1 for ins in p.instrs if ins[0] != 0]) for p in c["_progs"]]
            rng = random.Random(c["schedseed"])
            k = c["k"]
            scheds = [[j for _ in range(max(lens)) for j in range(k)],                      # round robin
                      [j for j in range(k) for _ in range(lens[j])],                       # sequential
                      [j for j in reversed(range(k)) for _ in range(lens[j])]]
            # adversarial: everybody up to (not including) its last two instructions before the exit sequence, then round robin
            for cut in (2, 3, 4, 5):
                scheds.append([j for j in range(k) for _ in range(max(lens[j] - cut, 0))] + [j for _ in range(6) for j in range(k)])
            for _ in range(4 if self.tier == "quick" else 12):
                s = [j for j in range(k) for _ in range(lens[j])]
                rng.shuffle(s)
                scheds.append(s)
            c["_nsched"] = len(scheds)
            progs = clist([ebpf_exec.cprog(p.instrs) for p in c["_progs"]])
            ms = "[" + ebpf_exec.cbytes(amap) + "]" if b.map_size else "[]"
            sch = clist([clist([cnat(j) for j in s]) for s in scheds])
            if c.get("mem") == "hash":
                # the variable is the 8-byte cell of the hash map under its key byte; the cell lives in memory region 0
                cell = dsl.to_bytes("q" if c["fmt"].islower() else "Q", c["init"])
                tab = (f"{{| h_id := 100; h_key := 1%nat; h_value := 8%nat; h_max := 8; "
                       f"h_tab := [([{b.layout['v'][2]}], 0%nat)] |}}")
                terms.append(f"(multis_h {progs} [{ebpf_exec.cbytes(cell)}] [{tab}] {ebpf_exec.cbytes(stack)} {sch})")
            elif c.get("xdp") is not None:
                terms.append(f"(multis_p {progs} {ebpf_exec.cbytes(bytes(range(64)))} {ms} {ebpf_exec.cbytes(stack)} {sch})")
            else:
                terms.append(f"(multis {progs} {ms} {ebpf_exec.cbytes(stack)} {sch})")
            idx.append(i)
        vals, log = eval_terms(self.pid, self.corr_imports, terms, shard=25)
        for i, v in zip(idx, vals):
            cases[i]["_run"] = v
        return log

    def cell(self, case, maps, stack_unused=None):
        b = case["_b"]
        storage, fmt, addr = b.layout["v"]
        if storage == "hash":
            data = bytes(maps[0])
            return dsl.from_bytes(fmt, data[:dsl.fmt_size(fmt)]), data[dsl.fmt_size(fmt):8] if False else b""
        data = bytes(maps[0])
        n = dsl.fmt_size(fmt)
        return dsl.from_bytes(fmt, data[addr:addr + n]), data[:addr] + data[addr + n:]

    def run_impl(self, case):
        if case["_err"]:
            return Err(6, case["_err"])
        if case["_run"] is None:
            return Err(9, "model evaluation failed")
        out = []
        b = case["_b"]
        for maps, statuses in case["_run"]:
            if not case["shared"]:
                out.append({"statuses": statuses, "v": None, "rest": b""})
                continue
            v, rest = self.cell(case, maps)
            out.append({"statuses": statuses, "v": v, "rest": rest.hex()})
        case["_o"] = out
        return out

    def amounts(self, case):
        res = []
        if case["fmt"] == "x":
            from fractions import Fraction
            if case["amount"][0] == "r":
                return [(rv * 100000) if case["op"] == "iadd" else -(rv * 100000) for rv in case["regvals"]]
            a = int(Fraction(str(case["amount"][1])) * 100000)
            return [a if case["op"] == "iadd" else -a for _ in case["regvals"]]
        for rv in case["regvals"]:
            env = exprs.Env({"o": ("local", case["ofmt"], case["oval"])}, {3: rv})
            vals, _, _ = exprs.meaning(case["amount"], env, 64)
            res.append(vals[0] if case["op"] == "iadd" else -vals[0])
        return res

    def model_term(self, case):
        if case["_err"] or case["_run"] is None or not case["shared"]:
            return None
        n = dsl.fmt_size(case["fmt"])
        return f"(models {cnat(n)} {cz(case['init'] % (1 << 8 * n))} {clist([cz(a) for a in self.amounts(case)])} {cnat(case['_nsched'])})"

    def model_value(self, case, o):
        n = dsl.fmt_size(case["fmt"])
        return [r["v"] % (1 << 8 * n) for r in o]

    def holds(self, case, o):
        if isinstance(o, Err):
            if o.code == 6:
                return True if "no value" in o.what else f"generator refused the statement: {o.what}"
            return o.what
        if not case["shared"]:
            return True
        want = wrap(case["fmt"], case["init"] + sum(self.amounts(case)))
        b = case["_b"]
        _, amap = layout_bytes(case, b)
        _, rest0 = (0, b"") if case.get("mem") == "hash" else self.cell(case, [amap])
        for k, r in enumerate(o):
            if any(st != [1] for st in r["statuses"]):
                return f"schedule {k}: an instance did not exit normally: {r['statuses']}"
            if r["v"] != want:
                return (f"schedule {k}: {case['k']} instances of `v {'+=' if case['op'] == 'iadd' else '-='} {case['amount']}` on the {case.get('mem', 'array')} variable v:{case['fmt']} = {case['init']} "
                        f"with r3 = {case['regvals']}, o:{case['ofmt']} = {case['oval']} left v = {r['v']}, the sum of all amounts gives {want}")
            if r["rest"] != rest0.hex():
                return f"schedule {k}: bytes next to the variable changed"
        return True

    def nontrivial(self, case, o):
        return not isinstance(o, Err) and case["shared"]

    def extra_checks(self):
        from . import hash_check
        return [isa_check.check(self.seed + 3, 40 if self.tier == "quick" else 300), hash_check.check(self.seed + 7, 40 if self.tier == "quick" else 300)]

    def rule(self):
        return ("v += / -= amount on an i/I/q/Q/x variable of a shared array map (directly, or through a pointer register r6/r8/r9: e.mI[e.r9 + offset] += amount) or hash map or per-CPU array map (instances preempting each other on one CPU) or a DeviceVar (write=False and write=True) of a device in a program-generating sync group; a third of the array-map cases inside an XDP program with a minimum packet size between two 4-byte neighbours (80%; else a local, single instance), amount = constant "
                "(small, 2**31, 2**32+5, negative) / r or sr register / expression over the register, a private local and constants; 2-3 instances with different "
                "register values; schedules: round robin, sequential both ways, four adversarial ones (everybody up to 2..5 instructions before its end, then round "
                "robin), 4 (thorough 12) random shuffles; every fourth program is generated while the process is pinned to one CPU")

    def distribution(self, cases, observed):
        d = {"shared": 0, "instances3": 0, "const": 0, "reg": 0, "expr": 0, "schedules": 0}
        for c in cases:
            d["shared"] += c["shared"]
            d["instances3"] += c["k"] == 3
            d[{"c": "const", "r": "reg"}.get(c["amount"][0], "expr")] += 1
            d["schedules"] += c.get("_nsched", 0)
        return d

    def describe(self, case):
        return {k: v for k, v in case.items() if not k.startswith("_")}

    def replay(self, path):
        return super().replay(path)


CHECK = C06
