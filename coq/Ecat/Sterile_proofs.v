(* SterilePacket.sterile: the sterile copy is exactly the frame assembled from
   the same datagrams with the command of every write datagram replaced by NOP. *)
From Verif Require Import Lib.Struct_proofs Ecat.Frame Ecat.Frame_proofs.

Definition nop (d : dgram) : dgram :=
  {| d_cmd := ECCmd_NOP; d_data := d_data d; d_wkc := d_wkc d; d_idx := d_idx d; d_addr := d_addr d |}.
Definition nop_if (o : bool * dgram) : dgram := if fst o then nop (snd o) else snd o.

Fixpoint s_appends (s : spacket) (ops : list (bool * dgram)) : option spacket :=
  match ops with
  | [] => Some s
  | (w, d) :: tl =>
      match (if w then s_append_writer s d else s_append s d) with
      | None => None
      | Some s' => s_appends s' tl
      end
  end.

(* start offsets of the writer datagrams, counted from `base` *)
Fixpoint otf (base : Z) (ops : list (bool * dgram)) : list Z :=
  match ops with
  | [] => []
  | (w, d) :: tl => (if w then [base] else []) ++ otf (base + 12 + zlen (d_data d)) tl
  end.

Lemma set_nth_app_r (a b : list Z) n v : set_nth (length a + n) v (a ++ b) = a ++ set_nth n v b.
Proof. induction a as [|x a IH]; simpl; [reflexivity|]. now rewrite IH. Qed.

Lemma set_nth_app_l (a b : list Z) n v : (n < length a)%nat -> set_nth n v (a ++ b) = set_nth n v a ++ b.
Proof.
  revert n. induction a as [|x a IH]; intros n H; simpl in *; [lia|].
  destruct n; [reflexivity|]. simpl. rewrite IH by lia. reflexivity.
Qed.

Lemma enc_dgram_nop more d e : enc_dgram more d = Some e ->
  enc_dgram more (nop d) = Some (set_nth 0 ECCmd_NOP e).
Proof.
  unfold enc_dgram. cbn [nop d_cmd d_data d_wkc d_idx d_addr]. intros H.
  destruct (d_addr d) as [|x [|y [|? ?]]]; try discriminate.
  - destruct (pack _ _) as [h|] eqn:Ph in H; [|discriminate].
    destruct (pack [u16] [SInt (d_wkc d)]) as [w|] eqn:Pw; [|discriminate].
    inversion H; subst e; clear H. unfold u8, u16, i32 in *.
    cbn [pack] in Ph |- *. destruct (in_range 1 false (d_cmd d)); [|discriminate].
    change (in_range 1 false ECCmd_NOP) with true. cbv iota.
    destruct (in_range 1 false (d_idx d)); [|discriminate].
    destruct (in_range 4 true x); [|discriminate].
    destruct (in_range 2 false _); [|discriminate].
    change (in_range 2 false 0) with true in *. cbv iota in *.
    cbn [option_map] in *. inversion Ph; subst h. reflexivity.
  - destruct (pack _ _) as [h|] eqn:Ph in H; [|discriminate].
    destruct (pack [u16] [SInt (d_wkc d)]) as [w|] eqn:Pw; [|discriminate].
    inversion H; subst e; clear H. unfold u8, u16, i16 in *.
    cbn [pack] in Ph |- *. destruct (in_range 1 false (d_cmd d)); [|discriminate].
    change (in_range 1 false ECCmd_NOP) with true. cbv iota.
    destruct (in_range 1 false (d_idx d)); [|discriminate].
    destruct (in_range 2 true x); [|discriminate].
    destruct (in_range 2 false y); [|discriminate].
    destruct (in_range 2 false _); [|discriminate].
    change (in_range 2 false 0) with true in *. cbv iota in *.
    cbn [option_map] in *. inversion Ph; subst h. reflexivity.
Qed.

Lemma nop_data_len d : zlen (d_data (nop d)) = zlen (d_data d).
Proof. reflexivity. Qed.

(* patching the command bytes at the recorded offsets = re-encoding with NOPs *)
Lemma patch_is_nop ops : forall pre B post, enc_dgrams (map snd ops) = Some B ->
  exists B', enc_dgrams (map nop_if ops) = Some B' /\ length B' = length B /\
    fold_left (fun acc p => set_nth (Z.to_nat p) ECCmd_NOP acc) (otf (zlen pre) ops) (pre ++ B ++ post)
    = pre ++ B' ++ post.
Proof.
  induction ops as [|[w d] tl IH]; intros pre B post H.
  - simpl in H. inversion H; subst. exists []. simpl. auto.
  - cbn [map snd enc_dgrams] in H.
    assert (M : match map snd tl with [] => false | _ => true end = match map nop_if tl with [] => false | _ => true end)
      by (destruct tl; reflexivity).
    destruct (enc_dgram _ d) as [e|] eqn:Ee; [|discriminate].
    destruct (enc_dgrams (map snd tl)) as [B2|] eqn:E2; [|discriminate].
    inversion H; subst B; clear H.
    pose proof (enc_dgram_length _ _ _ Ee) as Le.
    set (e' := if w then set_nth 0 ECCmd_NOP e else e).
    assert (Le' : length e' = length e).
    { subst e'. destruct w; [|reflexivity]. destruct e; reflexivity. }
    assert (Ee' : enc_dgram (match map nop_if tl with [] => false | _ => true end) (nop_if (w, d)) = Some e').
    { rewrite <- M. subst e'. unfold nop_if. cbn [fst snd]. destruct w; [apply enc_dgram_nop|]; exact Ee. }
    destruct (IH (pre ++ e') B2 post eq_refl) as (B2' & EB2 & LB2 & F).
    exists (e' ++ B2'). cbn [map enc_dgrams]. rewrite Ee', EB2.
    split; [reflexivity|]. split; [rewrite !app_length; lia|].
    cbn [otf]. rewrite fold_left_app.
    assert (Z1 : zlen (pre ++ e') = zlen pre + 12 + zlen (d_data d)).
    { rewrite zlen_app. unfold zlen in *. rewrite Le'. lia. }
    rewrite Z1 in F.
    assert (S1 : fold_left (fun acc p => set_nth (Z.to_nat p) ECCmd_NOP acc) (if w then [zlen pre] else [])
                           (pre ++ (e ++ B2) ++ post) = (pre ++ e') ++ B2 ++ post).
    { subst e'. destruct w; cbn [fold_left].
      - unfold zlen. rewrite Nat2Z.id. rewrite <- (Nat.add_0_r (length pre)), set_nth_app_r.
        rewrite <- !app_assoc. f_equal. rewrite set_nth_app_l; [reflexivity|].
        unfold zlen in Le. pose proof (zlen_nonneg (d_data d)). unfold zlen in *. lia.
      - rewrite <- !app_assoc. reflexivity. }
    rewrite S1, F. rewrite <- !app_assoc. reflexivity.
Qed.

(* what the sequence of append / append_writer calls leaves in the packet *)
Lemma s_appends_inv ops : forall s s', s_appends s ops = Some s' ->
  p_data (sp s') = p_data (sp s) ++ map snd ops /\
  p_size (sp s') = p_size (sp s) + dsize (map snd ops) /\
  map (fun e => fst (fst e)) (on_the_fly s') = map (fun e => fst (fst e)) (on_the_fly s) ++ otf (p_size (sp s)) ops.
Proof.
  induction ops as [|[w d] tl IH]; intros s s' H; cbn [s_appends] in H.
  - inversion H; subst. simpl. rewrite !app_nil_r. repeat split; lia.
  - destruct w.
    + unfold s_append_writer in H. destruct (append (sp s) d) as [[p' [a b]]|] eqn:Ea; [|discriminate].
      apply append_inv in Ea. destruct Ea as (S1 & D1 & _).
      destruct (IH _ _ H) as (D2 & S2 & O2). cbn [sp on_the_fly] in *.
      cbn [map snd dsize fold_right otf]. fold (dsize (map snd tl)).
      rewrite D2, D1, S2, S1, O2, map_app, <- !app_assoc. cbn [map fst app].
      repeat split; try lia. rewrite S1. replace (p_size (sp s) + zlen (d_data d) + 12) with (p_size (sp s) + 12 + zlen (d_data d)) by lia. reflexivity.
    + unfold s_append in H. destruct (append (sp s) d) as [[p' [a b]]|] eqn:Ea; [|discriminate].
      apply append_inv in Ea. destruct Ea as (S1 & D1 & _). cbn [option_map fst] in H.
      destruct (IH _ _ H) as (D2 & S2 & O2). cbn [sp on_the_fly] in *.
      cbn [map snd dsize fold_right otf]. fold (dsize (map snd tl)).
      rewrite D2, D1, S2, S1, O2, <- !app_assoc. cbn [app].
      repeat split; try lia. rewrite S1. replace (p_size (sp s) + zlen (d_data d) + 12) with (p_size (sp s) + 12 + zlen (d_data d)) by lia. reflexivity.
Qed.

Definition empty_s : spacket := {| sp := empty_packet; on_the_fly := [] |}.

Theorem sterile_is_nop ops s index ethertype f :
  s_appends empty_s ops = Some s -> assemble (sp s) index ethertype = Some f ->
  sterile s index ethertype =
    assemble {| p_data := map nop_if ops; p_size := p_size (sp s) |} index ethertype /\
  exists f', sterile s index ethertype = Some f' /\ length f' = length f.
Proof.
  intros Hs Ha. destruct (s_appends_inv _ _ _ Hs) as (D & S & O).
  cbn [empty_s sp on_the_fly p_data p_size empty_packet map app] in D, S, O.
  unfold sterile. unfold assemble in *. cbn [p_data p_size].
  destruct (pack _ _) as [h|] eqn:Ph; [|discriminate].
  rewrite D in Ha. destruct (enc_dgrams (map snd ops)) as [B|] eqn:EB; [|discriminate].
  inversion Ha; subst f; clear Ha. rewrite D, EB. cbn [option_map].
  set (post := if p_size (sp s) <? Packet_minpayload then _ else _).
  assert (Lh : zlen h = 16).
  { apply pack_length in Ph. unfold zlen. rewrite Ph. reflexivity. }
  destruct (patch_is_nop ops h B post EB) as (B' & EB' & LB' & F).
  rewrite Lh in F. rewrite EB'.
  assert (G : fold_left (fun acc e => set_nth (Z.to_nat (fst (fst e))) ECCmd_NOP acc) (on_the_fly s) (h ++ B ++ post)
              = h ++ B' ++ post).
  { rewrite <- F. unfold Packet_PACKET_HEADER in O. rewrite <- O. clear O.
    generalize (h ++ B ++ post). induction (on_the_fly s) as [|x l IHl]; intros acc; cbn [map fold_left]; [reflexivity|].
    apply IHl. }
  rewrite G. split; [reflexivity|]. eexists. split; [reflexivity|].
  rewrite !app_length. lia.
Qed.
