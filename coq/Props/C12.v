(* C12 Every datagram request gets exactly its own response.
   Model: Ecat/SendLoop.v - `pack` is one run of EtherCat.sendloop over the
   requests it finds queued (it does not yield while the queue is non-empty),
   `process` is EtherCat.process_packet on the response of one frame. *)
From Verif Require Import Ecat.Frame Ecat.SendLoop Ecat.SendLoop_proofs.

(* every request (any number, any sizes) is put into exactly one frame, frames
   carry the requests in submission order, every frame respects the size and
   count limits, and a request that can never fit into a frame fails instead
   of being retried (the packing function is total: sendloop always gets back
   to awaiting the queue) *)
Theorem C12_sent_once_in_order : forall rs fs bad, pack rs [] Packet_PACKET_HEADER = (fs, bad) ->
  concat fs = filter fits_alone rs /\
  bad = filter (fun r => negb (fits_alone r)) rs /\
  Forall frame_ok fs.
Proof. exact sendloop_batch. Qed.
Print Assumptions C12_sent_once_in_order.

(* such a frame is accepted datagram by datagram by Packet.append (so C11
   gives the positions at which each request's data and counter travel) *)
Theorem C12_frames_fit : forall f, frame_ok f -> appends empty_packet (map dg_of f) <> None.
Proof.
  intros f (Hn & Hs & Hl). apply frame_ok_appends; cbn [empty_packet p_data p_size map fsum length];
    unfold Packet_PACKET_HEADER; lia.
Qed.
Print Assumptions C12_frames_fit.

(* completion is pointwise: the outcome of a request is a function of its own
   future state, its own working counter and its own bytes of the response -
   never of another request *)
Theorem C12_independent : forall data ds,
  Forall (fun d => snd (fst d) + 2 <= zlen data) ds -> process data ds = map (complete data) ds.
Proof. exact process_independent. Qed.
Print Assumptions C12_independent.

Theorem C12_own_bytes_or_error : forall data start stop,
  complete data (start, stop, FPending) =
    if wkc_at data stop =? 0 then OError else OResult (ztake (stop - start) (zdrop start data)).
Proof. exact complete_own. Qed.
Print Assumptions C12_own_bytes_or_error.

(* at most once: a request that is already done (cancelled) is never completed again *)
Theorem C12_at_most_once : forall data ds,
  Forall2 (fun d o => snd d = FDone -> o = OUntouched) ds (process data ds).
Proof. exact done_untouched. Qed.
Print Assumptions C12_at_most_once.

Example C12_nonvacuous :
  let r n i := {| q_id := i; q_data := zeros n |} in
  pack [r 700%nat 1; r 1473%nat 2; r 700%nat 3; r 700%nat 4; r 5%nat 5] [] Packet_PACKET_HEADER
  = ([[r 700%nat 1]; [r 700%nat 3; r 700%nat 4; r 5%nat 5]], [r 1473%nat 2]).
Proof. vm_compute. reflexivity. Qed.
