(* C24 Cancelling a sync group releases its resources and ends cancelled.
   Model: Sys/Cancel.v - the control structure of SyncGroupBase.run /
   FastSyncGroup.run as an automaton over the bus-level events produced so far,
   and the events produced by the finally blocks / context managers. *)
From Verif Require Import Sys.Cancel Sys.Cancel_proofs.

(* for EVERY prefix of events the run coroutine can have produced when the
   cancellation arrives (any number of cycles, any subset of OP requests
   already sent): each terminal that was asked to go OPERATIONAL is asked
   back to SAFE-OPERATIONAL by the clean-up, and a registered kernel program
   is unregistered *)
Theorem C24_cleanup : forall c pre s, track c (start c) pre = Some s ->
  (forall t, op_requested t pre -> In (AlWrite t 4) (cleanup c s)) /\
  (In Reg pre -> In Unreg (cleanup c s)).
Proof. exact cancel_cleans_up. Qed.
Print Assumptions C24_cleanup.

Example C24_nonvacuous :
  let c := {| fast := true; rw := [true; false; true] |} in
  let pre := [Reg; Frame; Frame; FmmuSet 0 1; FmmuSet 0 2; AlWrite 0 4; AlWrite 1 4; Frame; AlWrite 2 8] in
  option_map (cleanup c) (track c (start c) pre) = Some [AlWrite 0 4; AlWrite 2 4; Unreg].
Proof. vm_compute. reflexivity. Qed.
