From Verif Require Import Gen.Fixed.

Lemma div_eq n d m e : 0 < d -> 0 < e -> n * e = m * d -> n / d = m / e.
Proof.
  intros Hd He H. rewrite <- (Z.div_mul_cancel_r n d e) by lia. rewrite H.
  rewrite (Z.mul_comm d e). apply Z.div_mul_cancel_r; lia.
Qed.

Ltac to_div := match goal with |- ?l = _ / _ => first [ match l with _ / _ => idtac end | rewrite <- (Z.div_1_r l) ] end.


Ltac crunch :=
  unfold op_value, op_fixed, drop, qop, rep, elab_op, scale, FB; cbn [negb andb orb Bool.eqb fst snd exact];
  unfold Qdiv, Qminus; unfold Qinv, Qmult, Qplus, Qopp, inject_Z, Qfloor; cbn [Qnum Qden];
  rewrite ?Pos.mul_1_l, ?Pos.mul_1_r, ?Pos2Z.inj_mul.

Ltac finish := rewrite ?Z.div_1_r; first [ reflexivity | ring | (to_div; apply div_eq; [lia|lia|rewrite ?Z.div_1_r; try ring]) ].

(* sums, differences and products: for ALL operand values *)
Theorem ring_op_spec op A fa B fb : op = FAdd \/ op = FSub \/ op = FMul ->
  op_value op A fa B fb = drop (op_fixed op fa fb) (qop op (rep A fa) (rep B fb)).
Proof.
  intros [->|[->| ->]]; destruct fa, fb; crunch.
  all: try finish.
Qed.

(* divisions: positive divisor *)
Theorem div_op_spec op A fa B fb : op = FTrueDiv \/ op = FFloorDiv -> 0 < B ->
  op_value op A fa B fb = drop (op_fixed op fa fb) (qop op (rep A fa) (rep B fb)).
Proof.
  intros [->| ->] HB; destruct B as [|p|p]; try lia; destruct fa, fb; crunch.
  all: try finish.
Qed.

Theorem mod_op_spec A fa B fb : 0 < B ->
  op_value FMod A fa B fb = drop (op_fixed FMod fa fb) (qop FMod (rep A fa) (rep B fb)).
Proof.
  intros HB; destruct B as [|p|p]; try lia; destruct fa, fb; crunch; rewrite ?Z.mul_1_r, ?Z.div_1_r.
  - rewrite (Z.mul_comm A 100000), !Z.div_mul_cancel_l by lia. rewrite Z.mod_eq by lia.
    apply Z.div_unique_exact; [lia|ring].
  - rewrite (Z.mul_comm 100000 (Z.pos p)). rewrite Z.mod_eq by lia.
    apply Z.div_unique_exact; [lia|ring].
  - rewrite Z.mod_eq by lia. apply Z.div_unique_exact; [lia|ring].
  - rewrite Z.mod_eq by lia. ring.
Qed.

(* ---- the elaborated expression computes op_value of its operands' values ---- *)
Lemma exact_scale e k : exact (scale e k) = exact e * k.
Proof. destruct e; reflexivity. Qed.

Theorem elab_op_exact op ea fa eb fb :
  exact (fst (elab_op op (ea, fa) (eb, fb))) = op_value op (exact ea) fa (exact eb) fb /\
  snd (elab_op op (ea, fa) (eb, fb)) = op_fixed op fa fb.
Proof.
  unfold op_value, op_fixed. destruct op, fa, fb; cbn [elab_op negb andb orb Bool.eqb fst snd exact scale];
    rewrite ?exact_scale; cbn [exact]; split; reflexivity.
Qed.

(* conversion at the assignment *)
Theorem to_dest_spec dest_fixed e f :
  exact (to_dest dest_fixed (e, f)) = drop dest_fixed (rep (exact e) f).
Proof.
  unfold to_dest, drop, rep, FB. destruct dest_fixed, f; cbn [andb negb]; rewrite ?exact_scale; cbn [exact];
    unfold Qmult, inject_Z, Qfloor; cbn [Qnum Qden]; rewrite ?Pos.mul_1_l, ?Pos.mul_1_r, ?Z.div_1_r.
  - symmetry. rewrite Z.mul_comm. apply Z.div_mul. lia.
  - ring.
  - reflexivity.
  - reflexivity.
Qed.

(* comparing the scaled integers is comparing the rationals they stand for *)
Theorem cmp_scaled_spec fa fb A B :
  let '(A', B') := cmp_scaled fa fb A B in (A' ?= B') = (rep A fa ?= rep B fb)%Q.
Proof.
  unfold cmp_scaled, rep, Qcompare, FB. destruct fa, fb; cbn [Bool.eqb Qnum Qden inject_Z].
  - apply Zmult_compare_compat_r. reflexivity.
  - rewrite Z.mul_1_r. reflexivity.
  - rewrite Z.mul_1_r. reflexivity.
  - rewrite !Z.mul_1_r. reflexivity.
Qed.
