From Verif Require Import Lib.Base Sys.StartStop Sys.FmmuLock.
(* final state of a schedule: lock files, pin, attachment, (pc, ethertype, table) per participant *)
Fixpoint ins (x : Z) (l : list Z) : list Z := match l with [] => [x] | y :: tl => if x <=? y then x :: l else y :: ins x tl end.
Definition sortz (l : list Z) : list Z := fold_right ins [] l.
Definition v_state (s : st) : V :=
  VL [match lockdir s with None => VZ (-1) | Some l => VL (map VZ (sortz l)) end; VZ (enc_opt (pin s)); VZ (enc_opt (att s));
      VL (map (fun p => let c := pc_code (p_pc p) in
                     (* the ethertype of an aborted participant, and of one that is still trying candidates, is not part of the state compared *)
                     VL [VZ c; VZ (if (c =? 16) || (c =? 2) then 0 else p_eth p); VZ (if c =? 16 then -1 else p_table p)]) (procs s))].
(* schedule entries (participant, ethertype drawn at this step or -1): take the successor in which the participant has that ethertype *)
Fixpoint run_eth (s : st) (sched : list (nat * Z)) : st :=
  match sched with
  | [] => s
  | (k, e) :: tl =>
      let succ := step_proc [1; 2; 3] s k in
      let pick := if e =? -1 then nth_error succ 0
                  else find (fun s' => match nth_error (procs s') k with Some p => p_eth p =? e | None => false end) succ in
      match pick with Some s' => run_eth s' tl | None => run_eth s tl end
  end.
Definition run (n : nat) (sched : list (nat * Z)) : V := v_state (run_eth (init n) sched).

(* FMMU windows: each process draws numbers until one is free *)
Fixpoint first_free (used draws : list Z) : Z :=
  match draws with [] => -1 | d :: tl => if zmem d used then first_free used tl else d end.
Fixpoint allocs (used : list Z) (l : list (list Z)) : list Z :=
  match l with [] => [] | draws :: tl => let a := first_free used draws in a :: allocs (a :: used) tl end.
Definition run_fmmu (l : list (list Z)) : V := VL (map VZ (allocs [] l)).

(* allocations and removals in the order in which they held the lock: the windows handed out, through the proven step function *)
Inductive fop := OAlloc (p : Z) (draws : list Z) | ORelease (p : Z).
Fixpoint run_fops (s : fstate) (l : list fop) : list Z :=
  match l with
  | [] => []
  | OAlloc p draws :: tl => let a := first_free (used s) draws in a :: run_fops (fstep s (Alloc p a)) tl
  | ORelease p :: tl => run_fops (fstep s (Release p)) tl
  end.
Definition run_fmmu_ops (l : list fop) : V := VL (map VZ (run_fops {| used := []; held := [] |} l)).

(* the same operations on the BYTES of the map file (Sys/FmmuBytes.v, proved to refine fstep), from any initial file content *)
From Verif Require Import Sys.FmmuBytes.
Fixpoint first_free_b (m : bmap) (draws : list Z) : Z :=
  match draws with [] => -1 | d :: tl => if testb m d then first_free_b m tl else d end.
Fixpoint run_bops (mh : bmap * list (Z * Z)) (l : list fop) : bmap * list Z :=
  match l with
  | [] => (fst mh, [])
  | OAlloc p draws :: tl =>
      let a := first_free_b (fst mh) draws in
      let '(m', ws) := run_bops (bstep mh (Alloc p a)) tl in (m', a :: ws)
  | ORelease p :: tl => run_bops (bstep mh (Release p)) tl
  end.
Definition run_fmmu_bytes (init : list Z) (ops : list fop) : V :=
  let '(m, ws) := run_bops (init, []) ops in VL [VB m; VL (map VZ ws)].
