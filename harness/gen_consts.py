"""Tie G1: read literal constants (and tiny integer expressions) out of
/repo's sources with `ast` and write them to coq/Generated/Consts.v.

Fail-closed: anything that is not found, or is not a plain integer literal /
tuple of integer literals / simple arithmetic over them, raises."""
import ast
import os


class ConstError(Exception):
    pass


def _eval(node, env):
    if isinstance(node, ast.Constant) and isinstance(node.value, int) and not isinstance(node.value, bool):
        return node.value
    if isinstance(node, ast.Constant) and isinstance(node.value, bool):
        return int(node.value)
    if isinstance(node, ast.Tuple):
        return tuple(_eval(e, env) for e in node.elts)
    if isinstance(node, ast.Name) and node.id in env:
        return env[node.id]
    if isinstance(node, ast.UnaryOp) and isinstance(node.op, ast.USub):
        return -_eval(node.operand, env)
    if isinstance(node, ast.BinOp):
        a, b = _eval(node.left, env), _eval(node.right, env)
        ops = {ast.Add: lambda: a + b, ast.Sub: lambda: a - b, ast.Mult: lambda: a * b,
               ast.LShift: lambda: a << b, ast.BitOr: lambda: a | b, ast.BitAnd: lambda: a & b,
               ast.FloorDiv: lambda: a // b}
        for k, f in ops.items():
            if isinstance(node.op, k):
                return f()
    raise ConstError(f"unsupported constant expression: {ast.dump(node)[:200]}")


class Module:
    def __init__(self, repo, rel):
        self.path = os.path.join(repo, rel)
        self.src = open(self.path).read()
        self.tree = ast.parse(self.src)

    def klass(self, name):
        for n in ast.walk(self.tree):
            if isinstance(n, ast.ClassDef) and n.name == name:
                return n
        raise ConstError(f"class {name} not found in {self.path}")

    def func(self, cls, name):
        body = self.klass(cls).body if cls else self.tree.body
        for n in body:
            if isinstance(n, (ast.FunctionDef, ast.AsyncFunctionDef)) and n.name == name:
                return n
        raise ConstError(f"function {cls}.{name} not found in {self.path}")

    def class_consts(self, cls):
        env = {}
        for n in self.klass(cls).body:
            if isinstance(n, ast.Assign) and len(n.targets) == 1 and isinstance(n.targets[0], ast.Name):
                try:
                    env[n.targets[0].id] = _eval(n.value, env)
                except ConstError:
                    pass
        return env

    def class_const(self, cls, name):
        env = self.class_consts(cls)
        if name not in env:
            raise ConstError(f"{cls}.{name} is not a literal integer constant in {self.path}")
        return env[name]

    def enum(self, cls):
        env = self.class_consts(cls)
        if not env:
            raise ConstError(f"enum {cls} has no literal members")
        return env

    def segment(self, node):
        return ast.get_source_segment(self.src, node)


def find_compare_const(fn, left_pred, op_type):
    """the integer literal c in the (unique) comparison `<left> <op> c` inside fn"""
    hits = []
    for n in ast.walk(fn):
        if isinstance(n, ast.Compare) and len(n.ops) == 1 and isinstance(n.ops[0], op_type) \
                and left_pred(n.left) and isinstance(n.comparators[0], ast.Constant) \
                and isinstance(n.comparators[0].value, int):
            hits.append(n.comparators[0].value)
    if len(hits) != 1:
        raise ConstError(f"expected exactly one matching comparison in {fn.name}, found {hits}")
    return hits[0]


def is_len_self_data(n):
    return (isinstance(n, ast.Call) and isinstance(n.func, ast.Name) and n.func.id == "len"
            and len(n.args) == 1 and isinstance(n.args[0], ast.Attribute)
            and n.args[0].attr == "data")


def generate(repo, outdir):
    from .common import write_if_changed
    ec = Module(repo, "ebpfcat/ethercat.py")
    cat = Module(repo, "ebpfcat/ebpfcat.py")
    lock = Module(repo, "ebpfcat/lock.py")
    c = {}
    for k in ("MAXSIZE", "ETHERNET_HEADER", "PACKET_HEADER", "PACKET_INDEX",
              "DATAGRAM_HEADER", "DATAGRAM_TAIL"):
        c["Packet_" + k] = ec.class_const("Packet", k)
    c["Packet_append_maxcount"] = find_compare_const(ec.func("Packet", "append"), is_len_self_data, ast.Gt)
    c["Packet_full_maxcount"] = find_compare_const(ec.func("Packet", "full"), is_len_self_data, ast.Gt)
    # minimum Ethernet payload in assemble: `if self.size < 46`
    c["Packet_minpayload"] = find_compare_const(
        ec.func("Packet", "assemble"),
        lambda n: isinstance(n, ast.Attribute) and n.attr == "size", ast.Lt)
    rng = ec.class_const("EtherCat", "terminal_addr_range")
    c["addr_range_lo"], c["addr_range_hi"] = rng
    for name, val in ec.enum("ECCmd").items():
        c["ECCmd_" + name] = val
    for name, val in ec.enum("MachineState").items():
        c["MachineState_" + name] = val
    c["SterilePacket_logical_addr_inc"] = cat.class_const("SterilePacket", "logical_addr_inc")
    c["FastEtherCat_MAX_PROGS"] = cat.class_const("FastEtherCat", "MAX_PROGS")
    c["EtherXDP_INDEX0"] = cat.class_const("EtherXDP", "INDEX0")
    c["EtherXDP_minimumPacketSize"] = cat.class_const("EtherXDP", "minimumPacketSize")
    # EtherCat.get_fmmu_addr: self.next_logical_addr += <stride>
    incs = [n for n in ast.walk(ec.func("EtherCat", "get_fmmu_addr")) if isinstance(n, ast.AugAssign)]
    if len(incs) != 1 or not isinstance(incs[0].op, ast.Add):
        raise ConstError("EtherCat.get_fmmu_addr is not a single += of a constant")
    c["EtherCat_fmmu_stride"] = _eval(incs[0].value, {})
    c["SyncManager_OUT"] = ec.enum("SyncManager")["OUT"]
    c["SyncManager_IN"] = ec.enum("SyncManager")["IN"]
    lines = ["(* GENERATED from /repo by harness/gen_consts.py on every run - do not edit *)",
             "From Coq Require Import ZArith.", "Open Scope Z_scope.", ""]
    for k in sorted(c):
        v = c[k]
        lines.append(f"Definition {k} : Z := {'(%d)' % v if v < 0 else v}.")
    # order of list(MachineState) as Python's Enum iteration gives it (definition order)
    order = [n.targets[0].id for n in ec.klass("MachineState").body
             if isinstance(n, ast.Assign) and isinstance(n.targets[0], ast.Name)]
    lines.append("Definition MachineState_order : list Z := (" +
                 " :: ".join(f"MachineState_{n}" for n in order) + " :: nil)%list.")
    text = "\n".join(lines) + "\n"
    write_if_changed(os.path.join(outdir, "Consts.v"), text)
    nt = generate_serial_layout(repo, outdir, c)
    return {"Consts.v": len(c), "SerialLayout.v": nt}


LAYOUT = {}      # what generate_serial_layout read, for the harness to compare with the live objects


FMT_SIZE = {"B": 1, "b": 1, "?": 1, "H": 2, "h": 2, "I": 4, "i": 4, "Q": 8, "q": 8, "f": 4, "d": 8}


def fmt_width(fmt):
    """byte width of a process-variable format as struct (little-endian, no padding) lays it out; bit numbers occupy their byte"""
    if isinstance(fmt, int):
        return 1
    import re
    total, pos = 0, 0
    for m in re.finditer(r"(\d*)([A-Za-z?])", fmt):
        if m.start() != pos:
            raise ConstError(f"unsupported format {fmt!r}")
        pos = m.end()
        n, ch = m.group(1), m.group(2)
        if ch in ("s", "p"):
            total += int(n or 1)
        elif ch in FMT_SIZE:
            total += int(n or 1) * FMT_SIZE[ch]
        else:
            raise ConstError(f"unsupported format letter {ch!r} in {fmt!r}")
    if pos != len(fmt) or not fmt:
        raise ConstError(f"unsupported format {fmt!r}")
    return total


def generate_serial_layout(repo, outdir, consts):
    """The process-image layout of the two-channel serial terminals (terminals.py: EL6002, EL6022): every PacketDesc of the
    Channel structure as (sync manager, byte position, bit or -1, byte width) and every channel's offsets (SM3 = in, SM2 = out)."""
    from .common import write_if_changed
    tm = Module(repo, "ebpfcat/terminals.py")
    sms = {"IN": consts["SyncManager_IN"], "OUT": consts["SyncManager_OUT"]}
    out = ["(* GENERATED from /repo/ebpfcat/terminals.py by harness/gen_consts.py on every run - do not edit *)",
           "From Coq Require Import ZArith List.", "Import ListNotations.", "Open Scope Z_scope.", "",
           "(* (sync manager, byte position, bit number or -1, width in bytes) *)"]
    count = 0

    def descs(cls_node):
        res = []
        for n in cls_node.body:
            if isinstance(n, ast.Assign) and len(n.targets) == 1 and isinstance(n.targets[0], ast.Name) and isinstance(n.value, ast.Call) \
                    and isinstance(n.value.func, ast.Name) and n.value.func.id == "PacketDesc":
                a = n.value.args
                if len(a) != 3 or n.value.keywords:
                    raise ConstError(f"PacketDesc of {n.targets[0].id}: expected three positional arguments")
                if not (isinstance(a[0], ast.Attribute) and isinstance(a[0].value, ast.Name) and a[0].value.id == "SyncManager" and a[0].attr in sms):
                    raise ConstError(f"PacketDesc of {n.targets[0].id}: sync manager is not SyncManager.IN / SyncManager.OUT")
                pos = _eval(a[1], {})
                if isinstance(a[2], ast.Constant) and isinstance(a[2].value, str):
                    bit, width = -1, fmt_width(a[2].value)
                else:
                    bit, width = _eval(a[2], {}), 1
                    if not 0 <= bit < 8:
                        raise ConstError(f"PacketDesc of {n.targets[0].id}: bit number {bit}")
                res.append((n.targets[0].id, sms[a[0].attr], pos, bit, width))
        return res
    for term in ("EL6002", "EL6022"):
        tcls = tm.klass(term)
        ch = [n for n in tcls.body if isinstance(n, ast.ClassDef) and n.name == "Channel"]
        if len(ch) != 1:
            raise ConstError(f"{term}.Channel not found")
        ch = ch[0]
        ds = descs(ch)
        # a Channel derived from another terminal's Channel inherits its descriptors
        for b in ch.bases:
            if isinstance(b, ast.Attribute) and b.attr == "Channel" and isinstance(b.value, ast.Name):
                base = [n for n in tm.klass(b.value.id).body if isinstance(n, ast.ClassDef) and n.name == "Channel"][0]
                ds = [d for d in descs(base) if d[0] not in {x[0] for x in ds}] + ds
            elif not (isinstance(b, ast.Name) and b.id == "Struct"):
                raise ConstError(f"{term}.Channel: unsupported base class")
        if not ds:
            raise ConstError(f"{term}.Channel has no PacketDesc")
        chans = []
        for n in tcls.body:
            if isinstance(n, ast.Assign) and len(n.targets) == 1 and isinstance(n.targets[0], ast.Name) and isinstance(n.value, ast.Call) \
                    and isinstance(n.value.func, ast.Name) and n.value.func.id == "Channel":
                a = [_eval(x, {}) for x in n.value.args]
                if n.value.keywords or not 1 <= len(a) <= 3:
                    raise ConstError(f"{term}.{n.targets[0].id}: unsupported Channel(...) arguments")
                sm3 = a[0]
                sm2 = a[1] if len(a) > 1 else sm3       # StructDesc.__init__: sm2 defaults to sm3
                chans.append((n.targets[0].id, sm3, sm2))
        if len(chans) < 2:
            raise ConstError(f"{term}: fewer than two channels found")
        LAYOUT[term] = {"descs": ds, "chans": chans}
        out.append(f"Definition {term}_descs : list (Z * Z * Z * Z) :=")
        out.append("  [" + "; ".join(f"({sm}, {pos}, {'(-1)' if bit < 0 else bit}, {w})" for _, sm, pos, bit, w in ds) + "].")
        out.append(f"(* names: {', '.join(d[0] for d in ds)} *)")
        for role in ("transmit_request", "receive_accept", "init_request", "out_string", "transmit_accept", "receive_request", "init_accept", "in_string"):
            d = [x for x in ds if x[0] == role]
            if len(d) != 1:
                raise ConstError(f"{term}.Channel.{role} not found")
            _, sm, pos, bit, w = d[0]
            out.append(f"Definition {term}_{role} : Z * Z * Z * Z := ({sm}, {pos}, {'(-1)' if bit < 0 else bit}, {w}).")
        out.append(f"(* channel offsets: (offset in the input image (SM3), offset in the output image (SM2)) *)")
        out.append(f"Definition {term}_channels : list (Z * Z) := [" + "; ".join(f"({a}, {b})" for _, a, b in chans) + "].")
        out.append("")
        count += len(ds) + len(chans)
    write_if_changed(os.path.join(outdir, "SerialLayout.v"), "\n".join(out) + "\n")
    return count
