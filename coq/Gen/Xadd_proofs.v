From Verif Require Import Gen.Xadd.

Lemma total_app a b : total (a ++ b) = total a + total b.
Proof. unfold total. induction a as [|x a IH]; cbn [app fold_right]; lia. Qed.

Lemma total_nil ls : Forall (fun l => l = []) ls -> total ls = 0.
Proof. unfold total. induction 1 as [|x l Hx _ IH]; [reflexivity|]. cbn [fold_right]. subst x. cbn [adds]. lia. Qed.

Lemma interleave_adds ls m : interleave ls m -> adds m = total ls.
Proof.
  induction 1 as [ls H|pre e rest post m _ IH].
  - symmetry. apply total_nil. exact H.
  - rewrite total_app in *. unfold total in *. cbn [fold_right] in *.
    destruct e; cbn [adds]; lia.
Qed.

Lemma fold_apply n : forall m c, atomic_only m ->
  fold_left (apply_ev n) m c mod 256 ^ Z.of_nat n = (c + adds m) mod 256 ^ Z.of_nat n.
Proof.
  assert (P : 0 < 256 ^ Z.of_nat n) by (apply Z.pow_pos_nonneg; lia).
  induction m as [|e m IH]; intros c Ha; cbn [fold_left adds].
  - f_equal. lia.
  - inversion Ha as [|? ? He Hm]; subst. destruct e; try contradiction; cbn [apply_ev adds].
    + apply IH. exact Hm.
    + rewrite IH by exact Hm. rewrite Zplus_mod, Z.mod_mod, <- Zplus_mod by lia. f_equal. lia.
Qed.

Lemma interleave_atomic ls m : interleave ls m -> Forall atomic_only ls -> atomic_only m.
Proof.
  induction 1 as [ls H|pre e rest post m _ IH]; intros Ha; [constructor|].
  apply Forall_app in Ha as [Hpre Hpost]. inversion Hpost as [|? ? Hx Hpost']; subst.
  inversion Hx as [|? ? He Hrest]; subst. constructor; [exact He|].
  apply IH. apply Forall_app. split; [exact Hpre|]. constructor; assumption.
Qed.

(* No update is lost: whatever the interleaving of the instances' instructions,
   the cell ends up changed by the sum of all amounts *)
Theorem no_lost_update n ls m c : Forall atomic_only ls -> interleave ls m -> 0 <= c < 256 ^ Z.of_nat n ->
  fold_left (apply_ev n) m c mod 256 ^ Z.of_nat n = (c + total ls) mod 256 ^ Z.of_nat n.
Proof.
  intros Ha Hi _. rewrite fold_apply by (eapply interleave_atomic; eassumption).
  rewrite (interleave_adds _ _ Hi). reflexivity.
Qed.

(* and the result is a proper n-byte value *)
Lemma fold_range n : forall m c, 0 <= c < 256 ^ Z.of_nat n -> 0 <= fold_left (apply_ev n) m c < 256 ^ Z.of_nat n.
Proof.
  induction m as [|e m IH]; intros c Hc; cbn [fold_left]; [exact Hc|]. apply IH.
  destruct e; cbn [apply_ev]; try exact Hc. apply Z.mod_pos_bound. lia.
Qed.

Theorem no_lost_update_eq n ls m c : Forall atomic_only ls -> interleave ls m -> 0 <= c < 256 ^ Z.of_nat n ->
  fold_left (apply_ev n) m c = (c + total ls) mod 256 ^ Z.of_nat n.
Proof.
  intros Ha Hi Hc. rewrite <- (no_lost_update n ls m c Ha Hi Hc). symmetry. apply Z.mod_small. apply fold_range. exact Hc.
Qed.

(* the read-modify-write lowering DOES lose updates: two instances adding 1 *)
Theorem rmw_loses_update :
  let sched := [(0, Load 0); (1, Load 0); (0, StoreSum 0 1); (1, StoreSum 0 1)]%nat in
  fst (fold_left (rmw_step 4) sched (10, [0; 0])) = 11 /\ 11 <> (10 + (1 + 1)) mod 256 ^ 4.
Proof. vm_compute. split; [reflexivity|discriminate]. Qed.

(* Isa.step on an XADD instruction is ONE step that adds the source register to
   the n-byte cell: the abstraction of that instruction to `Add` *)
Theorem isa_xadd_is_add prog pc s i : nth_error prog pc = Some i ->
  Z.land (i_op i) 7 = 3 -> Z.land (i_op i) 224 = 192 ->
  let n := size_of (i_op i) in
  let addr := wrap64 (reg s (i_dst i) + i_off i) in
  forall old s', load s addr n = Some old ->
  store s addr n (xadd_cell n old (reg s (i_src i))) = Some s' ->
  step prog pc s = (s', Running, S pc).
Proof.
  intros Hi Hc Hm n addr old s' Hl Hs. unfold step. rewrite Hi. rewrite Hc, Hm. cbn [Z.eqb Pos.eqb orb].
  fold n. fold addr. rewrite Hl. unfold xadd_cell in Hs. rewrite Hs. reflexivity.
Qed.
