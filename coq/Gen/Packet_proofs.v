From Verif Require Import Lib.ListX Lib.Struct_proofs Gen.Arith Gen.Denote Gen.Denote_proofs Gen.Packet.

Lemma le_bytes_mod n z : le_bytes n (z mod 256 ^ Z.of_nat n) = le_bytes n z.
Proof.
  rewrite <- le_val_le_bytes. pose proof (le_bytes_le_val (le_bytes n z) (le_bytes_is_byte n z)) as H.
  rewrite le_bytes_length in H. exact H.
Qed.

Lemma Forall_rev' {A} (P : A -> Prop) l : Forall P l -> Forall P (rev l).
Proof. intros H. apply Forall_forall. intros x Hx. apply in_rev in Hx. rewrite Forall_forall in H. auto. Qed.

Lemma bswap_le_val n bs : length bs = n -> Forall is_byte bs -> bswap n (le_val bs) = le_val (rev bs).
Proof. intros L B. unfold bswap. subst n. rewrite le_bytes_le_val by exact B. reflexivity. Qed.

Lemma le_bytes_bswap n v : le_bytes n (bswap n v) = rev (le_bytes n v).
Proof.
  unfold bswap. pose proof (le_bytes_le_val (rev (le_bytes n v))) as H.
  rewrite rev_length, le_bytes_length in H. apply H. apply Forall_rev'. apply le_bytes_is_byte.
Qed.

(* the register after the load sequence holds struct.unpack's unsigned value *)
Theorem code_load_spec f bs : length bs = pf_n f -> Forall is_byte bs ->
  code_load f bs = unpack_u f bs /\ 0 <= code_load f bs < 256 ^ Z.of_nat (pf_n f).
Proof.
  intros L B. pose proof (le_val_bound bs B) as R. unfold zlen in R. rewrite L in R.
  pose proof (le_val_bound (rev bs) (Forall_rev' _ _ B)) as R'. unfold zlen in R'. rewrite rev_length, L in R'.
  unfold code_load, unpack_u, swaps, end_insn.
  destruct (Z.eqb_spec (pf_order f) 0) as [E0|E0]; cbn [negb andb].
  - rewrite E0. cbn. split; [reflexivity|exact R].
  - destruct (Nat.eqb_spec (pf_n f) 1) as [E1|E1]; cbn [negb andb].
    + destruct bs as [|b [|? ?]]; cbn in L; try lia. cbn [rev app]. destruct (pf_order f =? 2); split; auto.
    + rewrite Z.mod_small by exact R. destruct (pf_order f =? 2).
      * rewrite bswap_le_val by assumption. split; [reflexivity|exact R'].
      * split; [reflexivity|exact R].
Qed.

(* a read delivers struct.unpack's value, reduced to the destination's nd bytes *)
Theorem read_exact f bs nd : In (pf_n f) [1; 2; 4; 8]%nat -> In nd [1; 2; 4; 8]%nat ->
  length bs = pf_n f -> Forall is_byte bs ->
  stored (read_expr f bs) nd = unpack f bs mod 256 ^ Z.of_nat nd.
Proof.
  intros Hn Hd L B. destruct (code_load_spec f bs L B) as [E R]. unfold read_expr.
  rewrite stored_exact; [|exact Hd|cbn [ok]; split; assumption].
  cbn [exact]. unfold leaf_value, unpack. rewrite E. reflexivity.
Qed.

(* the bytes stored are struct.pack's *)
Theorem code_store_spec f v : code_store_bytes f v = pack f v.
Proof.
  unfold code_store_bytes, pack, swaps, end_insn. rewrite le_bytes_mod.
  destruct (Z.eqb_spec (pf_order f) 0) as [E0|E0]; cbn [negb andb].
  - rewrite E0. reflexivity.
  - destruct (Nat.eqb_spec (pf_n f) 1) as [E1|E1]; cbn [negb andb].
    + rewrite E1. cbn. destruct (pf_order f =? 2); reflexivity.
    + destruct (pf_order f =? 2).
      * rewrite le_bytes_bswap, le_bytes_mod. reflexivity.
      * apply le_bytes_mod.
Qed.

(* a store changes exactly the bytes it is given *)
Theorem write_bytes_frame l off b l' : write_bytes l off b = Some l' ->
  length l' = length l /\
  read_bytes l' off (length b) = Some b /\
  forall i, (Z.of_nat i < off \/ off + zlen b <= Z.of_nat i) -> nth i l' 0 = nth i l 0.
Proof.
  unfold write_bytes, read_bytes, zlen. intros H.
  destruct (Z.ltb_spec off 0); cbn [orb] in H; [discriminate|].
  destruct (Z.ltb_spec (Z.of_nat (length l)) (off + Z.of_nat (length b))); [discriminate|].
  injection H as <-.
  assert (Lf : length (firstn (Z.to_nat off) l) = Z.to_nat off) by (rewrite firstn_length; lia).
  split; [|split].
  - rewrite !app_length, Lf, skipn_length. lia.
  - destruct (Z.ltb_spec off 0); [lia|]. cbn [orb].
    rewrite !app_length, Lf, skipn_length.
    destruct (Z.ltb_spec (Z.of_nat (Z.to_nat off + (length b + (length l - (Z.to_nat off + length b))))) (off + Z.of_nat (length b))); [lia|].
    f_equal. rewrite skipn_app_exact' by exact Lf. apply firstn_app_exact.
  - intros i [Hi|Hi].
    + rewrite app_nth1 by lia. apply nth_firstn_lt. lia.
    + rewrite app_nth2 by lia. rewrite app_nth2 by lia. rewrite nth_skipn'. f_equal. lia.
Qed.

Theorem pkt_write_spec f pk p v pk' : pkt_write f pk p v = Some pk' ->
  length pk' = length pk /\
  read_bytes pk' p (pf_n f) = Some (pack f v) /\
  forall i, (Z.of_nat i < p \/ p + Z.of_nat (pf_n f) <= Z.of_nat i) -> nth i pk' 0 = nth i pk 0.
Proof.
  unfold pkt_write. rewrite code_store_spec. intros H. destruct (write_bytes_frame _ _ _ _ H) as (L & R & F).
  assert (Lp : length (pack f v) = pf_n f).
  { unfold pack. destruct (pf_order f =? 2); rewrite ?rev_length; apply le_bytes_length. }
  rewrite Lp in R. unfold zlen in F. rewrite Lp in F. auto.
Qed.

(* writing then reading gives the value back (in the format's range) *)
Theorem unpack_pack f v : (0 < pf_n f)%nat ->
  (if pf_signed f then - 2 ^ (8 * Z.of_nat (pf_n f) - 1) <= v < 2 ^ (8 * Z.of_nat (pf_n f) - 1)
   else 0 <= v < 256 ^ Z.of_nat (pf_n f)) ->
  unpack f (pack f v) = v.
Proof.
  intros Hn Hr. unfold unpack, unpack_u, pack.
  assert (E : (if pf_order f =? 2 then le_val (rev (if pf_order f =? 2 then rev (le_bytes (pf_n f) v) else le_bytes (pf_n f) v))
               else le_val (if pf_order f =? 2 then rev (le_bytes (pf_n f) v) else le_bytes (pf_n f) v)) = v mod 256 ^ Z.of_nat (pf_n f)).
  { destruct (pf_order f =? 2); rewrite ?rev_involutive; apply le_val_le_bytes. }
  rewrite E. destruct (pf_signed f).
  - apply sx_wrap_signed; assumption.
  - apply Z.mod_small. exact Hr.
Qed.

(* the guard: when the body runs, every access inside the guarded size is in bounds *)
Theorem guard_in_bounds G pk p n : guard_passes G (zlen pk) = true -> 0 <= p -> p + Z.of_nat n <= G ->
  exists bs, read_bytes pk p n = Some bs /\ length bs = n.
Proof.
  unfold guard_passes, read_bytes. intros Hg Hp Hn. destruct (Z.leb_spec (zlen pk) G); [discriminate|].
  destruct (Z.ltb_spec p 0); [lia|]. destruct (Z.ltb_spec (zlen pk) (p + Z.of_nat n)); [lia|]. cbn [orb].
  eexists. split; [reflexivity|]. rewrite firstn_length, skipn_length. unfold zlen in *. lia.
Qed.

Theorem guard_write_in_bounds G pk p f v : guard_passes G (zlen pk) = true -> 0 <= p -> p + Z.of_nat (pf_n f) <= G ->
  exists pk', pkt_write f pk p v = Some pk'.
Proof.
  unfold guard_passes, pkt_write, write_bytes. intros Hg Hp Hn. destruct (Z.leb_spec (zlen pk) G); [discriminate|].
  assert (L : zlen (code_store_bytes f v) = Z.of_nat (pf_n f)) by (unfold zlen, code_store_bytes; rewrite le_bytes_length; reflexivity).
  rewrite L. destruct (Z.ltb_spec p 0); [lia|]. destruct (Z.ltb_spec (zlen pk) (p + Z.of_nat (pf_n f))); [lia|]. cbn [orb].
  eexists. reflexivity.
Qed.

Theorem guard_iff G len : guard_passes G len = true <-> G < len.
Proof. unfold guard_passes. destruct (Z.leb_spec len G); cbn; split; intros; try discriminate; try lia; reflexivity. Qed.
