From Verif Require Import Lib.Base Dev.Serial.

Definition v_optl (o : option (list Z)) : V := match o with None => VNone | Some l => VB l end.
Definition v_dev (d : dev) : V :=
  VL [VBool (connected d); VBool (lta d); VBool (lrr d); VBool (lra d); VBool (ltr d); v_optl (cur d);
      VBool (o_treq d); VBool (o_racc d); VBool (o_ireq d); VB (o_str d)].
Definition v_term (t : term) : V :=
  VL [VZ (Z.of_nat (t_phase t)); VBool (t_tacc t); VBool (t_rreq t); VBool (t_iacc t); VB (t_str t)].
Definition v_sys (s : sys) : V :=
  VL [v_dev (s_dev s); v_term (s_term s); VB (s_pipe s); VL (map VB (accepted s)); VL (map VB (delivered s))].

Fixpoint trace (s : sys) (es : list event) : list V :=
  match es with
  | [] => []
  | e :: tl => let s' := step s e in v_sys s' :: trace s' tl
  end.
Definition run (es : list event) : V := VL (trace sys0 es).
