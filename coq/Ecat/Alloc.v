(* Process-data allocation of a sync group:
   EBPFTerminal.allocate, AerotechBase.allocate, SterilePacket.append_fmmu,
   SyncGroupBase.allocate (ebpfcat/ebpfcat.py, ebpfcat/terminals.py). *)
From Verif Require Export Ecat.Frame.

Inductive tkind := KFmmu | KDirect | KAero (a_in a_out : Z).
Record term := { t_kind : tkind; t_in : Z; t_out : Z; t_rw : bool;
                 t_pos : Z; t_inoff : Z; t_outoff : Z }.

(* (BaseType, value) pairs of the `bases` dict *)
Inductive base := BNo (abs : Z) | BIn (off : Z) | BOut (off : Z).

Record astate := { a_pk : spacket; fin_size : Z; fin_count : Z; fout_size : Z; fout_count : Z }.

Definition init_astate : astate :=
  {| a_pk := {| sp := empty_packet; on_the_fly := [] |};
     fin_size := 0; fin_count := 0; fout_size := 0; fout_count := 0 |}.

Definition with_pk (st : astate) (pk : spacket) : astate :=
  {| a_pk := pk; fin_size := fin_size st; fin_count := fin_count st;
     fout_size := fout_size st; fout_count := fout_count st |}.

Definition dg (cmd : Z) (data : list Z) (wkc : Z) (addr : list Z) : dgram :=
  {| d_cmd := cmd; d_data := data; d_wkc := wkc; d_idx := 0; d_addr := addr |}.

Definition truthy (z : Z) : bool := negb (z =? 0).

(* one terminal's allocate(); None = OverflowError *)
Definition alloc_term (st : astate) (t : term) : option (astate * (option base * option base)) :=
  match t_kind t with
  | KFmmu =>
      let '(st1, bi) :=
        if truthy (t_in t)
        then ({| a_pk := a_pk st; fin_size := fin_size st + t_in t; fin_count := fin_count st + 1;
                 fout_size := fout_size st; fout_count := fout_count st |}, Some (BIn (fin_size st)))
        else (st, None) in
      let '(st2, bo) :=
        if t_rw t && truthy (t_out t)
        then ({| a_pk := a_pk st1; fin_size := fin_size st1; fin_count := fin_count st1;
                 fout_size := fout_size st1 + t_out t; fout_count := fout_count st1 + 1 |},
              Some (BOut (fout_size st1)))
        else (st1, None) in
      Some (st2, (bi, bo))
  | KDirect =>
      let r1 :=
        if truthy (t_in t)
        then option_map (fun pk => (with_pk st pk, Some (BNo (p_size (sp (a_pk st))))))
               (s_append (a_pk st) (dg ECCmd_FPRD (zeros (Z.to_nat (t_in t))) 1 [t_pos t; t_inoff t]))
        else Some (st, None) in
      match r1 with
      | None => None
      | Some (st1, bi) =>
          if t_rw t && truthy (t_out t)
          then option_map (fun pk => (with_pk st1 pk, (bi, Some (BNo (p_size (sp (a_pk st1)))))))
                 (s_append_writer (a_pk st1) (dg ECCmd_FPWR (zeros (Z.to_nat (t_out t))) 1 [t_pos t; t_outoff t]))
          else Some (st1, (bi, None))
      end
  | KAero a_in a_out =>
      let r1 :=
        if truthy (t_in t)
        then option_map
               (fun pk => ({| a_pk := pk; fin_size := fin_size st + a_in; fin_count := fin_count st + 1;
                              fout_size := fout_size st; fout_count := fout_count st |},
                           Some (BIn (fin_size st))))
               (s_append (a_pk st) (dg ECCmd_FPRD [48] 1 [t_pos t; t_inoff t + t_in t - 1]))
        else Some (st, None) in
      match r1 with
      | None => None
      | Some (st1, bi) =>
          if t_rw t && truthy (t_out t)
          then
            match s_append_writer (a_pk st1) (dg ECCmd_FPWR (zeros (Z.to_nat a_out)) 1 [t_pos t; t_outoff t]) with
            | None => None
            | Some pk1 =>
                option_map (fun pk => (with_pk st1 pk, (bi, Some (BNo (p_size (sp (a_pk st1)))))))
                  (s_append_writer pk1 (dg ECCmd_FPWR [51] 1 [t_pos t; t_outoff t + t_out t - 1]))
            end
          else Some (st1, (bi, None))
      end
  end.

Fixpoint alloc_terms (st : astate) (ts : list term) : option (astate * list (option base * option base)) :=
  match ts with
  | [] => Some (st, [])
  | t :: tl =>
      match alloc_term st t with
      | None => None
      | Some (st1, b) =>
          match alloc_terms st1 tl with
          | None => None
          | Some (st2, bs) => Some (st2, b :: bs)
          end
      end
  end.

(* SterilePacket.append_fmmu *)
Definition append_fmmu (st : astate) (logical : Z) : option (astate * (Z * Z * Z * Z)) :=
  let in_pos := p_size (sp (a_pk st)) in
  let r1 := if truthy (fin_size st)
            then s_append (a_pk st) (dg ECCmd_LRD (zeros (Z.to_nat (fin_size st))) (fin_count st) [logical])
            else Some (a_pk st) in
  match r1 with
  | None => None
  | Some pk1 =>
      let out_pos := p_size (sp pk1) in
      let r2 := if truthy (fout_size st)
                then s_append_writer pk1 (dg ECCmd_LWR (zeros (Z.to_nat (fout_size st))) (fout_count st)
                                              [logical + SterilePacket_logical_addr_inc])
                else Some pk1 in
      option_map (fun pk2 => (with_pk st pk2,
                              (in_pos, out_pos, logical, logical + SterilePacket_logical_addr_inc))) r2
  end.

(* per terminal and sync manager: (position in the frame, logical address or None) *)
Definition resolve (in_pos out_pos lin lout : Z) (b : option base) : option (Z * option Z) :=
  match b with
  | None => None
  | Some (BNo a) => Some (a + Packet_DATAGRAM_HEADER, None)
  | Some (BIn off) => Some (in_pos + off + Packet_DATAGRAM_HEADER, Some (lin + off))
  | Some (BOut off) => Some (out_pos + off + Packet_DATAGRAM_HEADER, Some (lout + off))
  end.

Record alloc_result := { r_pk : spacket; r_assign : list (option (Z * option Z) * option (Z * option Z));
                         r_fin : Z; r_fout : Z }.

(* SyncGroupBase.allocate *)
Definition allocate (ts : list term) (logical : Z) : option alloc_result :=
  match alloc_terms init_astate ts with
  | None => None
  | Some (st, bs) =>
      match append_fmmu st logical with
      | None => None
      | Some (st2, (in_pos, out_pos, lin, lout)) =>
          Some {| r_pk := a_pk st2;
                  r_assign := map (fun b => (resolve in_pos out_pos lin lout (fst b),
                                             resolve in_pos out_pos lin lout (snd b))) bs;
                  r_fin := fin_size st; r_fout := fout_size st |}
      end
  end.

(* the size of the region a terminal is given *)
Definition in_region_size (t : term) : Z := match t_kind t with KAero a _ => a | _ => t_in t end.
Definition out_region_size (t : term) : Z := match t_kind t with KAero _ a => a | _ => t_out t end.

(* EtherCat.get_fmmu_addr of the single-process masters: k-th call *)
Definition fmmu_addr (k : Z) : Z := EtherCat_fmmu_stride * k.
