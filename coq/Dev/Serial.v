(* ebpfcat/serial.py: Serial.update (slow path) and the EL6002 handshake it
   talks to.  One cycle = update() on the inputs of the latest response, then
   the terminal reacts to the outputs; the terminal's timing is an oracle. *)
From Verif Require Export Lib.ListX.

Record dev := { connected : bool; lta : bool; lrr : bool; lra : bool; ltr : bool;
                cur : option (list Z);
                o_treq : bool; o_racc : bool; o_ireq : bool; o_str : list Z }.

Record tin := { i_tacc : bool; i_rreq : bool; i_iacc : bool; i_str : list Z }.

Definition dev0 : dev :=
  {| connected := false; lta := false; lrr := false; lra := false; ltr := false; cur := None;
     o_treq := false; o_racc := false; o_ireq := false; o_str := [] |}.

Definition chunk : nat := 22.

(* update(): returns the new device, the out-pipe after os.read, and what was
   written to the in-pipe (None, the marker b"A", or a received chunk) *)
Inductive inwrite := WNone | WInit | WChunk (c : list Z).

Definition update (d : dev) (i : tin) (pipe : list Z) : dev * list Z * inwrite :=
  if negb (connected d) then
    if i_iacc i then
      ({| connected := true; lta := i_tacc i; lrr := i_rreq i; lra := lra d; ltr := ltr d; cur := cur d;
          o_treq := o_treq d; o_racc := o_racc d; o_ireq := false; o_str := o_str d |}, pipe, WInit)
    else
      ({| connected := false; lta := lta d; lrr := lrr d; lra := lra d; ltr := ltr d; cur := cur d;
          o_treq := o_treq d; o_racc := o_racc d; o_ireq := true; o_str := o_str d |}, pipe, WNone)
  else
    (* receive direction *)
    let rx := negb (Bool.eqb (lrr d) (i_rreq i)) in
    let lra1 := if rx then negb (lra d) else lra d in
    let racc1 := if rx then lra1 else o_racc d in
    let w := if rx then WChunk (i_str i) else WNone in
    (* transmit direction *)
    let acked := negb (Bool.eqb (lta d) (i_tacc i)) in
    let cur1 := if acked then None else cur d in
    let '(cur2, ltr2, pipe2) :=
      match cur1 with
      | Some c => (Some c, ltr d, pipe)
      | None => match pipe with
                | [] => (None, ltr d, pipe)                       (* BlockingIOError *)
                | _ => (Some (firstn chunk pipe), negb (ltr d), skipn chunk pipe)
                end
      end in
    ({| connected := true; lta := i_tacc i; lrr := i_rreq i; lra := lra1; ltr := ltr2; cur := cur2;
        o_treq := ltr2; o_racc := racc1; o_ireq := false;
        o_str := match cur2 with Some c => c | None => o_str d end |}, pipe2, w).

(* ---- the terminal (EL6002 channel), timing decided by an oracle ---- *)
Record term := { t_phase : nat;   (* 0: waits for init request, 1: init accepted, 2: operational *)
                 t_tacc : bool; t_rreq : bool; t_iacc : bool; t_str : list Z }.
Definition term0 : term := {| t_phase := 0; t_tacc := false; t_rreq := false; t_iacc := false; t_str := [] |}.

Record oracle := { or_init : bool;                 (* reacts to the init handshake this cycle *)
                   or_accept : bool;               (* takes a pending transmit chunk this cycle *)
                   or_announce : option (list Z) } (* has a received chunk to hand over *).

(* reaction to the outputs; returns the new terminal, the chunk it accepted
   (if any) and the chunk it announced (if any) *)
Definition react (t : term) (d : dev) (o : oracle) : term * option (list Z) * option (list Z) :=
  match t_phase t with
  | O => if or_init o && o_ireq d
         then ({| t_phase := 1; t_tacc := t_tacc t; t_rreq := t_rreq t; t_iacc := true; t_str := t_str t |}, None, None)
         else (t, None, None)
  | S O => if or_init o && negb (o_ireq d)
           then ({| t_phase := 2; t_tacc := t_tacc t; t_rreq := t_rreq t; t_iacc := false; t_str := t_str t |}, None, None)
           else (t, None, None)
  | _ =>
      let pending := negb (Bool.eqb (o_treq d) (t_tacc t)) in
      let take := pending && or_accept o in
      let tacc' := if take then o_treq d else t_tacc t in
      let free := Bool.eqb (t_rreq t) (o_racc d) in
      match (if free then or_announce o else None) with
      | Some c => ({| t_phase := 2; t_tacc := tacc'; t_rreq := negb (t_rreq t); t_iacc := false; t_str := c |},
                   (if take then Some (o_str d) else None), Some c)
      | None => ({| t_phase := 2; t_tacc := tacc'; t_rreq := t_rreq t; t_iacc := false; t_str := t_str t |},
                 (if take then Some (o_str d) else None), None)
      end
  end.

Definition inputs_of (t : term) : tin :=
  {| i_tacc := t_tacc t; i_rreq := t_rreq t; i_iacc := t_iacc t; i_str := t_str t |}.

(* ---- the whole system with ghost histories ---- *)
Record sys := { s_dev : dev; s_term : term; s_pipe : list Z;
                written : list Z;              (* everything the application wrote, in order *)
                accepted : list (list Z);      (* chunks the terminal took, in order *)
                announced : list (list Z);     (* chunks the terminal handed over, in order *)
                delivered : list (list Z) }    (* chunks written to the application's pipe *).

Definition sys0 : sys :=
  {| s_dev := dev0; s_term := term0; s_pipe := []; written := []; accepted := []; announced := []; delivered := [] |}.

Inductive event := EWrite (b : list Z) | ECycle (o : oracle).

Definition opt_snoc {A} (l : list A) (o : option A) : list A := match o with Some a => l ++ [a] | None => l end.

Definition step (s : sys) (e : event) : sys :=
  match e with
  | EWrite b => {| s_dev := s_dev s; s_term := s_term s; s_pipe := s_pipe s ++ b; written := written s ++ b;
                   accepted := accepted s; announced := announced s; delivered := delivered s |}
  | ECycle o =>
      let '(d', pipe', w) := update (s_dev s) (inputs_of (s_term s)) (s_pipe s) in
      let '(t', acc, ann) := react (s_term s) d' o in
      {| s_dev := d'; s_term := t'; s_pipe := pipe'; written := written s;
         accepted := opt_snoc (accepted s) acc; announced := opt_snoc (announced s) ann;
         delivered := match w with WChunk c => delivered s ++ [c] | _ => delivered s end |}
  end.
